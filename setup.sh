#!/bin/sh
# Run once after a fresh restore, offline: builds the fact extractor and warms the dependency cache
# of the analysis build (so that each check only re-checks the cassadilia crate itself).
set -e
cd "$(dirname "$0")"
export CARGO_NET_OFFLINE=true
mkdir -p .cache evidence/violations
(cd driver && cargo build --offline 2>&1 | tail -2)
python3 -m casslint.extract >/dev/null
echo "setup ok"
