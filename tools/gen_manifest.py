#!/usr/bin/env python3
"""Generates /verif/MANIFEST.json from casslint/props.py (claimed properties) and properties.jsonl."""
import json
import os
import sys

VERIF = os.path.dirname(os.path.dirname(os.path.abspath(__file__)))
sys.path.insert(0, VERIF)
from casslint import props  # noqa: E402

TECH = "static analysis: custom rustc_private MIR fact extractor + repository-specific rule engine " \
       "(dataflow / lockset / effect-ownership / provenance over the type-checked program)"


def main():
    ids = [json.loads(l)["id"] for l in open(os.path.join(VERIF, "properties.jsonl"))]
    checks = []
    na = []
    for pid in ids:
        meta = props.PROPS.get(pid)
        if meta is None or meta.get("claimed", True) is False:
            na.append({"property_id": pid,
                       "reason": (meta or {}).get("na_reason", "rules for this property are still being built "
                                                               "(DESIGN.md section 9); not claimed yet")})
            continue
        checks.append({
            "property_id": pid,
            "quick_cmd": "./check %s --tier quick" % pid,
            "thorough_cmd": "./check %s --tier thorough" % pid,
            "evidence_file": "/verif/evidence/%s.json" % pid,
            "replay_cmd_template": "./check %s --replay {path}" % pid,
            "engine": "casslint",
            "level_claimed": {
                "category": meta["level"],
                "text": meta["explanation"],
                "design_ref": "DESIGN.md section 3, " + pid,
            },
            "level_note": "decides the named structural clauses (necessary conditions), not the behaviour; trusted: "
                          "rustc MIR at mir-opt-level=0, the extern effect table, closed world (effective "
                          "visibility). Not decided: " + meta.get("not_decided", ""),
            "technique": meta.get("technique", TECH),
        })
    m = {
        "version": 1,
        "setup_cmd": "./setup.sh",
        "hooks": {
            "guard": "cassadilia_verif",
            "enable": "not used: the static checks analyse the shipping configuration (lib target, default "
                      "features, cfg(test) off); no source hooks exist",
            "baseline_off_cmd": "cd /repo && cargo test --workspace --no-fail-fast --offline",
            "source_commits": [],
            "add_only": True,
        },
        "engines": [
            {"name": "cassfacts", "path": "/verif/driver", "serves_properties": ids,
             "kind_free_text": "rustc_private driver (nightly) dumping MIR, resolved callees, types, visibility"},
            {"name": "casslint", "path": "/verif/casslint", "serves_properties": ids,
             "kind_free_text": "python3 (stdlib) static-analysis engine: call graph, effect table, path-class value "
                               "flow, must/may dataflow with summaries, locksets, provenance slicing, rules"},
        ],
        "checks": checks,
        "not_applicable": na,
        "notes": "Every check re-extracts facts from /repo's current working tree when the source digest changed "
                 "(cargo +nightly check with the driver as RUSTC_WORKSPACE_WRAPPER) and fails closed if the tree "
                 "does not build or the fact file is stale. Known findings: /verif/known_findings.json.",
    }
    with open(os.path.join(VERIF, "MANIFEST.json"), "w") as fh:
        json.dump(m, fh, indent=1)
        fh.write("\n")
    print("claimed:", [c["property_id"] for c in checks])
    print("not applicable (yet):", [n["property_id"] for n in na])


if __name__ == "__main__":
    main()
