#!/usr/bin/env python3
"""Prints the rule inventory (DESIGN.md appendix D) from the evidence files of the last run against /repo."""
import glob
import json
import os

V = os.path.dirname(os.path.dirname(os.path.abspath(__file__)))
for f in sorted(glob.glob(os.path.join(V, "evidence", "C*.json"))):
    e = json.load(open(f))
    cov = e["coverage"]
    print("**%s** (%s) - %d rule instances on the pinned tree" % (e["property_id"], e["level"], cov["obligations"]))
    print()
    for r in cov.get("rules", []):
        fl = "" if r.get("floor") is None else ", floor %d" % r["floor"]
        print("* `%s` %s *(%d instance(s)%s)*" % (r["rule"], r["title"], r["instances"], fl))
    print()
