#!/usr/bin/env python3
"""Prints the markdown table of DESIGN.md section 10.6 from seeded/*/meta.json and seeded/RESULTS.json."""
import json
import os

HERE = os.path.dirname(os.path.abspath(__file__))
SEEDED = os.path.join(os.path.dirname(HERE), "seeded")


def main():
    res = json.load(open(os.path.join(SEEDED, "RESULTS.json")))
    known = set(e["key"] for e in json.load(open(os.path.join(os.path.dirname(SEEDED), "known_findings.json")))["findings"]
                if e.get("status") == "known")
    print("| seed | what was changed | reported by the property's own check | also reported by |")
    print("|---|---|---|---|")
    for name in sorted(os.listdir(SEEDED)):
        mp = os.path.join(SEEDED, name, "meta.json")
        if not os.path.isfile(mp):
            continue
        meta = json.load(open(mp))
        own = meta["property"]
        r = res.get(name, {})
        ownkeys = r.get(own, [])
        def short(k):
            parts = k.split("|")
            return "%s-%s `%s`" % (parts[0], parts[1], parts[-1]) if len(parts) >= 4 else k
        uniq = []
        for k in ownkeys:
            if k in known:
                continue        # the recorded finding F-4 is printed on every tree; it is not a report of this change
            if short(k) not in uniq:
                uniq.append(short(k))
        own_s = "; ".join(uniq[:3]) if uniq else "**not reported**"
        others = ", ".join(sorted(p for p in r if p != own))
        print("| %s | %s | %s | %s |" % (name, meta["change"], own_s, others or "-"))


if __name__ == "__main__":
    main()
