"""CFG helpers: edge dominance, reachability with removed edges/blocks, comparison switches."""
from .core import term_path
from .vfg import place_of


def reach(body, start, removed_edges=(), removed_blocks=()):
    removed_edges = set(removed_edges)
    removed_blocks = set(removed_blocks)
    seen = set()
    work = [start]
    while work:
        b = work.pop()
        if b in seen or b in removed_blocks:
            continue
        seen.add(b)
        for s in body.succs(b):
            if (b, s) not in removed_edges:
                work.append(s)
    return seen


def edge_dominates(body, edge, x):
    """Every path from the entry to block x takes `edge`."""
    return x not in reach(body, 0, removed_edges=[edge])


def edges_dominate(body, edges, x):
    """Every path from the entry to x takes at least one of `edges`."""
    return x not in reach(body, 0, removed_edges=list(edges))


def def_of(body, local, near=None):
    """The single definition of a local; with several definitions (a flat view duplicates blocks when it threads
    jumps) the one inside block `near`, if there is exactly one there."""
    d = body.assignments().get(local, [])
    if len(d) == 1:
        return d[0]
    if near is not None:
        here = [x for x in d if x[0] == near and x[1] != "term"]
        if len(here) == 1:
            return here[0]
    return None


def switch_condition(body, bb):
    """For a switch block: description of what is tested.
       ("cmp", op, a_operand, b_operand, negated) for a switch on a bool produced by a BinaryOp or by
       PartialEq::{eq,ne}/PartialOrd::* ;  ("discr", place) for a switch on a discriminant;
       ("bool", operand) otherwise."""
    t = body.blocks[bb]["term"]
    if t["k"] != "switch":
        return None
    pl = place_of(t["discr"])
    if pl is None or pl["p"]:
        return ("const", t["discr"])
    l = pl["l"]
    neg = False
    for _ in range(6):
        d = def_of(body, l, near=bb)
        if d is None:
            return ("bool", t["discr"])
        dbb, j, rv = d
        if j == "term":
            p = term_path(rv)
            if p in ("std::cmp::PartialEq::eq", "std::cmp::PartialEq::ne", "std::cmp::PartialOrd::lt",
                     "std::cmp::PartialOrd::le", "std::cmp::PartialOrd::gt", "std::cmp::PartialOrd::ge"):
                op = {"eq": "Eq", "ne": "Ne", "lt": "Lt", "le": "Le", "gt": "Gt", "ge": "Ge"}[p.split("::")[-1]]
                return ("cmp", op, rv["args"][0], rv["args"][1], neg, dbb)
            return ("call", p, rv, neg, dbb)
        k = rv["k"]
        if k == "binop" and rv["op"] in ("Eq", "Ne", "Lt", "Le", "Gt", "Ge"):
            return ("cmp", rv["op"], rv["a"], rv["b"], neg, dbb)
        if k == "discr":
            return ("discr", rv["place"], dbb)
        if k == "unop" and rv["op"] == "Not":
            neg = not neg
            p2 = place_of(rv["a"])
            if p2 is None or p2["p"]:
                return ("bool", rv["a"])
            l = p2["l"]
            continue
        if k == "use":
            p2 = place_of(rv["op"])
            if p2 is None or p2["p"]:
                return ("bool", rv["op"])
            l = p2["l"]
            continue
        return ("other", rv)
    return ("bool", t["discr"])


def switch_edges(body, bb):
    """{value or 'otherwise': target} of a switch."""
    t = body.blocks[bb]["term"]
    out = {}
    for v, b in t["targets"]:
        out[v] = b
    out["otherwise"] = t["otherwise"]
    return out


def true_false_edges(body, bb):
    """(true target, false target) of a switch on a bool."""
    e = switch_edges(body, bb)
    f = e.get(0)
    t = e.get(1, e["otherwise"] if 0 in e else None)
    if f is None:
        f = e["otherwise"]
    return t, f


def cmp_true_edge(body, bb):
    """For a switch on a comparison: (op, a, b, target when `a op b` holds, target when it does not)."""
    c = switch_condition(body, bb)
    if not c or c[0] != "cmp":
        return None
    _, op, a, b, neg, _dbb = c
    t, f = true_false_edges(body, bb)
    if neg:
        t, f = f, t
    return (op, a, b, t, f)


def eq_edges(body, bb):
    """For a switch on `a == b` or `a != b`: (a, b, target when equal, target when different)."""
    c = cmp_true_edge(body, bb)
    if c is None or c[0] not in ("Eq", "Ne"):
        return None
    op, a, b, t, f = c
    return (a, b, t, f) if op == "Eq" else (a, b, f, t)


def natural_loop(body, header):
    """Blocks of the natural loop(s) with this header: header plus everything that can reach a back
    edge source without passing through the header."""
    backs = [p for p in body.preds(header) if body.dominates(header, p)]
    loop = {header}
    work = list(backs)
    while work:
        x = work.pop()
        if x in loop:
            continue
        loop.add(x)
        work.extend(body.preds(x))
    return loop


def canon_place(b, pl):
    """(local, field names) of a place, looking through references to locals: `(*p).f` with `p = &mut x` is `x.f`
    (so that a struct handed to a helper by reference and updated there is the caller's struct in a flat view)."""
    l, proj = pl["l"], list(pl["p"])
    for _ in range(12):
        if proj and proj[0] == "deref":
            defs = b.assignments().get(l, [])
            if len(defs) == 1 and defs[0][1] != "term":
                rv = defs[0][2]
                if rv["k"] == "ref":
                    l, proj = rv["place"]["l"], list(rv["place"]["p"]) + proj[1:]
                    continue
                if rv["k"] == "use" and place_of(rv["op"]) is not None:
                    p2 = place_of(rv["op"])
                    l, proj = p2["l"], list(p2["p"]) + proj
                    continue
        elif proj and isinstance(proj[0], dict) and "f" in proj[0]:
            # a captured variable of an inlined closure (`(*env).0`), a component of a tuple built right here: the
            # field of an aggregate with a single definition is the operand it was built from
            defs = b.assignments().get(l, [])
            if len(defs) == 1 and defs[0][1] != "term" and defs[0][2]["k"] == "agg" and \
                    defs[0][2].get("ak") in ("closure", "tuple") and proj[0]["f"] < len(defs[0][2]["ops"]):
                p2 = place_of(defs[0][2]["ops"][proj[0]["f"]])
                if p2 is not None:
                    l, proj = p2["l"], list(p2["p"]) + proj[1:]
                    continue
        break
    return (l, tuple(e.get("n", e.get("f")) for e in proj if isinstance(e, dict) and "f" in e))


def canon_of_borrow(b, op):
    """The canonical place a reference operand points to (`&mut x.f`, possibly re-borrowed or passed through
    parameters of inlined helpers); None if it is not a reference to a local place."""
    pl = place_of(op)
    if pl is None:
        return None
    return canon_place(b, {"l": pl["l"], "p": list(pl["p"]) + ["deref"]})


def flows_to(b, src, dst, depth=0):
    """Is local `src` moved (whole) into local `dst` - directly or through the return place of an inlined constructor?"""
    if src == dst:
        return True
    if depth > 6:
        return False
    for l, defs in b.assignments().items():
        for (bb, j, rv) in defs:
            if j != "term" and rv["k"] == "use":
                pl = place_of(rv["op"])
                if pl is not None and not pl["p"] and pl["l"] == src and l != src:
                    if flows_to(b, l, dst, depth + 1):
                        return True
    return False
