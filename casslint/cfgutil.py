"""CFG helpers: edge dominance, reachability with removed edges/blocks, comparison switches."""
from .core import term_path
from .vfg import place_of


def reach(body, start, removed_edges=(), removed_blocks=()):
    removed_edges = set(removed_edges)
    removed_blocks = set(removed_blocks)
    seen = set()
    work = [start]
    while work:
        b = work.pop()
        if b in seen or b in removed_blocks:
            continue
        seen.add(b)
        for s in body.succs(b):
            if (b, s) not in removed_edges:
                work.append(s)
    return seen


def edge_dominates(body, edge, x):
    """Every path from the entry to block x takes `edge`."""
    return x not in reach(body, 0, removed_edges=[edge])


def edges_dominate(body, edges, x):
    """Every path from the entry to x takes at least one of `edges`."""
    return x not in reach(body, 0, removed_edges=list(edges))


def def_of(body, local):
    d = body.assignments().get(local, [])
    if len(d) == 1:
        return d[0]
    return None


def switch_condition(body, bb):
    """For a switch block: description of what is tested.
       ("cmp", op, a_operand, b_operand, negated) for a switch on a bool produced by a BinaryOp or by
       PartialEq::{eq,ne}/PartialOrd::* ;  ("discr", place) for a switch on a discriminant;
       ("bool", operand) otherwise."""
    t = body.blocks[bb]["term"]
    if t["k"] != "switch":
        return None
    pl = place_of(t["discr"])
    if pl is None or pl["p"]:
        return ("const", t["discr"])
    l = pl["l"]
    neg = False
    for _ in range(6):
        d = def_of(body, l)
        if d is None:
            return ("bool", t["discr"])
        dbb, j, rv = d
        if j == "term":
            p = term_path(rv)
            if p in ("std::cmp::PartialEq::eq", "std::cmp::PartialEq::ne", "std::cmp::PartialOrd::lt",
                     "std::cmp::PartialOrd::le", "std::cmp::PartialOrd::gt", "std::cmp::PartialOrd::ge"):
                op = {"eq": "Eq", "ne": "Ne", "lt": "Lt", "le": "Le", "gt": "Gt", "ge": "Ge"}[p.split("::")[-1]]
                return ("cmp", op, rv["args"][0], rv["args"][1], neg, dbb)
            return ("call", p, rv, neg, dbb)
        k = rv["k"]
        if k == "binop" and rv["op"] in ("Eq", "Ne", "Lt", "Le", "Gt", "Ge"):
            return ("cmp", rv["op"], rv["a"], rv["b"], neg, dbb)
        if k == "discr":
            return ("discr", rv["place"], dbb)
        if k == "unop" and rv["op"] == "Not":
            neg = not neg
            p2 = place_of(rv["a"])
            if p2 is None or p2["p"]:
                return ("bool", rv["a"])
            l = p2["l"]
            continue
        if k == "use":
            p2 = place_of(rv["op"])
            if p2 is None or p2["p"]:
                return ("bool", rv["op"])
            l = p2["l"]
            continue
        return ("other", rv)
    return ("bool", t["discr"])


def switch_edges(body, bb):
    """{value or 'otherwise': target} of a switch."""
    t = body.blocks[bb]["term"]
    out = {}
    for v, b in t["targets"]:
        out[v] = b
    out["otherwise"] = t["otherwise"]
    return out


def true_false_edges(body, bb):
    """(true target, false target) of a switch on a bool."""
    e = switch_edges(body, bb)
    f = e.get(0)
    t = e.get(1, e["otherwise"] if 0 in e else None)
    if f is None:
        f = e["otherwise"]
    return t, f


def cmp_true_edge(body, bb):
    """For a switch on a comparison: (op, a, b, target when `a op b` holds, target when it does not)."""
    c = switch_condition(body, bb)
    if not c or c[0] != "cmp":
        return None
    _, op, a, b, neg, _dbb = c
    t, f = true_false_edges(body, bb)
    if neg:
        t, f = f, t
    return (op, a, b, t, f)


def eq_edges(body, bb):
    """For a switch on `a == b` or `a != b`: (a, b, target when equal, target when different)."""
    c = cmp_true_edge(body, bb)
    if c is None or c[0] not in ("Eq", "Ne"):
        return None
    op, a, b, t, f = c
    return (a, b, t, f) if op == "Eq" else (a, b, f, t)


def natural_loop(body, header):
    """Blocks of the natural loop(s) with this header: header plus everything that can reach a back
    edge source without passing through the header."""
    backs = [p for p in body.preds(header) if body.dominates(header, p)]
    loop = {header}
    work = list(backs)
    while work:
        x = work.pop()
        if x in loop:
            continue
        loop.add(x)
        work.extend(body.preds(x))
    return loop
