"""Analysis context shared by the rules: lazily built analyses and the semantic event vocabulary."""
import time

from . import cfgutil, effects, events, flow, locks, model
from .core import Site, term_path
from .vfg import place_of

TMP = frozenset(["INDEX_TMP", "SETTINGS_TMP"])
ANCHOR_FIELDS = {}


def _sub(c, allowed):
    return isinstance(c, frozenset) and len(c) > 0 and c <= frozenset(allowed)


def sem(ev):
    """Semantic names of a raw event (kind, class1, class2) / container event."""
    out = set()
    k = ev[0]
    if k == "ROLE":
        return {ev[1]}
    if k == "CONT":
        role = ANCHOR_FIELDS.get(ev[1])
        if role == "KEYMAP":
            out.add("INDEX_MUTATE" if ev[3] else "INDEX_READ")
        elif role == "REFCNT":
            out.add("REFCNT_MUTATE" if ev[3] else "REFCNT_READ")
        elif role == "INTENTS":
            if ev[3]:
                out.add("INTENT_MUT")
                if ev[2] in ("insert", "entry", "push", "extend", "or_insert", "or_default", "get_mut"):
                    out.add("INTENT_ADD")
                if ev[2] in ("remove", "clear", "retain", "pop", "drain", "remove_entry", "get_mut"):
                    out.add("INTENT_DEL")
            else:
                out.add("INTENT_READ")
        return out
    c1 = ev[1] if len(ev) > 1 else frozenset()
    c2 = ev[2] if len(ev) > 2 else frozenset()
    if k == "FS_FLUSH":
        if _sub(c1, ["STAGING_FILE"]):
            out.add("STAGE_FLUSH")
        if _sub(c1, ["WAL"]):
            out.add("WAL_FLUSH")
    elif k == "FS_SYNC":
        if _sub(c1, ["STAGING_FILE"]):
            out.add("STAGE_SYNC")
        if _sub(c1, ["WAL"]):
            out.add("WAL_SYNC")
        if _sub(c1, ["INDEX_TMP"]):
            out.add("SNAP_SYNC:INDEX")
        if _sub(c1, ["SETTINGS_TMP"]):
            out.add("SNAP_SYNC:SETTINGS")
    elif k == "FS_WRITE":
        if _sub(c1, ["STAGING_FILE"]):
            out.add("STAGE_WRITE")
        if _sub(c1, ["WAL"]):
            out.add("WAL_WRITE")
        if _sub(c1, ["INDEX_TMP"]):
            out.add("SNAP_WRITE:INDEX")
        if _sub(c1, ["SETTINGS_TMP"]):
            out.add("SNAP_WRITE:SETTINGS")
    elif k == "FS_RENAME":
        if _sub(c2, ["CAS_BLOB"]):
            out.add("BLOB_PUBLISH")
        if _sub(c1, ["CAS_BLOB"]):
            out.add("BLOB_UNLINK")
        if _sub(c1, ["INDEX_TMP"]) and _sub(c2, ["INDEX"]):
            out.add("SNAP_PUBLISH:INDEX")
        if _sub(c1, ["SETTINGS_TMP"]) and _sub(c2, ["SETTINGS"]):
            out.add("SNAP_PUBLISH:SETTINGS")
    elif k == "FS_UNLINK":
        if _sub(c1, ["CAS_BLOB"]):
            out.add("BLOB_UNLINK")
        if _sub(c1, ["WAL", "DIRSCAN:DB_ROOT"]):
            out.add("WAL_PRUNE")
        if _sub(c1, ["STAGING_FILE"]):
            out.add("STAGE_UNLINK")
    elif k in ("FS_OPEN", "FS_READFILE"):
        if _sub(c1, ["CAS_BLOB"]):
            out.add("BLOB_OPEN")
        if k == "FS_READFILE" and _sub(c1, ["SETTINGS"]):
            out.add("SETTINGS_LOADED")
        if k == "FS_READFILE" and _sub(c1, ["INDEX"]):
            out.add("SNAP_LOADED")
    elif k == "FLOCK_TRY":
        if _sub(c1, ["LOCK"]):
            out.add("FLOCK")
    elif k == "FS_MKDIR":
        if _sub(c1, ["CAS_DIR"]):
            out.add("CAS_MKDIR")
    return out


KILL_TABLE = {
    "FS_WRITE": ("FS_FLUSH", "FS_SYNC"),
    "FS_WRITE_AT": ("FS_FLUSH", "FS_SYNC"),
    "FS_WRITEFILE": ("FS_FLUSH", "FS_SYNC", "FS_WRITE"),
    "FS_TRUNCATE": ("FS_FLUSH", "FS_SYNC", "FS_WRITE"),
    "FS_FLUSH": ("FS_SYNC",),
}


def classes_overlap(a, b):
    if isinstance(a, frozenset) and isinstance(b, frozenset):
        return bool(a & b) or not a or not b
    return True if a != b else True


def kills(k, e):
    """May the occurrence of raw event k invalidate the fact "e happened (and still holds)"?"""
    t = KILL_TABLE.get(k[0])
    if t is None or e[0] not in t:
        return False
    return classes_overlap(k[1], e[1])


def sem_set(evs):
    out = set()
    for e in evs:
        out |= sem(e)
    return out


class Ctx(object):
    def __init__(self, facts, info=None):
        self.t0 = time.time()
        self.info = info or {}
        self.world = model.World(facts)
        self.prog = self.world.prog
        self.fx = self.world.fx
        self.anchors = self.world.anchors
        ANCHOR_FIELDS.clear()
        for role in ("KEYMAP", "REFCNT"):
            if role in self.anchors:
                ANCHOR_FIELDS[self.anchors[role]] = role
        for f in self.anchors.get("INTENT_FIELDS", []):
            ANCHOR_FIELDS[f] = "INTENTS"
        self._locks = None
        self._must = {}
        self._may = None
        self._cont_by_site = {}
        for cu in self.world.container_uses:
            self._cont_by_site.setdefault(cu.site.key(), []).append(cu)

    # ---- flat views ----
    def flat(self, body, stop=(), depth=4):
        """The body with the crate-private helpers it calls inlined (see flat.py); cached."""
        from . import flat as flatmod
        if getattr(body, "is_flat", False):
            return body
        key = (body.path, tuple(sorted(stop)), depth)
        cache = self.__dict__.setdefault("_flat_cache", {})
        if key not in cache:
            cache[key] = flatmod.flatten(self.prog, body, flatmod.default_policy(self.prog, stop), depth)
        return cache[key]

    def rf(self, body):
        """ResultFlow of a body (flat views carry their own; originals share the must-analysis cache)."""
        if getattr(body, "is_flat", False):
            r = body.__dict__.get("_rf")
            if r is None:
                r = flow.ResultFlow(self.prog, body)
                body.__dict__["_rf"] = r
            return r
        return self.must(None).rf(body)

    def dominates_threaded(self, b, a_bb, b_bb):
        """Does block a_bb come before block b_bb on every path - judged on the threaded form of the body when it has
        one (in a `loop { stage = match stage { .. } }` state machine no arm dominates another in the raw graph)."""
        if b.dominates(a_bb, b_bb):
            return True
        if getattr(b, "is_flat", False):
            return False
        from . import flat as flatmod
        T = flatmod.thread_view(self.prog, b)
        if T is None:
            return False
        live = [x for x in T.normal_blocks() if not T.blocks[x].get("cleanup")]
        reach = cfgutil.reach(T, 0)
        A = [x for x in live if T.origin[x][1] == a_bb and x in reach]
        B = [x for x in live if T.origin[x][1] == b_bb and x in reach]
        return bool(A) and bool(B) and all(any(T.dominates(x, y) for x in A) for y in B)

    def result_views(self, site):
        """[(body, site)] where the outcome of the fallible call at `site` is to be judged: its own body - or, when its
        Result is handed straight to a crate-private function that is not a mere error decorator (a classifier such as
        `Outcome::classify(fs::rename(..), kind)` answering with an enum the caller matches on), the occurrences of the
        call in the flat view of the body, where the classifier is inlined and its answer decides the caller's `match`."""
        b = site.body
        if getattr(b, "is_flat", False) or site.kind != "call" or site.term["dest"]["p"]:
            return [(b, site)]
        holders = {site.term["dest"]["l"]}
        changed = True
        while changed:
            changed = False
            for l, defs in b.assignments().items():
                for (dbb, j, rv) in defs:
                    if j != "term" and rv["k"] == "use" and l not in holders:
                        pl = rv["op"].get("move") or rv["op"].get("copy")
                        if pl is not None and not pl["p"] and pl["l"] in holders:
                            holders.add(l)
                            changed = True
        rfb = self.rf(b)
        handed = False
        for s2 in b.calls():
            tgt = self.prog.local_target(s2)
            if tgt is None or tgt.reachable or s2.bb == site.bb or rfb._is_result_wrapper(s2.term):
                continue
            for a in s2.term["args"]:
                pl = a.get("move") or a.get("copy")
                if pl is not None and not pl["p"] and pl["l"] in holders:
                    handed = True
        if not handed:
            return [(b, site)]
        V = self.flat(b)
        occ = [fs for fs in self.flat_sites_of(V, site) if fs.kind == "call" and not V.blocks[fs.bb].get("cleanup")]
        return [(V, fs) for fs in occ] or [(b, site)]

    def flat_sites_of(self, fbody, site):
        """The occurrences, in a flat view, of a site of the original program."""
        k = site.key()
        return [s for s in fbody.sites() if s.key() == k]

    def effects_at(self, site):
        return self.fx.by_site.get(site.key(), ())

    def view_containing(self, body, pred, limit=5, stop=()):
        """The smallest flat view, starting at `body` and climbing its single-caller chain, for which pred(view) holds
        (e.g. "contains both the loader call and the replay call"); None if there is none."""
        cur = body
        seen = set()
        for _ in range(limit):
            V = self.flat(cur, stop=stop)
            if pred(V):
                return V
            callers = self.prog.callers_index().get(cur.path, [])
            direct = [(s, how) for s, how in callers if how in ("direct", "param") and s.kind == "call"]
            if len(direct) != 1 or len(callers) != 1 or direct[0][0].body.path in seen:
                return None
            seen.add(cur.path)
            cur = direct[0][0].body
        return None

    def scope_root(self, body, limit=6):
        """The outermost function that a flat view must start from to contain `body` with all the code around its
        only call site: climbs while the body is crate-private and has exactly one (direct) caller."""
        seen = set()
        cur = body
        for _ in range(limit):
            if cur.reachable and not cur.is_closure:
                break
            callers = self.prog.callers_index().get(cur.path, [])
            direct = [(s, how) for s, how in callers if how in ("direct", "param") and s.kind == "call"]
            if len(direct) != 1 or len(callers) != 1 or direct[0][0].body.path in seen:
                break
            # the caller must reach exactly this body at that site (a generic `f(..)` bound to several closures is
            # not a place a flat view can continue through)
            if len([1 for t, how in self.prog.call_targets(direct[0][0]) if how != "extern-cb"]) != 1:
                break
            seen.add(cur.path)
            cur = direct[0][0].body
        return cur

    # ---- roots ----
    def api_roots(self):
        """Externally reachable functions (effective visibility), closures excluded."""
        return [b for b in self.prog.bodies.values() if b.reachable and not b.is_closure]

    def open_roots(self):
        """API roots that take the directory lock (the open path), found by effect."""
        out = []
        for r in self.api_roots():
            if "FLOCK" in sem_set(e for e in self.may.all_events(r.path) if self._concrete(e)):
                out.append(r)
        return out

    def live_roots(self):
        """API roots of a handle that is already open."""
        opens = set(r.path for r in self.open_roots())
        return [r for r in self.api_roots() if r.path not in opens]

    def body(self, path):
        return self.prog.bodies.get(path)

    def bodies_named(self, *suffixes):
        out = []
        for p, b in self.prog.bodies.items():
            if any(p.endswith(s) for s in suffixes):
                out.append(b)
        return out

    # ---- analyses ----
    @property
    def locks(self):
        if self._locks is None:
            self._locks = locks.LockAnalysis(self.world)
        return self._locks

    def raw_events_at(self, site):
        """Raw events attempted at an extern call / drop site."""
        out = []
        for e in self.fx.by_site.get(site.key(), ()):
            out.append(self.world.raw_event(e))
        for cu in self._cont_by_site.get(site.key(), ()):
            out.append(("CONT", cu.field, cu.method, cu.mutable))
        return out

    def _gen_must(self, site):
        evs = self.raw_events_at(site)
        if not evs:
            return None
        fallible = False
        if site.kind == "call" and not site.term["dest"]["p"]:
            t = self.prog.types[site.body.locals[site.term["dest"]["l"]]]
            fallible = t.get("k") == "adt" and t["def"] == "std::result::Result"
        return (evs, fallible)

    def role_bodies(self):
        """Bodies found by role. APPLY: the bodies that directly mutate the key map and are reachable
        from a live root (the in-memory apply step)."""
        if getattr(self, "_roles", None) is None:
            roles = {}
            live = self.prog.reachable_bodies(self.live_roots())
            for cu in self.world.container_uses:
                if ANCHOR_FIELDS.get(cu.field) == "KEYMAP" and cu.mutable and cu.site.body.path in live:
                    roles.setdefault(cu.site.body.path, set()).add(("ROLE", "APPLIED"))
            self._roles = roles
            ok_roles = {}
            for e in self.fx.of_kind("FS_READFILE"):
                if "SETTINGS" in e.classes:
                    ok_roles.setdefault(e.site.body.path, set()).add(("ROLE", "SETTINGS_CHECKED"))
            for e in self.fx.of_kind("FS_RENAME"):
                if e.classes2 and e.classes2 <= {"CAS_BLOB"}:
                    ok_roles.setdefault(e.site.body.path, set()).add(("ROLE", "PUBLISHED"))
            self._ok_roles = ok_roles
        return self._roles

    def refcount_primitives(self):
        """Bodies that mutate the refcount map directly and do not touch the key map (increment / decrement)."""
        if getattr(self, "_prims", None) is None:
            mut_ref = set()
            mut_key = set()
            for cu in self.world.container_uses:
                if not cu.mutable:
                    continue
                role = ANCHOR_FIELDS.get(cu.field)
                if role == "REFCNT":
                    mut_ref.add(cu.site.body.path)
                elif role == "KEYMAP":
                    mut_key.add(cu.site.body.path)
            self._prims = sorted(mut_ref - mut_key)
        return self._prims

    def apply_roots(self):
        """The functions that apply an operation to the in-memory state: the outermost crate-private bodies above the
        direct key-map mutators whose own (transitive) events are pure state manipulation - no file system, no lock.
        A dispatcher over per-variant helpers is one apply root; its callers (which also write the log) are not."""
        if getattr(self, "_apply_roots", None) is None:
            def pure(path):
                return all(e[0] in ("CONT", "ROLE") for e in self.may.all_events(path)) and \
                    not self.locks.acquires(path)
            roots = set()
            for p in self.role_bodies():
                cur = p
                for _ in range(6):
                    callers = [s.body.path for s, how in self.prog.callers_index().get(cur, []) if how == "direct"]
                    ups = sorted(set(c for c in callers if pure(c) and not self.prog.bodies[c].is_closure))
                    if len(ups) == 1 and len(set(callers)) == 1:
                        cur = ups[0]
                    else:
                        break
                roots.add(cur)
            self._apply_roots = sorted(roots)
        return self._apply_roots

    def stat_model(self):
        """(counter structs, state stat fields): the structs whose integer fields the apply step updates in place (the
        blob statistics), and the fields of the guarded state that hold them (name -> struct), found by structure."""
        if getattr(self, "_stat_model", None) is None:
            prog = self.prog
            state = self.anchors.get("STATE")
            fam = self.apply_family()
            counter_structs = set(w.field[1] for w in self.world.field_writes if w.body.path in fam
                                  and prog.ty_str(self.world._field_ty(w.field)) in ("u64", "usize", "u32", "i64"))
            counter_structs.discard(state)
            stat_fields = {}
            if state in prog.adts:
                for f in prog.adts[state]["variants"][0]["fields"]:
                    d = prog.adt_of(f["ty"])[0]
                    if d in prog.adts and (d in counter_structs or prog.find_in_type(
                            f["ty"], lambda t: t.get("k") == "adt" and t.get("def") in counter_structs)):
                        stat_fields[f["name"]] = d
            # every struct on the way from the state field down to the counters
            stat_structs = set(counter_structs) | set(stat_fields.values())
            self._stat_model = (counter_structs, stat_fields, stat_structs)
        return self._stat_model

    def recompute_points(self):
        """Where statistics are set rather than adjusted, outside the apply step: {body path: [(bb, line)]} of plain
        (non-incremental) writes of a counter, or of a whole statistics struct into the state."""
        if getattr(self, "_recompute_points", None) is None:
            prog = self.prog
            state = self.anchors.get("STATE")
            counter_structs, stat_fields, stat_structs = self.stat_model()
            fam = self.apply_family()
            out = {}
            from .rules.c02 import is_incremental_update
            for w in self.world.field_writes:
                if w.body.path in fam or w.rv["k"] not in ("use", "cast"):
                    continue
                b = w.body
                if b.raw.get("impl_trait") in ("std::default::Default", "std::clone::Clone"):
                    continue
                fty = prog.adt_of(self.world._field_ty(w.field))[0]
                counter_write = w.field[1] in stat_structs and prog.ty_str(self.world._field_ty(w.field)) in (
                    "u64", "usize", "u32", "i64") and w.field[1] in counter_structs and not is_incremental_update(self, w)
                struct_write = (w.field[1] == state and w.field[2] in stat_fields) or \
                    (w.field[1] in stat_structs and fty in stat_structs)
                if counter_write or struct_write:
                    out.setdefault(b.path, []).append((w.bb, w.line))
            # a function that only hands the work to such a function (`recompute_stats` -> `tally(&map, &mut stats)`)
            # recomputes as well: its call sites of recomputing functions are its recompute points
            for _ in range(3):
                for b in prog.bodies.values():
                    if b.path in fam or b.path in out or b.is_closure:
                        continue
                    pts = [(s_.bb, s_.line) for s_ in b.calls() if prog.local_target(s_) is not None
                           and prog.local_target(s_).path in out and not b.reachable]
                    if pts:
                        out[b.path] = pts
            self._recompute_points = out
        return self._recompute_points

    def apply_view(self, root_path):
        """Flat view of an apply root: per-variant helpers and bookkeeping wrappers inlined, the two refcount
        primitives kept as calls (their meaning is checked separately)."""
        return self.flat(self.prog.bodies[root_path], stop=tuple(self.refcount_primitives()))

    def apply_family(self):
        """Every body that is part of an apply view (root, inlined helpers) plus the refcount primitives."""
        if getattr(self, "_apply_family", None) is None:
            fam = set(self.refcount_primitives())
            for p in self.apply_roots():
                fam.add(p)
                fam |= set(self.apply_view(p).inlined)
            self._apply_family = fam
        return self._apply_family

    def role_ok_bodies(self):
        """SETTINGS_CHECKED: the body that reads the settings file returned Ok (stored settings were
        loaded and validated, or there are none)."""
        self.role_bodies()
        return self._ok_roles

    def _subst(self, ev, site, tgt):
        if ev[0] in ("CONT", "ROLE"):
            return ev
        return self.world.instantiate(ev, site, tgt)

    @staticmethod
    def _concrete(ev):
        if ev[0] in ("CONT", "ROLE"):
            return True
        return not any(isinstance(c, tuple) and len(c) == 2 and c[0] == "P" for c in ev[1:3])

    def must(self, assumption=None):
        """MustFlow; assumption = None | 'sync' (SyncMode::Sync specialisation)."""
        key = assumption
        if key not in self._must:
            pruned = None
            if assumption == "sync":
                from .rules import modes
                pruned = modes.sync_mode_pruner(self)
            self._must[key] = flow.MustFlow(self.prog, self._gen_must, subst=self._subst,
                                            concrete=self._concrete, pruned=pruned, kills=kills,
                                            killers=lambda site: self.may.site_events(site),
                                            role_events=self.role_bodies(),
                                            role_ok_events=self.role_ok_bodies())
        return self._must[key]

    @property
    def may(self):
        if self._may is None:
            self._may = flow.MayFlow(self.prog, lambda s: self.raw_events_at(s), subst=self._subst,
                                     concrete=self._concrete)
        return self._may

    # ---- semantic sites ----
    def sem_sites(self, name):
        """Effect sites whose (concrete or instantiated) event carries this semantic name. For
        parameter-relative sites (class decided by the caller) the *call sites* that instantiate
        them are returned instead."""
        out = []
        for e in self.fx.effects:
            raw = self.world.raw_event(e)
            if self._concrete(raw):
                if name in sem(raw):
                    out.append(e.site)
        for cu in self.world.container_uses:
            if name in sem(("CONT", cu.field, cu.method, cu.mutable)):
                out.append(cu.site)
        # instantiated at callers
        for b in self.prog.bodies.values():
            for site in b.calls():
                for tgt, how in self.prog.call_targets(site):
                    if how == "extern-cb":
                        continue
                    for ev in self._param_events(tgt):
                        inst = self._subst(ev, site, tgt)
                        if inst is not None and self._concrete(inst) and name in sem(inst):
                            out.append(site)
        # unique by key
        seen = set()
        res = []
        for s in out:
            if s.key() not in seen:
                seen.add(s.key())
                res.append(s)
        return res

    # ---- context-sensitive evaluation of parameter-relative sites ----
    def _site_targets(self, site):
        if site.kind == "call":
            return [t for t, how in self.prog.call_targets(site) if how != "extern-cb"]
        return [d[1] for d in self.prog.drop_targets(site.term["ty"]) if d[0] == "local"]

    def _inner_before(self, rel_of, tgt, ev, depth):
        """For every occurrence of the parameter-relative event `ev` inside `tgt` (directly or in deeper callees):
        the set of events (in tgt's terms) that rel_of says happened between tgt's entry and that occurrence."""
        res = []
        for t in tgt.sites():
            rel = rel_of(tgt, t.bb)
            if rel is None:
                continue
            if ev in self.raw_events_at(t):
                res.append(frozenset(rel))
            if depth >= 4:
                continue
            for tgt2 in self._site_targets(t):
                for ev2 in self._param_events(tgt2):
                    if self._subst(ev2, t, tgt2) != ev:
                        continue
                    for inner in self._inner_before(rel_of, tgt2, ev2, depth + 1):
                        up = set(rel)
                        for e in inner:
                            x = self._subst(e, t, tgt2)
                            if x is not None:
                                up.add(x)
                        res.append(frozenset(up))
        return res

    def _inner_chains(self, tgt, ev, depth):
        res = []
        for t in tgt.sites():
            if ev in self.raw_events_at(t):
                res.append([t])
            if depth >= 4:
                continue
            for tgt2 in self._site_targets(t):
                for ev2 in self._param_events(tgt2):
                    if self._subst(ev2, t, tgt2) == ev:
                        for c in self._inner_chains(tgt2, ev2, depth + 1):
                            res.append([t] + c)
        return res

    def sem_chains(self, name):
        """Like sem_sites, but every occurrence comes with its call chain: [site where the event's class becomes
        concrete, ..., the extern effect site].  A rule that needs "the frame that owns X" picks it from the chain."""
        out = []
        for site in self.sem_sites(name):
            direct = any(self._concrete(raw) and name in sem(raw) for raw in self.raw_events_at(site)) or \
                any(name in sem(("CONT", cu.field, cu.method, cu.mutable))
                    for cu in self._cont_by_site.get(site.key(), ()))
            if direct:
                out.append([site])
            for tgt in self._site_targets(site):
                for ev in self._param_events(tgt):
                    inst = self._subst(ev, site, tgt)
                    if inst is None or not self._concrete(inst) or name not in sem(inst):
                        continue
                    for c in self._inner_chains(tgt, ev, 1):
                        out.append([site] + c)
        seen = set()
        res = []
        for c in out:
            k = tuple(x.key() for x in c)
            if k not in seen:
                seen.add(k)
                res.append(c)
        return res

    def concrete_occurrences(self, name, stop=()):
        """Every occurrence of semantic event `name` as the actual effect site, seen in a body where the event's class
        is concrete: [(body or flat view, site in it, key body)].  An effect whose path is a parameter of a private
        helper (`unlink_if_unneeded(.., path)`) is looked at in the flat view of the caller that supplies the path, so
        that the guards around the call and the syscall itself are judged in one control-flow graph."""
        out = []
        seen = set()
        for chain in self.sem_chains(name):
            root = chain[0].body
            inner = chain[-1]
            if len(chain) == 1:
                lifted = False
                if root.is_closure and any(how == "param" for (_cs, how) in self.prog.callers_index().get(root.path, [])):
                    # the effect sits in a closure that a crate-private higher-order helper runs (`while_unclaimed(hash,
                    # |..| remove_file(..))`): judged in the view of the function that writes the closure, where the
                    # helper's tests and the closure's body are one control-flow graph
                    from .prov import _closure_sites
                    for (pb, _bb, _rv) in _closure_sites(self.prog, root.path):
                        if pb.is_closure:
                            continue
                        V = self.flat(pb, stop=stop)
                        occ = [fs for fs in self.flat_sites_of(V, inner)
                               if fs.kind == "call" and not V.blocks[fs.bb].get("cleanup")]
                        for fs in occ:
                            k = (pb.path, fs.key(), fs.bb)
                            if k not in seen:
                                seen.add(k)
                                out.append((V, fs, pb))
                            lifted = True
                if lifted:
                    continue
                k = (root.path, inner.key())
                if k not in seen:
                    seen.add(k)
                    out.append((root, inner, root))
                continue
            V = self.flat(root, stop=stop)
            occ = [fs for fs in self.flat_sites_of(V, inner) if fs.kind == "call" and not V.blocks[fs.bb].get("cleanup")]
            if occ:
                for fs in occ:
                    k = (root.path, fs.key(), fs.bb)
                    if k not in seen:
                        seen.add(k)
                        out.append((V, fs, root))
            else:
                # the helper is not inlined (an API function of its own): the call that supplies the path stands for it
                k = (root.path, chain[0].key())
                if k not in seen:
                    seen.add(k)
                    out.append((root, chain[0], root))
        return out

    def deepest_frame(self, chain, pred):
        """The innermost frame of the chain whose body satisfies pred; the outermost frame if none does."""
        for s in reversed(chain):
            if pred(s.body):
                return s
        return chain[0]

    def before_sets(self, site, name, base, rel_of):
        """Event sets holding before each occurrence of semantic event `name` at `site`.  For a plain effect site that
        is `base` itself; for a call site that instantiates a parameter-relative event of its callee, one set per
        occurrence inside the callee: base plus what happened inside the callee before it, instantiated here."""
        out = []
        direct = False
        for raw in self.raw_events_at(site):
            if self._concrete(raw) and name in sem(raw):
                direct = True
        for cu in self._cont_by_site.get(site.key(), ()):
            if name in sem(("CONT", cu.field, cu.method, cu.mutable)):
                direct = True
        if direct:
            out.append(frozenset(base))
        for tgt in self._site_targets(site):
            for ev in self._param_events(tgt):
                inst = self._subst(ev, site, tgt)
                if inst is None or not self._concrete(inst) or name not in sem(inst):
                    continue
                for inner in self._inner_before(rel_of, tgt, ev, 1):
                    up = set(base)
                    for e in inner:
                        x = self._subst(e, site, tgt)
                        if x is not None:
                            up.add(x)
                    out.append(frozenset(up))
        if not out:
            out.append(frozenset(base))
        return out

    def must_before(self, must, ENTRY, site, name):
        """List of must-happened-before sets, one per occurrence of `name` at/under `site`; None if unreachable."""
        base = must.at_site(ENTRY, site)
        if base is None:
            return None

        def rel_of(body, bb):
            must.summarize(body)
            r = must.rel_in.get(body.path, {}).get(bb, flow.ALL)
            return None if r is flow.ALL else r
        return self.before_sets(site, name, base, rel_of)

    def may_before(self, ENTRY_may, site, name):
        base = self.may.before_site(ENTRY_may, site)
        if base is None:
            return None

        def rel_of(body, bb):
            return self.may.solve_body(body).get(bb)
        return self.before_sets(site, name, base, rel_of)

    def _param_events(self, body):
        """Parameter-relative raw events that occur in body or its callees."""
        return [e for e in self.may.all_events(body.path) if not self._concrete(e)]
