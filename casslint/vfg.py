"""Path-class value flow (component C): flow-insensitive, field-sensitive label propagation.

Nodes:  ("L", body path, local)      a MIR local (locals of extern aggregate types are field-insensitive)
        ("F", adt path, field name)   a field of a crate-local struct/enum variant (field-based)
        ("U", closure def, index)     a captured variable of a closure
Labels are strings: LOCK INDEX INDEX_TMP SETTINGS SETTINGS_TMP WAL CAS_ROOT CAS_BLOB CAS_DIR STAGING
STAGING_FILE DB_ROOT DB_PARENT EXT:<fn>:<param> (caller supplied path) DIRSCAN:<class>
DB_CHILD:<literal> (unknown child of the root).
"""
import collections

from . import effects
from .core import term_path
from .effects import norm

LITERAL_CLASS = {
    "LOCK": "LOCK",
    "index": "INDEX",
    "index.tmp": "INDEX_TMP",
    "cas": "CAS_ROOT",
    "staging": "STAGING",
    "db_settings.json": "SETTINGS",
}
WAL_TEMPLATE_MARK = "_index.wal"

NO_FLOW = {
    # results that are not paths/handles any more
    "std::path::Path::exists", "std::path::Path::is_dir", "std::path::Path::is_file",
    "std::path::Path::display", "std::path::Path::file_name", "std::path::Path::components",
    "std::path::Path::as_os_str", "std::path::Path::strip_prefix", "std::path::Path::extension",
    "std::path::Path::file_stem", "std::path::Path::to_str", "std::path::Path::to_string_lossy",
    "std::fs::metadata", "std::fs::DirEntry::metadata", "std::fs::File::metadata",
    "std::cmp::PartialEq::eq", "std::cmp::PartialEq::ne", "std::fs::Metadata::len",
    "std::fs::Metadata::is_file", "std::fs::Metadata::is_dir", "std::io::Error::kind",
    "std::fmt::Arguments::<'a>::new", "core::fmt::rt::Argument::<'_>::new_display",
    "core::fmt::rt::Argument::<'_>::new_debug", "std::fmt::format",
    "std::fs::File::sync_data", "std::fs::File::sync_all", "std::fs::File::try_lock",
    "std::io::Write::write_all", "std::io::Write::flush", "std::fs::remove_file", "std::fs::rename",
    "std::fs::create_dir_all", "std::io::Read::read_exact", "std::os::unix::fs::FileExt::read_at",
    "std::fs::read", "std::fs::read_to_string", "std::vec::Vec::<T, A>::len",
    "std::vec::Vec::<T, A>::is_empty", "core::slice::<impl [T]>::len", "std::io::IntoInnerError::<W>::into_error",
}


NO_FLOW = set(norm(k) for k in NO_FLOW)


def place_of(op):
    return op.get("move") or op.get("copy")


PATH_CARRIERS = ("std::path::", "std::ffi::OsStr", "std::ffi::OsString", "std::fs::", "tempfile::", "std::io::BufWriter",
                 "std::io::BufReader", "std::io::LineWriter", "std::string::String", "std::borrow::Cow",
                 "std::sync::mpsc::")


def can_carry_path(prog, ty_ix, _seen=None, _memo={}):
    """Can a value of this type hold a path or a file handle?  Scalars, hashes, byte strings and containers of them
    cannot: path-class labels are not propagated into them (a hash that was computed next to a log segment is not
    "a WAL path")."""
    key = (id(prog), ty_ix)
    if key in _memo:
        return _memo[key]
    _seen = _seen or set()
    if ty_ix in _seen:
        return False
    _seen = _seen | {ty_ix}
    t = prog.types[ty_ix]
    k = t.get("k")
    res = True
    if k in ("prim", "never", "fndef"):
        res = False
    elif k == "str":
        res = True
    elif k in ("ref", "ptr", "array", "slice"):
        res = can_carry_path(prog, t["in"], _seen)
    elif k == "tuple":
        res = any(can_carry_path(prog, a, _seen) for a in t.get("args", []) if isinstance(a, int))
    elif k == "closure":
        ups = [u for u in t.get("upvars", []) if isinstance(u, int)]
        res = any(can_carry_path(prog, u, _seen) for u in ups) if t.get("upvars") is not None else True
    elif k == "adt":
        d = t.get("def", "")
        if d.startswith(PATH_CARRIERS):
            res = True
        elif d in prog.adts:
            res = False
            for v in prog.adts[d]["variants"]:
                for f in v["fields"]:
                    if can_carry_path(prog, f["ty"], _seen):
                        res = True
            # generic arguments of a local type (Index<K> ...)
            if not res:
                res = any(can_carry_path(prog, a, _seen) for a in t.get("args", []) if isinstance(a, int))
        else:
            args = [a for a in t.get("args", []) if isinstance(a, int)]
            res = any(can_carry_path(prog, a, _seen) for a in args)
    elif k == "param":
        res = True       # unknown: a generic `A` may well be a File handed through a combinator
    if len(_seen) == 1:
        _memo[key] = res
    return res


class _CtxBody(object):
    """A body seen in one calling context: same code, its own value-flow nodes."""

    def __init__(self, body, ctxid, depth, chain):
        self._b = body
        self.path = ctxid
        self._ctx_of = body.path
        self._ctx_owner = body.path
        self._ctx_depth = depth
        self._ctx_chain = chain

    def local_key(self, l):
        return (self.path, l)

    def __getattr__(self, name):
        return getattr(self._b, name)


class VFG(object):
    def __init__(self, prog, admit_paths_only=False):
        self.prog = prog
        self.admit_paths_only = admit_paths_only
        self._admit = {}
        self.edges = collections.defaultdict(set)
        self.redges = collections.defaultdict(set)
        self.labels = collections.defaultdict(set)
        self.transfers = []          # (fn, [src nodes], dst node, site)
        self.seeds = []
        self._tuple_defs = {}
        # single-field structs are transparent wrappers: the value *is* its field
        self.newtypes = set(p for p, a in prog.adts.items()
                            if a["kind"] == "Struct" and len(a["variants"][0]["fields"]) == 1)
        self._build()

    # ---- nodes ----
    def _split_tuples(self, body):
        """Tuple locals that are only ever built by one tuple aggregate and taken apart by field - `let (a, b, c) = (x, y,
        z);` - get one value-flow node per component (everything else about tuples stays merged)."""
        key = getattr(body, "flow_key", None) or body.path
        memo = self.__dict__.setdefault("_split_memo", {})
        if key in memo:
            return memo[key]
        prog = self.prog
        cand = set()
        for l, defs in body.assignments().items():
            if len(defs) == 1 and defs[0][1] != "term" and defs[0][2]["k"] == "agg" and defs[0][2].get("ak") == "tuple" \
                    and prog.types[body.locals[l]].get("k") == "tuple" and l > body.argc:
                cand.add(l)         # (never the return place or a parameter: those are seen whole by the caller)
        whole = set()

        def walk(x, skip_lhs=False):
            if isinstance(x, dict):
                if "l" in x and "p" in x and isinstance(x["l"], int) and isinstance(x["p"], list):
                    if x["l"] in cand and not (x["p"] and isinstance(x["p"][0], dict) and "f" in x["p"][0]):
                        whole.add(x["l"])
                    return
                for k2, v in x.items():
                    if k2 in ("callee", "span"):
                        continue
                    walk(v)
            elif isinstance(x, list):
                for v in x:
                    walk(v)
        if cand:
            for bb in body.normal_blocks():
                blk = body.blocks[bb]
                for st in blk["stmts"]:
                    if st["k"] == "assign" and st["rv"]["k"] == "agg" and st["rv"].get("ak") == "tuple" and \
                            not st["lhs"]["p"] and st["lhs"]["l"] in cand:
                        walk(st["rv"])
                    else:
                        walk(st)
                walk(blk["term"])
        memo[key] = cand - whole
        return memo[key]

    def node_of_place(self, body, pl):
        prog = self.prog
        node = ("L",) + tuple(body.local_key(pl["l"]))
        cur_ty = body.locals[pl["l"]]
        if pl["p"] and isinstance(pl["p"][0], dict) and "f" in pl["p"][0] and "adt" not in pl["p"][0] and \
                not pl["p"][0].get("upvar") and pl["l"] in self._split_tuples(body):
            node = node + ("#%d" % pl["p"][0]["f"],)
        for e in pl["p"]:
            if e == "deref" or not isinstance(e, dict):
                continue
            if "f" in e:
                adt = e.get("adt")
                if adt is not None and adt in self.newtypes:
                    pass
                elif adt is not None and adt in prog.adts and "n" in e:
                    node = ("F", adt, e["n"])
                elif e.get("upvar"):
                    cd = prog.closure_def_of_type(cur_ty)
                    if cd:
                        node = ("U", cd, e["f"])
                cur_ty = e.get("ty", cur_ty)
        return node

    def node_of_operand(self, body, op):
        pl = place_of(op)
        if pl is None:
            return None
        return self.node_of_place(body, pl)

    def add_edge(self, a, b):
        if a is None or b is None or a == b:
            return
        self.edges[a].add(b)
        self.redges[b].add(a)

    def _is_mut_ref(self, body, op):
        pl = place_of(op)
        if pl is None or pl["p"]:
            return False
        t = self.prog.types[body.locals[pl["l"]]]
        return t.get("k") == "ref" and t.get("mut")

    def _tuple_ops(self, body, local):
        key = (body.path, local)
        if key not in self._tuple_defs:
            ops = None
            for (bb, j, rv) in body.assignments().get(local, []):
                if j != "term" and rv["k"] == "agg" and rv["ak"] == "tuple":
                    ops = rv["ops"]
            self._tuple_defs[key] = ops
        return self._tuple_defs[key]

    # ---- construction ----
    def _build(self):
        prog = self.prog
        self._clones = {}
        self.no_label = set()
        for body in list(prog.bodies.values()):
            self._build_body((self._spec_view(body) if self.admit_paths_only else None) or body)

    # ---- path constructors that pick the name by a selector ----
    # `let under_root = |e: RootEntry| root.join(e.file_name()); .. under_root(RootEntry::Lockfile)`: which file a path
    # names is decided by a literal at the call site, inside a helper that joins "whatever name it is given".  The caller
    # of such a helper is analysed on a flat view with the helper (and the small functions it calls) inlined per call
    # site and its `match` on the literal decided, so that every `join` sees the one name it is given there.
    def _name_dependent(self, tgt, depth=0):
        memo = self.__dict__.setdefault("_nd_memo", {})
        if tgt.path in memo:
            return memo[tgt.path]
        memo[tgt.path] = False
        prog = self.prog
        from .core import Site
        res = False
        if len(tgt.blocks) <= 80 and (tgt.is_closure or not tgt.reachable):
            for bb in tgt.normal_blocks():
                t = tgt.blocks[bb]["term"]
                if t["k"] != "call":
                    continue
                site = Site(tgt, bb, t)
                p = site.path
                if p in SPECIAL and SPECIAL[p] in (t_join, t_with_extension) and len(t["args"]) > 1:
                    if _const_str(site, 1) is None and self._name_from_outside(tgt, t["args"][1]) and \
                            not _arg_from_wal_template(self, site, 1) and \
                            not _arg_from_call(site, 1, ("BlobHash::relative_path",)):
                        res = True
                elif depth < 2 and len(tgt.blocks) <= 20:
                    # a thin wrapper around such a helper
                    t2 = prog.local_target(site)
                    if t2 is not None and t2.path != tgt.path and can_carry_path(prog, t2.locals[0]) and \
                            self._name_dependent(t2, depth + 1):
                        res = True
        memo[tgt.path] = res
        return res

    def _name_from_outside(self, body, op):
        """Does the operand derive (through moves, references and transparent conversions) from a parameter of the body
        or from the result of a crate-local call?"""
        prog = self.prog
        from .core import Site
        pl = place_of(op)
        if pl is None:
            return False
        seen = set()
        work = [pl["l"]]
        while work:
            l = work.pop()
            if l in seen:
                continue
            seen.add(l)
            if 1 <= l <= body.argc:
                return True
            for (bb, j, rv) in body.assignments().get(l, []):
                if j == "term":
                    if prog.local_target(Site(body, bb, rv)) is not None:
                        return True
                    if (term_path(rv) or "") in ("std::ops::Deref::deref", "std::convert::AsRef::as_ref",
                                                   "std::clone::Clone::clone", "std::string::String::as_str"):
                        for a in rv["args"]:
                            p2 = place_of(a)
                            if p2 is not None:
                                work.append(p2["l"])
                elif rv["k"] in ("use", "cast"):
                    p2 = place_of(rv["op"])
                    if p2 is not None:
                        work.append(p2["l"])
                elif rv["k"] == "ref":
                    work.append(rv["place"]["l"])
        return False

    def _spec_view(self, body):
        memo = self.__dict__.setdefault("_sv_memo", {})
        if body.path not in memo:
            memo[body.path] = None
            memo[body.path] = self._spec_view0(body)
        return memo[body.path]

    def _spec_view0(self, body):
        prog = self.prog
        if getattr(body, "is_flat", False) or not hasattr(body, "blocks"):
            return None
        from .core import Site
        hit = False
        for bb in body.normal_blocks():
            t = body.blocks[bb]["term"]
            if t["k"] != "call":
                continue
            for (tgt, how) in prog.call_targets(Site(body, bb, t)):
                if how == "direct" and tgt.path != body.path and self._name_dependent(tgt):
                    hit = True
        if not hit:
            return None
        from . import flat as flatmod
        approved = set()

        def policy(site, tgt, how):
            if how != "direct" or len(tgt.blocks) > 80:
                return False
            if self._name_dependent(tgt) or (site.body.path in approved and (tgt.is_closure or not tgt.reachable)):
                approved.add(tgt.path)
                return True
            return False
        V = flatmod.flatten(prog, body, policy, 3, thread_calls=True)
        if not V.inlined:
            return None
        V.lorigin = []          # every inlined copy has value-flow nodes of its own (the root's locals keep their numbers)
        V._spec_view = True
        self.__dict__.setdefault("spec_views", {})[body.path] = V
        return V

    def _build_body(self, body):
        for bb in body.normal_blocks():
            for s in body.stmts(bb):
                if s["k"] != "assign":
                    continue
                self._assign(body, s["lhs"], s["rv"])
            t = body.blocks[bb]["term"]
            if t["k"] == "call":
                self._call(body, bb, t)

    # ---- one level of call-site sensitivity for small private helpers that hand a path-carrying value back ----
    # `list_dir(cas_root)` and `list_dir(staging_root)` must not make everything read through the helper "a CAS *and*
    # staging entry": such a helper is analysed once more per call site, and the caller takes the result of its own copy.
    # (What happens *inside* the helper is still judged on the merged copy, with the union of all callers.)
    def _clone_for(self, body, bb, tgt, how):
        if not self.admit_paths_only or how != "direct" or tgt.is_closure or tgt.reachable:
            return None
        depth = getattr(body, "_ctx_depth", 0)
        prog = self.prog
        if depth >= 2 and not self._is_leaf_helper(tgt):
            # (a small helper that calls nothing of the crate - an error-decorating `ctx(self, op, path)`, say - is copied
            # at any depth: it cannot multiply contexts further, and merging it would pour every caller's labels into one)
            return None
        if len(tgt.blocks) > 80 or tgt.path in getattr(body, "_ctx_chain", ()):
            return None
        if not can_carry_path(prog, tgt.locals[0]) or prog.ty_str(tgt.locals[0]) in ("()",):
            return None
        if not any(can_carry_path(prog, tgt.locals[i]) for i in range(1, tgt.argc + 1)):
            return None
        ctxid = "%s@@%s:%d" % (tgt.path, body.path, bb)
        if ctxid not in self._clones:
            cb = _CtxBody(self._spec_view(tgt) or tgt, ctxid, depth + 1, getattr(body, "_ctx_chain", ()) + (tgt.path,))
            self._clones[ctxid] = cb
            self._build_body(cb)
        return ctxid

    def _is_leaf_helper(self, tgt):
        memo = self.__dict__.setdefault("_leaf_memo", {})
        if tgt.path not in memo:
            from .core import Site
            memo[tgt.path] = len(tgt.blocks) <= 24 and not any(
                tgt.blocks[bb]["term"]["k"] == "call" and self.prog.call_targets(Site(tgt, bb, tgt.blocks[bb]["term"]))
                for bb in tgt.normal_blocks())
        return memo[tgt.path]

    def _ctx_closure(self, body, cb):
        """Inside a per-call-site copy of a helper, the closures the helper itself writes are copied with it."""
        base = getattr(body, "_ctx_of", None)
        if base is None or not cb.path.startswith(base.split("::{")[0]):
            return cb.path
        owner = getattr(body, "_ctx_owner", "")
        if not cb.path.startswith(owner + "::{closure"):
            return cb.path
        ctxid = "%s@@%s" % (cb.path, body.path)
        if ctxid not in self._clones:
            c2 = _CtxBody(cb, ctxid, getattr(body, "_ctx_depth", 1), getattr(body, "_ctx_chain", ()))
            c2._ctx_owner = owner
            self._clones[ctxid] = c2
            self._build_body(c2)
        return ctxid

    def _assign(self, body, lhs, rv):
        dst = self.node_of_place(body, lhs)
        k = rv["k"]
        if k == "use":
            self.add_edge(self.node_of_operand(body, rv["op"]), dst)
        elif k in ("ref", "rawptr"):
            src = self.node_of_place(body, rv["place"])
            self.add_edge(src, dst)
            if rv.get("mut"):
                self.add_edge(dst, src)
        elif k == "cast":
            self.add_edge(self.node_of_operand(body, rv["op"]), dst)
        elif k == "agg":
            ak = rv["ak"]
            if ak == "adt" and rv["def"] in self.newtypes:
                for op in rv["ops"]:
                    self.add_edge(self.node_of_operand(body, op), dst)
            elif ak == "adt" and rv["def"] in self.prog.adts:
                for name, op in zip(rv["fields"], rv["ops"]):
                    self.add_edge(self.node_of_operand(body, op), ("F", rv["def"], name))
            elif ak == "closure":
                for i, op in enumerate(rv["ops"]):
                    self.add_edge(self.node_of_operand(body, op), ("U", rv["def"], i))
            elif ak == "tuple" and not lhs["p"] and lhs["l"] in self._split_tuples(body):
                for i, op in enumerate(rv["ops"]):
                    self.add_edge(self.node_of_operand(body, op), dst + ("#%d" % i,))
            else:
                for op in rv["ops"]:
                    self.add_edge(self.node_of_operand(body, op), dst)
        elif k == "repeat":
            self.add_edge(self.node_of_operand(body, rv["op"]), dst)
        # binop / unop / discr / len: not path-carrying

    def _call(self, body, bb, t):
        prog = self.prog
        from .core import Site
        site = Site(body, bb, t)
        dst = self.node_of_place(body, t["dest"])
        args = t["args"]
        c = t["callee"]
        targets = prog.call_targets(site)
        direct = [tg for tg, how in targets if how in ("direct", "param", "dyn")]
        path = site.path
        if direct:
            hows = dict((tg.path, how) for tg, how in targets)
            for tgt in direct:
                clone = self._clone_for(body, bb, tgt, hows.get(tgt.path)) if path not in (
                    "std::ops::FnOnce::call_once", "std::ops::FnMut::call_mut", "std::ops::Fn::call") else None
                if clone is not None:
                    for i, a in enumerate(args):
                        if i < tgt.argc:
                            self.add_edge(self.node_of_operand(body, a), ("L", tgt.path, i + 1))     # merged copy
                            self.add_edge(self.node_of_operand(body, a), ("L", clone, i + 1))
                            if self._is_mut_ref(body, a):
                                self.add_edge(("L", clone, i + 1), self.node_of_operand(body, a))
                    self.add_edge(("L", clone, 0), dst)
                    # the merged copy still *reaches* the caller (reachability queries walk `edges`), but its labels -
                    # the union over all callers - do not travel along this edge
                    self.add_edge(("L", tgt.path, 0), dst)
                    self.no_label.add((("L", tgt.path, 0), dst))
                    continue
                if path in ("std::ops::FnOnce::call_once", "std::ops::FnMut::call_mut", "std::ops::Fn::call"):
                    # (closure, (args...)) : closure -> _1, tuple elements -> _2..
                    if args:
                        self.add_edge(self.node_of_operand(body, args[0]), ("L", tgt.path, 1))
                    if len(args) > 1:
                        pl = place_of(args[1])
                        ops = self._tuple_ops(body, pl["l"]) if pl and not pl["p"] else None
                        if ops is not None:
                            for i, op in enumerate(ops):
                                self.add_edge(self.node_of_operand(body, op), ("L", tgt.path, 2 + i))
                        else:
                            for i in range(2, tgt.argc + 1):
                                self.add_edge(self.node_of_operand(body, args[1]), ("L", tgt.path, i))
                else:
                    for i, a in enumerate(args):
                        if i < tgt.argc:
                            self.add_edge(self.node_of_operand(body, a), ("L", tgt.path, i + 1))
                            if self._is_mut_ref(body, a):
                                self.add_edge(("L", tgt.path, i + 1), self.node_of_operand(body, a))
                self.add_edge(("L", tgt.path, 0), dst)
            return
        # extern callee
        srcs = [self.node_of_operand(body, a) for a in args]
        cbs = [tg for tg, how in targets if how == "extern-cb"]
        for cb in cbs:
            # closure params receive the other arguments; closure result flows to the call result
            cb_node = None
            for a in args:
                pl = place_of(a)
                if pl and not pl["p"] and prog.closure_def_of_type(body.locals[pl["l"]]) == cb.path:
                    cb_node = self.node_of_operand(body, a)
            cbp = self._ctx_closure(body, cb)
            if cb_node is not None:
                self.add_edge(cb_node, ("L", cbp, 1))
            for s in srcs:
                if s is not None and s != cb_node:
                    for i in range(2, cb.argc + 1):
                        self.add_edge(s, ("L", cbp, i))
            self.add_edge(("L", cbp, 0), dst)
        if path in SPECIAL:
            self.transfers.append((SPECIAL[path], srcs, dst, site))
            return
        if path == "std::sync::mpsc::Sender::send" and len(srcs) > 1:
            self.add_edge(srcs[1], ("CHAN", "mpsc"))
            return
        if path in ("std::sync::mpsc::channel", "std::sync::mpsc::sync_channel"):
            self.add_edge(("CHAN", "mpsc"), dst)
            return
        if path in NO_FLOW:
            return
        mut_args = [s for a, s in zip(args, srcs) if s is not None and self._is_mut_ref(body, a)]
        for s in srcs:
            if s is None:
                continue
            self.add_edge(s, dst)
            for m in mut_args:
                if m != s:
                    self.add_edge(s, m)
        dst_t = prog.types[body.locals[t["dest"]["l"]]] if not t["dest"]["p"] else {}
        if dst_t.get("k") == "ref" and dst_t.get("mut"):
            for m in mut_args:
                self.add_edge(dst, m)

    # ---- solving ----
    def seed(self, node, label):
        self.seeds.append((node, label))

    def admits(self, node):
        """Path-class graphs only: may this node hold a path at all (by its type)?"""
        if not self.admit_paths_only:
            return True
        r = self._admit.get(node)
        if r is None:
            r = True
            prog = self.prog
            if node[0] == "L":
                b = prog.bodies.get(node[1]) or self._clones.get(node[1])
                if b is not None and node[2] < len(b.locals):
                    r = can_carry_path(prog, b.locals[node[2]])
            elif node[0] == "F":
                adt = prog.adts.get(node[1])
                if adt is not None:
                    for v in adt["variants"]:
                        for f in v["fields"]:
                            if f["name"] == node[2]:
                                r = can_carry_path(prog, f["ty"])
            self._admit[node] = r
        return r

    def solve(self):
        labels = self.labels
        work = collections.deque()
        for node, lab in self.seeds:
            if lab not in labels[node]:
                labels[node].add(lab)
                work.append(node)
        # transfers indexed by source node
        by_src = collections.defaultdict(list)
        for tr in self.transfers:
            for s in tr[1]:
                if s is not None:
                    by_src[s].append(tr)
        pending = list(self.transfers)
        while True:
            while work:
                n = work.popleft()
                ls = labels[n]
                for m in self.edges.get(n, ()):
                    if (n, m) in self.no_label:
                        continue
                    if not ls <= labels[m] and self.admits(m):
                        labels[m] |= ls
                        work.append(m)
                for tr in by_src.get(n, ()):
                    pending.append(tr)
            if not pending:
                break
            trs, pending = pending, []
            for fn, srcs, dst, site in trs:
                new = fn(self, [labels[s] if s is not None else set() for s in srcs], site)
                if new and not new <= labels[dst] and self.admits(dst):
                    labels[dst] |= new
                    work.append(dst)

    def labels_of_operand(self, body, op):
        n = self.node_of_operand(body, op)
        if n is None:
            return set()
        return set(self.labels.get(n, ()))

    def labels_of_place(self, body, pl):
        return set(self.labels.get(self.node_of_place(body, pl), ()))

    def backward_closure(self, node):
        seen = set()
        work = [node]
        while work:
            n = work.pop()
            if n in seen:
                continue
            seen.add(n)
            work.extend(self.redges.get(n, ()))
        return seen


# ---- transfer functions of path-manipulating std functions ----
def _const_str(site, i):
    a = site.term["args"][i]
    c = a.get("const")
    if c is not None and "str" in c:
        return c["str"]
    # a local that holds one string literal on every way here (the arm of an inlined `name_of(Kind::X)` that the view
    # decided): the single assignment to it in reachable code, through moves
    body = site.body
    if not getattr(body, "_spec_view", False):
        return None
    pl = place_of(a)
    live = body.__dict__.get("_live_blocks")
    if live is None:
        from . import cfgutil
        live = cfgutil.reach(body, 0)
        body.__dict__["_live_blocks"] = live
    for _ in range(6):
        if pl is None or pl["p"]:
            return None
        defs = [(bb, j, rv) for (bb, j, rv) in body.assignments().get(pl["l"], []) if bb in live]
        if len(defs) != 1 or defs[0][1] == "term":
            return None
        rv = defs[0][2]
        if rv["k"] not in ("use", "cast"):
            return None
        c = rv["op"].get("const")
        if c is not None:
            return c.get("str")
        pl = place_of(rv["op"])
    return None


def _arg_from_wal_template(vfg, site, i):
    """Is argument i a String built by format! from a template containing `_index.wal`?"""
    body = site.body
    pl = place_of(site.term["args"][i])
    if pl is None:
        return False
    seen = set()
    work = [pl["l"]]
    while work:
        l = work.pop()
        if l in seen:
            continue
        seen.add(l)
        for (bb, j, rv) in body.assignments().get(l, []):
            if j == "term":
                if (term_path(rv) or "").endswith("::new_display") and rv["args"]:
                    # a name formatted from an integer (`format!("{segment_id}{SUFFIX}")` with the suffix in a constant):
                    # the only children of the root that are numbered are the log segments
                    p0 = place_of(rv["args"][0])
                    if p0 is not None and vfg.prog.ty_str(vfg.prog.strip_refs(body.locals[p0["l"]])) in (
                            "u64", "u32", "usize", "u128"):
                        return True
                for a in rv["args"]:
                    p2 = place_of(a)
                    if p2 is not None:
                        work.append(p2["l"])
                    c = a.get("const")
                    if c and WAL_TEMPLATE_MARK in (c.get("bytes", "") + c.get("str", "")):
                        return True
            else:
                for key in ("op", "a", "b"):
                    o = rv.get(key)
                    if isinstance(o, dict):
                        p2 = place_of(o)
                        if p2 is not None:
                            work.append(p2["l"])
                        c = o.get("const")
                        if c and WAL_TEMPLATE_MARK in (c.get("bytes", "") + c.get("str", "")):
                            return True
                if rv.get("place"):
                    work.append(rv["place"]["l"])
                for o in rv.get("ops", []):
                    p2 = place_of(o)
                    if p2 is not None:
                        work.append(p2["l"])
    return False


def _arg_from_call(site, i, suffixes):
    body = site.body
    pl = place_of(site.term["args"][i])
    if pl is None:
        return False
    seen = set()
    work = [pl["l"]]
    while work:
        l = work.pop()
        if l in seen:
            continue
        seen.add(l)
        for (bb, j, rv) in body.assignments().get(l, []):
            if j == "term":
                p = term_path(rv) or ""
                if any(p.endswith(s) for s in suffixes):
                    return True
                if p in ("std::ops::Deref::deref", "std::convert::AsRef::as_ref", "std::clone::Clone::clone",
                         "std::path::PathBuf::as_path"):
                    for a in rv["args"]:
                        p2 = place_of(a)
                        if p2 is not None:
                            work.append(p2["l"])
            else:
                if rv["k"] == "use":
                    p2 = place_of(rv["op"])
                    if p2 is not None:
                        work.append(p2["l"])
                elif rv["k"] in ("ref",):
                    work.append(rv["place"]["l"])
    return False


def t_join(vfg, ins, site):
    base = ins[0]
    lit = _const_str(site, 1)
    out = set()
    for b in base:
        if b == "DB_ROOT":
            if lit is not None:
                out.add(LITERAL_CLASS.get(lit, "DB_CHILD:" + lit))
            elif _arg_from_wal_template(vfg, site, 1):
                out.add("WAL")
            else:
                out.add("DB_CHILD:?")
        elif b == "CAS_ROOT":
            if _arg_from_call(site, 1, ("BlobHash::relative_path",)):
                out.add("CAS_BLOB")
            else:
                out.add("CAS_DIR")
        elif b == "CAS_DIR":
            out.add("CAS_DIR")
        elif b == "STAGING":
            out.add("STAGING_FILE")
        elif b.startswith("EXT:"):
            out.add("EXTCHILD:" + b[4:])
        elif b.startswith("DIRSCAN:"):
            out.add(b)
        else:
            out.add("CHILD:" + b)
    return out


def t_with_extension(vfg, ins, site):
    lit = _const_str(site, 1) or ""
    out = set()
    for b in ins[0]:
        if "tmp" in lit and b in ("SETTINGS", "INDEX"):
            out.add(b + "_TMP")
        else:
            out.add("SIBLING:" + b)
    return out


def t_parent(vfg, ins, site):
    out = set()
    for b in ins[0]:
        if b == "CAS_BLOB":
            out.add("CAS_DIR")
        elif b == "CAS_DIR":
            out.add("CAS_DIR")
        elif b == "DB_ROOT":
            out.add("DB_PARENT")
        else:
            out.add("PARENT:" + b)
    return out


def t_read_dir(vfg, ins, site):
    return set("DIRSCAN:" + b if not b.startswith("DIRSCAN:") else b for b in ins[0])


def t_new_in(vfg, ins, site):
    out = set()
    for b in ins[0]:
        out.add("STAGING_FILE" if b == "STAGING" else "TEMP_IN:" + b)
    return out


def t_builder_in(vfg, ins, site):
    out = set()
    for b in (ins[1] if len(ins) > 1 else ()):
        out.add("STAGING_FILE" if b == "STAGING" else "TEMP_IN:" + b)
    return out


SPECIAL = {
    "std::path::Path::join": t_join,
    "std::path::Path::with_extension": t_with_extension,
    "std::path::Path::with_file_name": t_with_extension,
    "std::path::Path::parent": t_parent,
    "std::fs::read_dir": t_read_dir,
    "std::path::Path::read_dir": t_read_dir,
    "tempfile::NamedTempFile::new_in": t_new_in,
    "tempfile::tempfile_in": t_new_in,
    "tempfile::Builder::tempfile_in": t_builder_in,
    "tempfile::Builder::make_in": t_builder_in,
}


SPECIAL = dict((norm(k), v) for k, v in SPECIAL.items())


def build_path_classes(prog):
    """Seeds the roots and solves. Returns the VFG."""
    g = VFG(prog, admit_paths_only=True)
    anchors = {}
    ctor = prog.bodies.get("paths::DbPaths::new")
    anchors["DbPaths::new"] = ctor is not None
    if ctor is not None:
        root = ("L", ctor.path, 1)
        for n in g.backward_closure(root):
            g.seed(n, "DB_ROOT")
    # caller supplied paths of externally reachable functions (other than the db root)
    root_nodes = set(n for n, l in g.seeds)
    for b in prog.bodies.values():
        if not b.reachable or b.is_closure:
            continue
        for i in range(1, b.argc + 1):
            d, _ = prog.adt_of(b.locals[i])
            ts = prog.ty_str(b.locals[i])
            if d in ("std::path::Path", "std::path::PathBuf") or "AsRef<std::path::Path>" in ts:
                n = ("L", b.path, i)
                if n not in root_nodes:
                    g.seed(n, "EXT:%s:%s" % (b.path.split("::")[-1], b.local_name(i)))
    g.anchors = anchors
    g.solve()
    return g
