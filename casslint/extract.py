"""Fact extraction harness: runs the cassfacts driver over /repo's *current* working tree.

Freshness: facts are cached under /verif/.cache/facts/<digest>.json where digest covers every
file the build reads (src/**, Cargo.toml, Cargo.lock, build.rs) plus the driver binary. A changed
tree always re-extracts; the cassadilia fingerprints in the shared target dir are deleted first
(cargo would otherwise replay cached output and skip the wrapper), and the run fails closed if
the fact file is missing or carries another digest.
"""
import fcntl
import hashlib
import json
import os
import shutil
import subprocess
import sys
import time

VERIF = os.path.dirname(os.path.dirname(os.path.abspath(__file__)))
REPO = os.environ.get("CASSLINT_REPO", "/repo")
CACHE = os.path.join(VERIF, ".cache")
DRIVER_DIR = os.path.join(VERIF, "driver")
DRIVER_BIN = os.path.join(DRIVER_DIR, "target", "debug", "cassfacts")


class ExtractError(Exception):
    def __init__(self, msg, log=None):
        super().__init__(msg)
        self.log = log


def _env():
    env = dict(os.environ)
    env["CARGO_NET_OFFLINE"] = "true"
    env.pop("RUSTC_WRAPPER", None)
    return env


def nightly_sysroot():
    out = subprocess.run(["rustc", "+nightly", "--print", "sysroot"], capture_output=True, text=True,
                         env=_env())
    if out.returncode != 0:
        raise ExtractError("nightly toolchain not available: " + out.stderr)
    return out.stdout.strip()


def build_driver():
    """Builds the driver if its binary is missing or older than its sources."""
    src = os.path.join(DRIVER_DIR, "src", "main.rs")
    if os.path.exists(DRIVER_BIN) and os.path.getmtime(DRIVER_BIN) >= os.path.getmtime(src):
        return
    p = subprocess.run(["cargo", "build", "--offline"], cwd=DRIVER_DIR, capture_output=True, text=True,
                       env=_env())
    if p.returncode != 0 or not os.path.exists(DRIVER_BIN):
        raise ExtractError("cannot build the cassfacts driver", p.stdout + p.stderr)


def tree_digest(root):
    h = hashlib.sha256()
    files = []
    for base in ("Cargo.toml", "Cargo.lock", "build.rs", "rust-toolchain.toml", "rust-toolchain"):
        p = os.path.join(root, base)
        if os.path.isfile(p):
            files.append(p)
    for d in ("src",):
        for dp, dn, fn in os.walk(os.path.join(root, d)):
            dn.sort()
            for f in sorted(fn):
                files.append(os.path.join(dp, f))
    for p in sorted(files):
        h.update(os.path.relpath(p, root).encode() + b"\0")
        with open(p, "rb") as fh:
            h.update(fh.read())
        h.update(b"\0")
    with open(DRIVER_BIN, "rb") as fh:
        h.update(hashlib.sha256(fh.read()).digest())
    return h.hexdigest()[:32]


def _run_extraction(root, crate, out_path, target_dir, digest, extra_flags=""):
    sysroot = nightly_sysroot()
    env = _env()
    env["LD_LIBRARY_PATH"] = os.path.join(sysroot, "lib") + ":" + env.get("LD_LIBRARY_PATH", "")
    env["RUSTFLAGS"] = ("-Zmir-opt-level=0 -Awarnings " + extra_flags).strip()
    env["RUSTC_WORKSPACE_WRAPPER"] = DRIVER_BIN
    env["CARGO_TARGET_DIR"] = target_dir
    env["CASSFACTS_CRATE"] = crate
    env["CASSFACTS_OUT"] = out_path
    env["CASSFACTS_DIGEST"] = digest
    # cargo's freshness cache would skip the wrapper: forget the workspace member
    for prof in ("debug",):
        fp = os.path.join(target_dir, prof, ".fingerprint")
        if os.path.isdir(fp):
            for d in os.listdir(fp):
                if d.startswith(crate + "-") or d.startswith(crate.replace("_", "-") + "-"):
                    shutil.rmtree(os.path.join(fp, d), ignore_errors=True)
    if os.path.exists(out_path):
        os.remove(out_path)
    p = subprocess.run(["cargo", "+nightly", "check", "--offline", "--lib"], cwd=root,
                       capture_output=True, text=True, env=env)
    return p


def facts_for(root=None, crate="cassadilia", extra_flags="", tag=""):
    """Returns (facts dict, info dict). Raises ExtractError when the tree does not build."""
    root = root or REPO
    os.makedirs(os.path.join(CACHE, "facts"), exist_ok=True)
    t0 = time.time()
    lock = open(os.path.join(CACHE, "extract.lock"), "w")
    fcntl.flock(lock, fcntl.LOCK_EX)
    try:
        build_driver()
        digest = tree_digest(root) + tag
        out_path = os.path.join(CACHE, "facts", "%s-%s.json" % (crate, digest))
        cached = os.path.exists(out_path)
        if not cached:
            target = os.path.join(CACHE, "target" + tag)
            tmp_out = out_path + ".new"
            p = _run_extraction(root, crate, tmp_out, target, digest, extra_flags)
            if p.returncode != 0 or not os.path.exists(tmp_out):
                log = os.path.join(CACHE, "build-%s%s.log" % (crate, tag))
                with open(log, "w") as fh:
                    fh.write(p.stdout + p.stderr)
                raise ExtractError("%s does not build (or the driver did not run)" % root, log)
            os.rename(tmp_out, out_path)
            # keep the cache small
            fd = os.path.join(CACHE, "facts")
            olds = sorted((os.path.getmtime(os.path.join(fd, f)), f) for f in os.listdir(fd))
            for _, f in olds[:-12]:
                os.remove(os.path.join(fd, f))
        with open(out_path) as fh:
            facts = json.load(fh)
        if facts.get("digest") != digest or facts.get("crate") != crate:
            os.remove(out_path)
            raise ExtractError("stale fact file (digest mismatch); removed, re-run")
        info = {"digest": digest, "cached": cached, "extract_s": round(time.time() - t0, 2),
                "fact_file": out_path, "root": root}
        return facts, info
    finally:
        fcntl.flock(lock, fcntl.LOCK_UN)
        lock.close()


if __name__ == "__main__":
    f, info = facts_for(sys.argv[1] if len(sys.argv) > 1 else None)
    print(json.dumps(info), len(f["bodies"]), "bodies")
