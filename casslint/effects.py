"""Extern effect table (component B): what the std / tempfile / parking_lot / blake3 / hex functions
called by the crate do, in the vocabulary of the rules. One reviewed line each.

An extern callee that touches File / Path / guard / temp types and is not listed here is an
"unclassified effect" and makes the dependent checks fail closed.
"""

# kind, index of the argument that carries the path/handle class (None = no class), extra
FS = {
    # directory creation (idempotent)
    "std::fs::create_dir_all": ("FS_MKDIR", 0),
    "std::fs::create_dir": ("FS_MKDIR", 0),
    # opens
    "std::fs::OpenOptions::open": ("FS_OPEN", 1),          # mode folded from the builder chain
    "std::fs::File::create": ("FS_OPEN", 0, {"create", "write", "truncate"}),
    "std::fs::File::create_new": ("FS_OPEN", 0, {"create", "write"}),
    "std::fs::File::open": ("FS_OPEN", 0, {"read"}),
    "std::fs::File::options": ("PURE", None),
    # whole-file reads
    "std::fs::read": ("FS_READFILE", 0),
    "std::fs::read_to_string": ("FS_READFILE", 0),
    # reads on handles
    "std::io::Read::read_exact": ("FS_READ", 0),
    "std::io::Read::read": ("FS_READ", 0),
    "std::io::Read::read_to_end": ("FS_READ", 0),
    "std::io::Read::read_to_string": ("FS_READ", 0),
    "std::os::unix::fs::FileExt::read_at": ("FS_READ", 0),
    "std::os::unix::fs::FileExt::read_exact_at": ("FS_READ", 0),
    "blake3::Hasher::update_mmap_rayon": ("FS_READFILE", 1),
    "blake3::Hasher::update_mmap": ("FS_READFILE", 1),
    # writes
    "std::io::Write::write_all": ("FS_WRITE", 0),
    "std::io::Write::write": ("FS_WRITE", 0),
    "std::io::Write::write_fmt": ("FS_WRITE", 0),
    "std::io::Write::write_vectored": ("FS_WRITE", 0),
    "std::os::unix::fs::FileExt::write_at": ("FS_WRITE_AT", 0),
    "std::os::unix::fs::FileExt::write_all_at": ("FS_WRITE_AT", 0),
    "std::fs::write": ("FS_WRITEFILE", 0),
    "std::fs::copy": ("FS_COPY", 1),
    "std::fs::hard_link": ("FS_LINK", 1),
    "std::os::unix::fs::symlink": ("FS_LINK", 1),
    "std::fs::File::set_len": ("FS_TRUNCATE", 0),
    "std::io::Seek::seek": ("FS_SEEK", 0),
    "std::io::Seek::rewind": ("FS_SEEK", 0),
    "std::fs::set_permissions": ("FS_CHMOD", 0),
    "std::fs::File::set_permissions": ("FS_CHMOD", 0),
    # flush / sync
    "std::io::Write::flush": ("FS_FLUSH", 0),
    "std::io::BufWriter::<W>::into_inner": ("FS_FLUSH", 0),
    "std::io::BufWriter::<W>::into_parts": ("BUF_DISCARD", 0),
    "std::fs::File::sync_data": ("FS_SYNC", 0),
    "std::fs::File::sync_all": ("FS_SYNC", 0),
    # a ranged write-back is NOT a durability point for appended data (no metadata, no allocation): its own kind, so
    # that the sync-ordering rules do not take it for a sync
    "libc::sync_file_range": ("FS_SYNC_RANGE", None),
    # a second descriptor for the same open file description (shares its advisory lock and offset)
    "std::fs::File::try_clone": ("FS_DUP", 0),
    # names
    "std::fs::rename": ("FS_RENAME", 0, 1),
    "std::fs::remove_file": ("FS_UNLINK", 0),
    "std::fs::remove_dir": ("FS_RMDIR", 0),
    "std::fs::remove_dir_all": ("FS_RMDIR_ALL", 0),
    # advisory locks
    "std::fs::File::try_lock": ("FLOCK_TRY", 0),
    "std::fs::File::try_lock_shared": ("FLOCK_TRY_SHARED", 0),
    "std::fs::File::lock": ("FLOCK_BLOCKING", 0),
    "std::fs::File::lock_shared": ("FLOCK_BLOCKING", 0),
    "std::fs::File::unlock": ("FLOCK_REL", 0),
    # stat-like
    "std::fs::read_dir": ("FS_STAT", 0),
    "std::fs::metadata": ("FS_STAT", 0),
    "std::fs::symlink_metadata": ("FS_STAT", 0),
    "std::fs::File::metadata": ("FS_STAT", 0),
    "std::fs::DirEntry::metadata": ("FS_STAT", 0),
    "std::fs::DirEntry::path": ("PURE", None),
    "std::fs::DirEntry::file_name": ("PURE", None),
    "std::fs::DirEntry::file_type": ("FS_STAT", 0),
    "std::path::Path::exists": ("FS_STAT", 0),
    "std::path::Path::try_exists": ("FS_STAT", 0),
    "std::path::Path::is_dir": ("FS_STAT", 0),
    "std::path::Path::is_file": ("FS_STAT", 0),
    "std::path::Path::metadata": ("FS_STAT", 0),
    "std::fs::canonicalize": ("FS_STAT", 0),
    "libc::statx": ("FS_STAT", None),
    # temp files
    "tempfile::NamedTempFile::new_in": ("FS_OPEN", 0, {"create", "write", "temp"}),
    "tempfile::NamedTempFile::<F>::reopen": ("FS_OPEN", 0, {"read", "write", "reopen"}),
    "tempfile::NamedTempFile::<F>::path": ("PURE", None),
    "tempfile::NamedTempFile::<F>::as_file": ("PURE", None),
    "tempfile::NamedTempFile::<F>::as_file_mut": ("PURE", None),
    "tempfile::NamedTempFile::<F>::keep": ("TEMP_ESCAPE", 0),
    "tempfile::NamedTempFile::<F>::disable_cleanup": ("TEMP_ESCAPE", 0),
    "tempfile::TempPath::disable_cleanup": ("TEMP_ESCAPE", 0),
    "tempfile::NamedTempFile::<F>::persist": ("TEMP_ESCAPE", 0),
    "tempfile::NamedTempFile::<F>::persist_noclobber": ("TEMP_ESCAPE", 0),
    "tempfile::NamedTempFile::<F>::into_temp_path": ("TEMP_ESCAPE", 0),
    "tempfile::NamedTempFile::<F>::into_parts": ("TEMP_ESCAPE", 0),
    "tempfile::NamedTempFile::<F>::into_file": ("TEMP_ESCAPE", 0),
    "tempfile::TempPath::keep": ("TEMP_ESCAPE", 0),
    "tempfile::TempPath::persist": ("TEMP_ESCAPE", 0),
    "tempfile::NamedTempFile::new": ("FS_OPEN", None, {"create", "write", "temp"}),
    "tempfile::tempfile_in": ("FS_OPEN", 0, {"create", "write", "temp"}),
    "tempfile::tempfile": ("FS_OPEN", None, {"create", "write", "temp"}),
    # tempfile::Builder: configuration calls have no effect of their own; the creating call opens a new file in the
    # directory given as its second argument ("custom": creation delegated to a caller-supplied function)
    "tempfile::Builder::new": ("PURE", None),
    "tempfile::Builder::prefix": ("PURE", None),
    "tempfile::Builder::suffix": ("PURE", None),
    "tempfile::Builder::rand_bytes": ("PURE", None),
    "tempfile::Builder::permissions": ("PURE", None),
    "tempfile::Builder::append": ("PURE", None),
    "tempfile::Builder::disable_cleanup": ("PURE", None),
    "tempfile::Builder::tempfile_in": ("FS_OPEN", 1, {"create", "write", "temp"}),
    "tempfile::Builder::tempfile": ("FS_OPEN", None, {"create", "write", "temp"}),
    "tempfile::Builder::make_in": ("FS_OPEN", 1, {"create", "write", "temp", "custom"}),
    "tempfile::Builder::make": ("FS_OPEN", None, {"create", "write", "temp", "custom"}),
}

# builder calls folded into the open mode (constant `true` argument)
OPEN_BUILDERS = {
    "std::fs::OpenOptions::read": "read",
    "std::fs::OpenOptions::write": "write",
    "std::fs::OpenOptions::append": "append",
    "std::fs::OpenOptions::truncate": "truncate",
    "std::fs::OpenOptions::create": "create",
    "std::fs::OpenOptions::create_new": "create_new",
}
OPEN_NEW = {"std::fs::OpenOptions::new", "std::fs::File::options"}

LOCK_ACQ = {
    "parking_lot::lock_api::Mutex::<R, T>::lock": ("mutex", True),
    "parking_lot::lock_api::RwLock::<R, T>::read": ("read", True),
    "parking_lot::lock_api::RwLock::<R, T>::write": ("write", True),
    "parking_lot::lock_api::RwLock::<R, T>::read_recursive": ("read", True),
    "parking_lot::lock_api::RwLock::<R, T>::upgradable_read": ("read", True),
    "parking_lot::lock_api::Mutex::<R, T>::lock_arc": ("mutex", True),
    "parking_lot::lock_api::RwLock::<R, T>::read_arc": ("read", True),
    "parking_lot::lock_api::RwLock::<R, T>::write_arc": ("write", True),
    "parking_lot::lock_api::Mutex::<R, T>::try_lock": ("mutex", False),
    "parking_lot::lock_api::RwLock::<R, T>::try_read": ("read", False),
    "parking_lot::lock_api::RwLock::<R, T>::try_write": ("write", False),
    "parking_lot::lock_api::Mutex::<R, T>::try_lock_for": ("mutex", True),
    "parking_lot::lock_api::RwLock::<R, T>::try_read_for": ("read", True),
    "parking_lot::lock_api::RwLock::<R, T>::try_write_for": ("write", True),
    "std::sync::Mutex::<T>::lock": ("mutex", True),
    "std::sync::RwLock::<T>::read": ("read", True),
    "std::sync::RwLock::<T>::write": ("write", True),
    "std::sync::Mutex::<T>::try_lock": ("mutex", False),
    "std::sync::RwLock::<T>::try_read": ("read", False),
    "std::sync::RwLock::<T>::try_write": ("write", False),
}

# calls that make the calling thread wait for another thread
BLOCKING_WAIT = {
    "std::thread::JoinHandle::<T>::join", "std::sync::mpsc::Receiver::<T>::recv",
    "std::sync::mpsc::Receiver::<T>::recv_timeout", "std::sync::mpsc::SyncSender::<T>::send",
    "std::sync::mpsc::sync_channel", "std::sync::Condvar::wait", "std::sync::Condvar::wait_while",
    "std::sync::Condvar::wait_timeout", "parking_lot::Condvar::wait", "parking_lot::Condvar::wait_for",
    "parking_lot::Condvar::wait_until", "std::thread::park", "std::thread::park_timeout",
    "std::sync::Barrier::wait", "std::thread::sleep", "std::sync::Once::call_once",
    "std::thread::scope", "std::thread::ScopedJoinHandle::<'scope, T>::join",
    "std::sync::mpsc::Receiver::<T>::iter",
}
BLOCKING_PREFIXES = ("std::sync::Condvar::", "parking_lot::Condvar::", "std::sync::Barrier::",
                     "std::sync::mpmc::", "std::sync::OnceLock", "std::sync::LazyLock")
CHAN_NONBLOCK = {"std::sync::mpsc::Sender::<T>::send", "std::sync::mpsc::channel"}

LEAK = {"std::mem::forget", "std::mem::ManuallyDrop::<T>::new", "std::boxed::Box::<T>::leak",
        "std::boxed::Box::<T, A>::leak", "std::mem::ManuallyDrop::new",
        "parking_lot::lock_api::MutexGuard::<'a, R, T>::leak",
        "parking_lot::lock_api::RwLockReadGuard::<'a, R, T>::leak",
        "parking_lot::lock_api::RwLockWriteGuard::<'a, R, T>::leak",
        "std::vec::Vec::<T, A>::leak"}

MAY_PANIC = {
    "std::option::Option::<T>::unwrap": "Option::unwrap",
    "std::option::Option::<T>::expect": "Option::expect",
    "std::result::Result::<T, E>::unwrap": "Result::unwrap",
    "std::result::Result::<T, E>::expect": "Result::expect",
    "std::result::Result::<T, E>::unwrap_err": "Result::unwrap_err",
    "std::result::Result::<T, E>::expect_err": "Result::expect_err",
    "std::ops::Index::index": "Index::index",
    "std::ops::IndexMut::index_mut": "IndexMut::index_mut",
    "core::slice::<impl [T]>::copy_from_slice": "copy_from_slice",
    "core::slice::<impl [T]>::clone_from_slice": "clone_from_slice",
    "core::slice::<impl [T]>::split_at": "split_at",
    "core::slice::<impl [T]>::split_at_mut": "split_at_mut",
    "core::slice::<impl [T]>::swap": "swap",
    "core::slice::<impl [T]>::chunks": "chunks",
    "core::slice::<impl [T]>::chunks_exact": "chunks_exact",
    "core::slice::<impl [T]>::windows": "windows",
    "std::vec::Vec::<T, A>::remove": "Vec::remove",
    "std::vec::Vec::<T, A>::swap_remove": "Vec::swap_remove",
    "std::vec::Vec::<T, A>::insert": "Vec::insert",
    "std::vec::Vec::<T, A>::drain": "Vec::drain",
    "std::vec::Vec::<T, A>::split_off": "Vec::split_off",
    "std::vec::Vec::<T, A>::truncate": None,
    "core::panicking::panic": "panic",
    "core::panicking::panic_fmt": "panic",
    "core::panicking::assert_failed": "assert_failed",
    "core::panicking::panic_explicit": "panic",
    "core::panicking::unreachable_display": "panic",
    "std::rt::begin_panic": "panic",
    "std::rt::panic_fmt": "panic",
    "core::panicking::panic_const::panic_const_div_by_zero": "panic",
    "std::string::String::from_utf8_unchecked": None,
    "core::str::<impl str>::split_at": "str::split_at",
    "std::num::NonZero::<T>::new_unchecked": None,
    "std::iter::Iterator::step_by": "step_by",
    "core::num::<impl u64>::div_ceil": None,
    "std::process::abort": "abort",
    "std::process::exit": "exit",
}
PANIC_PREFIXES = ("core::panicking::", "std::rt::begin_panic", "std::rt::panic")

ALLOC_SIZED = {
    "std::vec::Vec::<T>::with_capacity": 0,
    "std::vec::Vec::<T, A>::with_capacity_in": 0,
    "std::vec::from_elem": 1,
    "std::vec::Vec::<T, A>::reserve": 1,
    "std::vec::Vec::<T, A>::reserve_exact": 1,
    "std::vec::Vec::<T, A>::resize": 1,
    "std::vec::Vec::<T, A>::resize_with": 1,
    "std::string::String::with_capacity": 0,
    "std::string::String::reserve": 1,
    "std::collections::HashMap::<K, V, S>::with_capacity_and_hasher": 0,
    "std::collections::HashMap::<K, V>::with_capacity": 0,
    "std::collections::HashMap::<K, V, S, A>::reserve": 1,
    "std::collections::HashSet::<T, S>::with_capacity_and_hasher": 0,
    "std::collections::HashSet::<T>::with_capacity": 0,
    "std::collections::VecDeque::<T>::with_capacity": 0,
    "std::boxed::Box::<[T]>::new_uninit_slice": 0,
    "std::boxed::Box::<[T]>::new_zeroed_slice": 0,
    "bytes::BytesMut::with_capacity": 0,
    "bytes::BytesMut::reserve": 1,
    "bytes::BytesMut::zeroed": 0,
    "std::iter::repeat_n": 1,
    "core::slice::<impl [T]>::repeat": 1,
    "std::vec::Vec::<T, A>::try_reserve": 1,
    "std::vec::Vec::<T, A>::try_reserve_exact": 1,
}

# extern types whose drop has an effect the rules care about
DROP_EFFECTS = {
    "parking_lot::lock_api::MutexGuard": "LOCK_REL",
    "parking_lot::lock_api::RwLockReadGuard": "LOCK_REL",
    "parking_lot::lock_api::RwLockWriteGuard": "LOCK_REL",
    "tempfile::NamedTempFile": "FS_UNLINK",
    "tempfile::TempPath": "FS_UNLINK",
    "std::io::BufWriter": "FS_WRITE",        # flush on drop, errors ignored
    "std::fs::File": "FS_CLOSE",
    "tempfile::TempDir": "FS_RMDIR_ALL",
}

# types whose presence in the signature of an unknown extern callee makes it "unclassified"
SENSITIVE_TYPES = ("std::fs::File", "std::fs::OpenOptions", "std::path::Path", "std::path::PathBuf",
                   "tempfile::NamedTempFile", "tempfile::TempPath", "std::fs::DirEntry",
                   "std::fs::ReadDir", "std::io::BufWriter", "std::io::BufReader")

# extern callees with Path/File arguments that are known to be effect-free value manipulation
PURE_OK_PREFIXES = (
    "std::path::Path::", "std::path::PathBuf::", "std::clone::Clone::clone", "std::ops::Deref::deref",
    "std::ops::DerefMut::deref_mut", "std::convert::", "std::borrow::", "std::option::Option::",
    "std::result::Result::", "std::fmt::", "core::fmt::", "std::ops::Try::", "std::ops::FromResidual::",
    "std::io::BufWriter::<W>::new", "std::io::BufWriter::<W>::get_ref", "std::io::BufWriter::<W>::get_mut",
    "std::io::BufWriter::<W>::with_capacity", "std::io::BufWriter::<W>::buffer", "std::io::BufWriter::<W>::capacity",
    "std::io::BufReader::<R>::buffer", "std::io::BufReader::<R>::capacity",
    "std::io::BufReader::<R>::new", "std::io::BufReader::<R>::with_capacity",
    "std::io::BufReader::<R>::get_ref", "std::io::IntoInnerError::", "std::mem::drop",
    "std::fs::OpenOptions::", "std::iter::", "std::vec::Vec::", "std::cmp::", "std::hash::",
    "std::sync::Arc::", "std::string::ToString::", "std::ffi::", "std::os::unix::ffi::",
    "std::mem::swap", "std::mem::replace", "std::mem::take", "tracing::", "std::hint::",
    "std::mem::ManuallyDrop::<T>::into_inner", "std::mem::ManuallyDrop::into_inner",
    "std::sync::mpsc::", "thiserror::", "std::error::Error::", "std::slice::", "core::slice::",
    "std::collections::", "std::fs::Metadata::", "std::os::unix::fs::MetadataExt::",
    "std::fs::FileType::", "std::thread::spawn", "std::ops::Fn", "std::default::Default::",
    "std::any::", "std::array::", "std::boxed::Box::", "std::time::", "std::str::", "core::str::",
    "std::string::String::", "std::io::Error::", "std::io::Cursor::", "std::marker::",
    "std::ptr::", "std::os::fd::", "std::io::BufRead::", "std::mem::size_of",
)


def norm(path):
    """Drops generic-argument segments (`::<T, A>`, `::<impl [T]>`) so table keys do not depend on how
    rustc prints the generics of an impl."""
    if path is None:
        return None
    out = []
    depth = 0
    i = 0
    n = len(path)
    while i < n:
        ch = path[i]
        if depth == 0 and path.startswith("::<", i):
            depth = 1
            i += 3
            continue
        if depth > 0:
            if ch == "<":
                depth += 1
            elif ch == ">":
                depth -= 1
            i += 1
            continue
        out.append(ch)
        i += 1
    return "".join(out)


def _norm_keys(d):
    return dict((norm(k), v) for k, v in d.items())


FS = _norm_keys(FS)
OPEN_BUILDERS = _norm_keys(OPEN_BUILDERS)
OPEN_NEW = set(norm(k) for k in OPEN_NEW)
LOCK_ACQ = _norm_keys(LOCK_ACQ)
BLOCKING_WAIT = set(norm(k) for k in BLOCKING_WAIT)
CHAN_NONBLOCK = set(norm(k) for k in CHAN_NONBLOCK)
LEAK = set(norm(k) for k in LEAK)
MAY_PANIC = _norm_keys(MAY_PANIC)
ALLOC_SIZED = _norm_keys(ALLOC_SIZED)
PURE_OK_PREFIXES = tuple(norm(k) for k in PURE_OK_PREFIXES)


def fs_effect(path):
    return FS.get(norm(path))
