"""Pretty-printer for cassfacts bodies (debugging aid and replay artefacts)."""


def fmt_place(p, body=None):
    s = "_%d" % p["l"]
    for e in p["p"]:
        if e == "deref":
            s = "(*%s)" % s
        elif isinstance(e, dict):
            if "f" in e:
                s = "%s.%s" % (s, e.get("n", e["f"]))
            elif "dc" in e:
                s = "(%s as %s)" % (s, e.get("vn"))
            elif "idx" in e:
                s = "%s[_%d]" % (s, e["idx"])
            elif "cidx" in e:
                s = "%s[%s%d]" % (s, "-" if e["from_end"] else "", e["cidx"])
            elif "sub_from" in e:
                s = "%s[%d..%s%d]" % (s, e["sub_from"], "-" if e["from_end"] else "", e["sub_to"])
        else:
            s = "%s.<%s>" % (s, e)
    return s


def fmt_op(o):
    if "copy" in o:
        return fmt_place(o["copy"])
    if "move" in o:
        return "move " + fmt_place(o["move"])
    c = o.get("const")
    if c is not None:
        if "fn" in c:
            return "fn:" + c["fn"]
        if "v" in c:
            return "const %d" % c["v"]
        if "str" in c:
            return "const %r" % c["str"]
        if "named" in c:
            return "const " + c["named"]
        return "const ?"
    return "?"


def fmt_rv(rv):
    k = rv["k"]
    if k == "use":
        return fmt_op(rv["op"])
    if k == "ref":
        return "&%s%s" % ("mut " if rv["mut"] else "", fmt_place(rv["place"]))
    if k == "rawptr":
        return "&raw %s" % fmt_place(rv["place"])
    if k == "cast":
        return "%s as [%s]" % (fmt_op(rv["op"]), rv["ck"])
    if k == "binop":
        return "%s(%s, %s)" % (rv["op"], fmt_op(rv["a"]), fmt_op(rv["b"]))
    if k == "unop":
        return "%s(%s)" % (rv["op"], fmt_op(rv["a"]))
    if k == "discr":
        return "discriminant(%s)" % fmt_place(rv["place"])
    if k == "agg":
        name = rv.get("def", rv["ak"])
        if rv["ak"] == "adt":
            name = "%s::%s" % (rv["def"], rv["vn"])
        return "%s{%s}" % (name, ", ".join(fmt_op(o) for o in rv["ops"]))
    if k == "repeat":
        return "[%s; %s]" % (fmt_op(rv["op"]), rv["len"])
    return rv.get("dbg", k)


def callee_name(c):
    if c.get("indirect"):
        return "<indirect %s>" % fmt_op(c["op"])
    r = c.get("resolved")
    if r and r != c["path"]:
        return "%s => %s" % (c["path"], r)
    return c["path"]


def fmt_term(t):
    k = t["k"]
    if k == "goto":
        return "goto bb%d" % t["t"]
    if k == "switch":
        return "switchInt(%s) [%s, otherwise: bb%d]" % (
            fmt_op(t["discr"]), ", ".join("%d: bb%d" % (v, b) for v, b in t["targets"]), t["otherwise"])
    if k == "drop":
        return "drop(%s) -> bb%d%s" % (fmt_place(t["place"]), t["t"],
                                       "" if t["unwind"] is None else " unwind bb%d" % t["unwind"])
    if k == "call":
        return "%s = %s(%s) -> %s%s" % (
            fmt_place(t["dest"]), callee_name(t["callee"]), ", ".join(fmt_op(a) for a in t["args"]),
            "!" if t["t"] is None else "bb%d" % t["t"],
            "" if t["unwind"] is None else " unwind bb%d" % t["unwind"])
    if k == "assert":
        return "assert(%s == %s, %s) -> bb%d" % (fmt_op(t["cond"]), t["expected"], t["akind"], t["t"])
    return k


def dump_body(b, types=None, show_cleanup=False):
    out = ["fn %s  [%s:%d] argc=%d" % (b["path"], b["span"]["file"], b["span"]["line"], b["argc"])]
    if types is not None:
        for i, t in enumerate(b["locals"]):
            out.append("    let _%d: %s" % (i, types[t]["s"]))
    for n in b["names"]:
        out.append("    debug %s => %s" % (n["name"], fmt_place(n["place"])))
    for i, blk in enumerate(b["blocks"]):
        if blk["cleanup"] and not show_cleanup:
            continue
        out.append("  bb%d%s:  // line %d" % (i, " (cleanup)" if blk["cleanup"] else "", blk["span"]["line"]))
        for s in blk["stmts"]:
            if s["k"] == "assign":
                out.append("    %s = %s" % (fmt_place(s["lhs"]), fmt_rv(s["rv"])))
            elif s["k"] == "setdiscr":
                out.append("    discriminant(%s) = %d" % (fmt_place(s["lhs"]), s["variant"]))
        out.append("    " + fmt_term(blk["term"]))
    return "\n".join(out)


if __name__ == "__main__":
    import json
    import sys
    f = json.load(open(sys.argv[1]))
    for b in f["bodies"]:
        if any(a in b["path"] for a in sys.argv[2:]):
            print(dump_body(b, f["types"], show_cleanup="--cleanup" in sys.argv))
            print()
