"""Per-property metadata used by the runner (levels, explanations)."""

PROPS = {
    "C09": {
        "level": "proof",
        "explanation": "all-paths sync-ordering protocol in SyncMode::Sync decided on rustc MIR: must-happened-"
                       "before dataflow with Ok-sensitivity and kills over the resolved call graph",
        "not_decided": "what each crash image decodes to; directory fsync (the stated model does not ask for it)",
    },
}
