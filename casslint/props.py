"""Per-property metadata used by the runner (levels, explanations)."""

PROPS = {
    "C07": {
        "technique": "static analysis (rustc_private MIR facts + casslint rules): bounded path enumeration with symbolic hashes over the apply body (mapping/refcount balance) + structural check of the two refcount primitives + must-pass-through of the delete callback + error discipline of the unlink; lockset rules shared with C04",
        "level": "other",
        "explanation": "bounded path enumeration of the apply body with symbolic hashes (loops unrolled once/twice): on "
                       "every Ok path the change in key->hash mappings equals the change applied to the refcounts and a "
                       "hash is listed for deletion iff its decrement reported zero; the two primitives are checked "
                       "against that contract; the list reaches the delete callback; staging is RAII",
        "not_decided": "the directory listing at run time",
    },
    "C12": {
        "technique": "static analysis (rustc_private MIR facts + casslint rules): who-may-write confinement of the counters by module + path-enumerated balance of statistics against refcount outcomes + structural check of the recomputation (distinctness by hash) + provenance of the stored size",
        "level": "other",
        "explanation": "counter confinement by module, path-enumerated balance of the statistics counters against the "
                       "refcount outcomes (distinct blobs, bytes with the size belonging to the same hash), rebuild on "
                       "load, provenance of the stored size",
        "not_decided": "numeric equality over histories",
    },
    "C18": {
        "technique": "static analysis (rustc_private MIR facts + casslint rules): provenance slicing: one datum to counter/hasher/file per write, one finalize() feeding intent and publish along the call chain, purity and tiling of the hash<->path mapping",
        "level": "other",
        "explanation": "one datum / one hash / one path decided by provenance: the write method feeds its data "
                       "parameter once each to counter, hasher and file on every Ok path; the hash registered and the "
                       "hash naming the file are the same finalize() value; the CAS path is a pure function of root "
                       "and hash; constant slice ranges tile the hex string and the parser inverts them",
        "not_decided": "BLAKE3 and hex themselves; the for-all-hashes bijection beyond tiling",
    },
    "C17": {
        "technique": "static analysis (rustc_private MIR facts + casslint rules): provenance slicing of every allocation size, offset and length on the range-read path + guard dominance (start<size, end clamped) + accumulator rules of the read loop",
        "level": "other",
        "explanation": "bounds of the range read decided structurally: provenance of every allocation size on the read "
                       "path (end-start with end clamped to the stored size at every call site), every subtraction "
                       "dominated by a comparison of the same values, reject polarity, coupling of the three "
                       "accumulators to the bytes-read value",
        "not_decided": "byte-exact slice equality over the (L, start, end) cube",
    },
    "C20": {
        "technique": "static analysis (rustc_private MIR facts + casslint rules): open-mode folding (append-only log), who-may-write confinement of the version counter, provenance of version/checksum/segment of every record (through helpers and closures), prune guarded by bound and by a successful save",
        "level": "other",
        "explanation": "append-only open modes, version-counter confinement, provenance of version/checksum/target "
                       "segment of every record, one write per record, prune guarded by `id < segment_of(saved "
                       "version)` after the snapshot rename, end marker only at roll-over and synced",
        "not_decided": "numeric membership in (iN, (i+1)N], monotonicity as values, decoding the bytes with an "
                       "independent reader",
    },
    "C16": {
        "technique": "static analysis (rustc_private MIR facts + casslint rules): panic- and allocation-reachability over the resolved call graph with discharge arguments (checked take, length guards), encoder/decoder layout and tag extraction from MIR of both sides, branch classification of the decoders' error exits",
        "level": "other",
        "explanation": "totality and bounded allocation of the decoders decided by panic/allocation reachability over "
                       "the resolved call graph with generic discharge arguments; encoder/decoder layout, tag and "
                       "KeyBytes pairing extracted from the MIR of both sides and compared; a decoder's error exits are "
                       "end-of-input, unknown tag or failing callee (no bound on a decoded value that no encoder enforces)",
        "not_decided": "the round-trip value law itself; lossy `len() as u32` casts above 4 GiB are listed as an assumption",
    },
    "C10": {
        "technique": "static analysis (rustc_private MIR facts + casslint rules): graph-cut rule in the segment reader (checksum-equality edge dominates every accepting return over the same buffer) + error-propagation rules up to the open root + branch classification of 'no more records' exits + panic reachability",
        "level": "other",
        "explanation": "verify-before-accept as a graph cut in the segment reader (checksum equality edge dominates "
                       "every accepting return, over the same buffer), short payload => error-only paths, error "
                       "propagation to the open root, decode-before-apply, panic sources on the replay path",
        "not_decided": "'state = longest undamaged prefix' as a value; hash collisions",
    },
    "C14": {
        "technique": "static analysis (rustc_private MIR facts + casslint rules): error-discipline lint over every effectful Result-returning call site (def-use discard detection), unwrap/expect classification by error type, error-edge typestate of the log writer, must-happened-before for prune/unlink behind the successful step",
        "level": "other",
        "explanation": "error discipline over every effectful Result-returning call site (def-use: a result that is "
                       "only dropped is a discard), unwrap/expect sites classified by error type, append-before-"
                       "apply as a graph cut, and the error-path typestate of the log writer field",
        "not_decided": "post-fault state as values",
    },
    "C01": {
        "technique": "static analysis (rustc_private MIR facts + casslint rules): must-happened-before dataflow on every Ok exit of the mutating entry points (Ok-sensitive, interprocedural summaries) + value-flow taint (key/hash/size) + backward provenance of reported values + bounded path enumeration of the apply body for the reported count, over rustc MIR",
        "level": "other",
        "explanation": "refinement wiring decided on all paths: every Ok exit of a mutating entry point is either "
                       "behind the apply step or mutation-free (and reports accordingly), the apply body performs the "
                       "BTreeMap operation the op denotes with the transaction's own key/hash/size (taint), reads "
                       "resolve by copy-only chains through BTreeMap::get, the read view hands out the map's own "
                       "iterators, closed world; no operation removes a directory under cas/ that a later "
                       "publish relies on",
        "not_decided": "equality of results with a model over histories; BTreeMap itself; byte contents (C04, C06, "
                       "C18); aborts (C13)",
    },
    "C02": {
        "technique": "static analysis (rustc_private MIR facts + casslint rules): must-pass-through / dominance rules on the load and checkpoint paths + provenance slicing (logged bytes, snapshot version, running maximum of replayed versions) + branch classification of the record reader's end-of-log exits, over rustc MIR",
        "level": "other",
        "explanation": "restart wiring decided on all paths: every live index mutation is behind the append of its "
                       "record, logged bytes are the encoding of the applied op, snapshot/version/prune/replay use "
                       "one version value (provenance), checkpoints hold both locks, load rebuilds refcounts and "
                       "statistics before replay, replay skips only by version",
        "not_decided": "the segment arithmetic (which version lands in which segment, <= vs <, N = 1, restart at a "
                       "boundary, repeated restarts): values, not shape",
    },
    "C03": {
        "technique": "static analysis (rustc_private MIR facts + casslint rules): write-order protocol as must-happened-before dataflow with Ok-sensitivity and kills (publish -> log -> apply -> unlink; write -> sync -> rename; save -> prune) + open-mode folding + lockset rule for append/apply atomicity, over rustc MIR",
        "level": "other",
        "explanation": "write-order protocol of the process-kill model decided on all paths: must-happened-before "
                       "with Ok-sensitivity and kills for the put/remove order and snapshot-before-prune, in-place "
                       "writes of durable names excluded by effect class, one write call per log record, and the "
                       "destructive effects reachable from open enumerated",
        "not_decided": "that each crash image decodes to the acknowledged history; nested crashes beyond R5",
    },
    "C08": {
        "technique": "static analysis (rustc_private MIR facts + casslint rules): lockset + guard dominance at every clean-up removal, provenance of removed paths (report lists only), classification of the scan's directory walk, must-pass-through of every report list on the way to Ok",
        "level": "other",
        "explanation": "clean-up half decided on all paths (protocol lock + re-validation guards dominate every "
                       "removal, operands come from the report's own lists); scan shape: list provenance by path "
                       "class, graph cut 'every directory entry is classified', polarity of the three hash lists, "
                       "integrity verdict",
        "not_decided": "set-equality of the reports with the true garbage for every crash state (needs the "
                       "directory contents, i.e. execution)",
    },
    "C04": {
        "technique": "static analysis (rustc_private MIR facts + casslint rules): lockset analysis (must-held protocol lock at every intent access and blob unlink, single continuous hold apply->delete) + guard/filter dominance + typestate of the intent guard along the publish call chain + container discipline of the intents multiset",
        "level": "other",
        "explanation": "conformance to the intents protocol on all paths: must-held protocol lock at every intent "
                       "access and blob unlink, filter/guard dominance for every unlinked hash, intent-before-"
                       "publish with a live guard, one continuous hold from apply to delete, container discipline "
                       "of the intents container decided from its type and mutators",
        "not_decided": "byte equality of the resolved blob (C06, C18); the step from the protocol rules to the "
                       "invariant is a paper argument (DESIGN.md C04)",
    },
    "C05": {
        "technique": "static analysis (rustc_private MIR facts + casslint rules): lockset analysis with caller contexts (read path: blob opened under the index guard; write path: append+apply under both locks) + must-happened-before 'Ok implies applied'",
        "level": "other",
        "explanation": "read-path and write-path locksets on all paths: must-held lock classes (incl. caller "
                       "context) at every blob open, key-map access, append and apply site",
        "not_decided": "the linearizability judgement on returned values",
    },
    "C15": {
        "technique": "static analysis (rustc_private MIR facts + casslint rules): lock-order graph from a may-held lockset analysis (caller contexts, drop glue, bound callbacks): acyclic, no re-entrant acquisition, no blocking wait, no escaping guard",
        "level": "proof",
        "explanation": "lock-order graph over an over-approximation of all paths (may-held locksets incl. caller "
                       "context, drop glue and bound callbacks) is acyclic without self-edges; no blocking wait "
                       "is reachable from the API; guards do not escape or leak",
        "not_decided": "calls into the key type's Clone/Ord/Debug under locks; a caller keeping an "
                       "IndexReadGuard while writing (outside the contract)",
    },
    "C19": {
        "technique": "static analysis (rustc_private MIR facts + casslint rules): must-happened-before SETTINGS_CHECKED at every mutating effect outside the allow-list on the open root, effect-free mismatch edges, version-gate dominance, provenance of the layout flag, may-order settings-after-mkdir",
        "level": "proof",
        "explanation": "validate-before-touch on the open root: must-happened-before SETTINGS_LOADED at every "
                       "mutating effect outside the allow-list, effect-free mismatch edge that cannot be "
                       "bypassed, version gate as a graph cut in the loader, provenance of the layout flag",
        "not_decided": "byte-for-byte directory comparison at run time",
    },
    "C11": {
        "technique": "static analysis (rustc_private MIR facts + casslint rules): must-happened-before FLOCK at every mutating effect site reachable from the open root (transitively), effect-free error edge of the lock attempt, ownership flow of the locked File into the handle",
        "level": "proof",
        "explanation": "lock-before-touch decided on all paths of the open root: must-happened-before FLOCK "
                       "at every mutating effect site (transitively), effect-free error edge, non-blocking lock, "
                       "lock file owned by the single-constructor handle that is only exposed behind Arc",
        "not_decided": "flock semantics across threads/processes/kill (trusted)",
    },
    "C13": {
        "technique": "static analysis (rustc_private MIR facts + casslint rules): effect-confinement analysis: transitive may-effects (fs by path class, locks, containers) of the non-consuming transaction API and of the drop glue, over the resolved call graph; uniqueness of the staging name from the builder chain",
        "level": "other",
        "explanation": "effect confinement: transitive may-effects (fs effects by path class, lock "
                       "acquisitions, container events) of the non-consuming transaction API and of the drop "
                       "glue, over the resolved call graph incl. drop glue and callbacks; the staging file gets a "
                       "random name and is created exclusively (no key-derived name)",
        "not_decided": "run-time directory listings; exactness of 'only its own intent' is C04-R5",
    },
    "C06": {
        "technique": "static analysis (rustc_private MIR facts + casslint rules): effect-ownership analysis: every file-system effect site classified by path class (value-flow over MIR) and judged against a closed list; must/may ordering flush->publish; provenance of the published file and its name",
        "level": "other",
        "explanation": "effect ownership over cas/: every fs effect site in the crate is classified by path "
                       "class (value-flow over MIR) and judged against a closed list; flush-before-publish and "
                       "provenance of the rename operands decided on all paths",
        "not_decided": "re-hashing files at run time; BLAKE3 collision resistance; what the filesystem does",
    },
    "C09": {
        "technique": "static analysis (rustc_private MIR facts + casslint rules): must-happened-before dataflow (Ok-sensitive, with kills, SyncMode::Sync specialisation by edge pruning) over rustc MIR with path classes: sync-before-rename, sync-before-ack, log-before-unlink on all paths",
        "level": "proof",
        "explanation": "all-paths sync-ordering protocol in SyncMode::Sync decided on rustc MIR: must-happened-"
                       "before dataflow with Ok-sensitivity and kills over the resolved call graph",
        "not_decided": "what each crash image decodes to; directory fsync (the stated model does not ask for it)",
    },
}
