"""Per-property metadata used by the runner (levels, explanations)."""

PROPS = {
    "C07": {
        "level": "other",
        "explanation": "bounded path enumeration of the apply body with symbolic hashes (loops unrolled once/twice): on "
                       "every Ok path the change in key->hash mappings equals the change applied to the refcounts and a "
                       "hash is listed for deletion iff its decrement reported zero; the two primitives are checked "
                       "against that contract; the list reaches the delete callback; staging is RAII",
        "not_decided": "the directory listing at run time",
    },
    "C12": {
        "level": "other",
        "explanation": "counter confinement by module, path-enumerated balance of the statistics counters against the "
                       "refcount outcomes (distinct blobs, bytes with the size belonging to the same hash), rebuild on "
                       "load, provenance of the stored size",
        "not_decided": "numeric equality over histories",
    },
    "C18": {
        "level": "other",
        "explanation": "one datum / one hash / one path decided by provenance: the write method feeds its data "
                       "parameter once each to counter, hasher and file on every Ok path; the hash registered and the "
                       "hash naming the file are the same finalize() value; the CAS path is a pure function of root "
                       "and hash; constant slice ranges tile the hex string and the parser inverts them",
        "not_decided": "BLAKE3 and hex themselves; the for-all-hashes bijection beyond tiling",
    },
    "C17": {
        "level": "other",
        "explanation": "bounds of the range read decided structurally: provenance of every allocation size on the read "
                       "path (end-start with end clamped to the stored size at every call site), every subtraction "
                       "dominated by a comparison of the same values, reject polarity, coupling of the three "
                       "accumulators to the bytes-read value",
        "not_decided": "byte-exact slice equality over the (L, start, end) cube",
    },
    "C20": {
        "level": "other",
        "explanation": "append-only open modes, version-counter confinement, provenance of version/checksum/target "
                       "segment of every record, one write per record, prune guarded by `id < segment_of(saved "
                       "version)` after the snapshot rename, end marker only at roll-over and synced",
        "not_decided": "numeric membership in (iN, (i+1)N], monotonicity as values, decoding the bytes with an "
                       "independent reader",
    },
    "C16": {
        "level": "other",
        "explanation": "totality and bounded allocation of the decoders decided by panic/allocation reachability over "
                       "the resolved call graph with generic discharge arguments; encoder/decoder layout, tag and "
                       "KeyBytes pairing extracted from the MIR of both sides and compared; a decoder's error exits are "
                       "end-of-input, unknown tag or failing callee (no bound on a decoded value that no encoder enforces)",
        "not_decided": "the round-trip value law itself; lossy `len() as u32` casts above 4 GiB are listed as an assumption",
    },
    "C10": {
        "level": "other",
        "explanation": "verify-before-accept as a graph cut in the segment reader (checksum equality edge dominates "
                       "every accepting return, over the same buffer), short payload => error-only paths, error "
                       "propagation to the open root, decode-before-apply, panic sources on the replay path",
        "not_decided": "'state = longest undamaged prefix' as a value; hash collisions",
    },
    "C14": {
        "level": "other",
        "explanation": "error discipline over every effectful Result-returning call site (def-use: a result that is "
                       "only dropped is a discard), unwrap/expect sites classified by error type, append-before-"
                       "apply as a graph cut, and the error-path typestate of the log writer field",
        "not_decided": "post-fault state as values",
    },
    "C01": {
        "level": "other",
        "explanation": "refinement wiring decided on all paths: every Ok exit of a mutating entry point is either "
                       "behind the apply step or mutation-free (and reports accordingly), the apply body performs the "
                       "BTreeMap operation the op denotes with the transaction's own key/hash/size (taint), reads "
                       "resolve by copy-only chains through BTreeMap::get, the read view hands out the map's own "
                       "iterators, closed world; no operation removes a directory under cas/ that a later "
                       "publish relies on",
        "not_decided": "equality of results with a model over histories; BTreeMap itself; byte contents (C04, C06, "
                       "C18); aborts (C13)",
    },
    "C02": {
        "level": "other",
        "explanation": "restart wiring decided on all paths: every live index mutation is behind the append of its "
                       "record, logged bytes are the encoding of the applied op, snapshot/version/prune/replay use "
                       "one version value (provenance), checkpoints hold both locks, load rebuilds refcounts and "
                       "statistics before replay, replay skips only by version",
        "not_decided": "the segment arithmetic (which version lands in which segment, <= vs <, N = 1, restart at a "
                       "boundary, repeated restarts): values, not shape",
    },
    "C03": {
        "level": "other",
        "explanation": "write-order protocol of the process-kill model decided on all paths: must-happened-before "
                       "with Ok-sensitivity and kills for the put/remove order and snapshot-before-prune, in-place "
                       "writes of durable names excluded by effect class, one write call per log record, and the "
                       "destructive effects reachable from open enumerated",
        "not_decided": "that each crash image decodes to the acknowledged history; nested crashes beyond R5",
    },
    "C08": {
        "level": "other",
        "explanation": "clean-up half decided on all paths (protocol lock + re-validation guards dominate every "
                       "removal, operands come from the report's own lists); scan shape: list provenance by path "
                       "class, graph cut 'every directory entry is classified', polarity of the three hash lists, "
                       "integrity verdict",
        "not_decided": "set-equality of the reports with the true garbage for every crash state (needs the "
                       "directory contents, i.e. execution)",
    },
    "C04": {
        "level": "other",
        "explanation": "conformance to the intents protocol on all paths: must-held protocol lock at every intent "
                       "access and blob unlink, filter/guard dominance for every unlinked hash, intent-before-"
                       "publish with a live guard, one continuous hold from apply to delete, container discipline "
                       "of the intents container decided from its type and mutators",
        "not_decided": "byte equality of the resolved blob (C06, C18); the step from the protocol rules to the "
                       "invariant is a paper argument (DESIGN.md C04)",
    },
    "C05": {
        "level": "other",
        "explanation": "read-path and write-path locksets on all paths: must-held lock classes (incl. caller "
                       "context) at every blob open, key-map access, append and apply site",
        "not_decided": "the linearizability judgement on returned values",
    },
    "C15": {
        "level": "proof",
        "explanation": "lock-order graph over an over-approximation of all paths (may-held locksets incl. caller "
                       "context, drop glue and bound callbacks) is acyclic without self-edges; no blocking wait "
                       "is reachable from the API; guards do not escape or leak",
        "not_decided": "calls into the key type's Clone/Ord/Debug under locks; a caller keeping an "
                       "IndexReadGuard while writing (outside the contract)",
    },
    "C19": {
        "level": "proof",
        "explanation": "validate-before-touch on the open root: must-happened-before SETTINGS_LOADED at every "
                       "mutating effect outside the allow-list, effect-free mismatch edge that cannot be "
                       "bypassed, version gate as a graph cut in the loader, provenance of the layout flag",
        "not_decided": "byte-for-byte directory comparison at run time",
    },
    "C11": {
        "level": "proof",
        "explanation": "lock-before-touch decided on all paths of the open root: must-happened-before FLOCK "
                       "at every mutating effect site (transitively), effect-free error edge, non-blocking lock, "
                       "lock file owned by the single-constructor handle that is only exposed behind Arc",
        "not_decided": "flock semantics across threads/processes/kill (trusted)",
    },
    "C13": {
        "level": "other",
        "explanation": "effect confinement: transitive may-effects (fs effects by path class, lock "
                       "acquisitions, container events) of the non-consuming transaction API and of the drop "
                       "glue, over the resolved call graph incl. drop glue and callbacks; the staging file gets a "
                       "random name and is created exclusively (no key-derived name)",
        "not_decided": "run-time directory listings; exactness of 'only its own intent' is C04-R5",
    },
    "C06": {
        "level": "other",
        "explanation": "effect ownership over cas/: every fs effect site in the crate is classified by path "
                       "class (value-flow over MIR) and judged against a closed list; flush-before-publish and "
                       "provenance of the rename operands decided on all paths",
        "not_decided": "re-hashing files at run time; BLAKE3 collision resistance; what the filesystem does",
    },
    "C09": {
        "level": "proof",
        "explanation": "all-paths sync-ordering protocol in SyncMode::Sync decided on rustc MIR: must-happened-"
                       "before dataflow with Ok-sensitivity and kills over the resolved call graph",
        "not_decided": "what each crash image decodes to; directory fsync (the stated model does not ask for it)",
    },
}
