"""Per-property metadata used by the runner (levels, explanations)."""

PROPS = {
    "C13": {
        "level": "other",
        "explanation": "effect confinement: transitive may-effects (fs effects by path class, lock "
                       "acquisitions, container events) of the non-consuming transaction API and of the drop "
                       "glue, over the resolved call graph incl. drop glue and callbacks",
        "not_decided": "run-time directory listings; exactness of 'only its own intent' is C04-R5",
    },
    "C06": {
        "level": "other",
        "explanation": "effect ownership over cas/: every fs effect site in the crate is classified by path "
                       "class (value-flow over MIR) and judged against a closed list; flush-before-publish and "
                       "provenance of the rename operands decided on all paths",
        "not_decided": "re-hashing files at run time; BLAKE3 collision resistance; what the filesystem does",
    },
    "C09": {
        "level": "proof",
        "explanation": "all-paths sync-ordering protocol in SyncMode::Sync decided on rustc MIR: must-happened-"
                       "before dataflow with Ok-sensitivity and kills over the resolved call graph",
        "not_decided": "what each crash image decodes to; directory fsync (the stated model does not ask for it)",
    },
}
