"""Effect sites and events (components B + C + D): every fs / lock / container effect in the crate,
qualified by path class, plus the must-happened-before and may-reach dataflows."""
import collections

from . import effects
from .core import Site, term_path
from .vfg import place_of

TMP_CLASSES = {"INDEX_TMP", "SETTINGS_TMP"}
DURABLE_CLASSES = {"INDEX", "SETTINGS"}
CAS_CLASSES = {"CAS_ROOT", "CAS_BLOB", "CAS_DIR", "DIRSCAN:CAS_ROOT", "DIRSCAN:CAS_DIR",
               "DIRSCAN:DIRSCAN:CAS_ROOT"}


def is_cas_class(c):
    return c in CAS_CLASSES or (c.startswith("DIRSCAN:") and "CAS" in c) or c.startswith("CHILD:CAS") \
        or c.startswith("PARENT:CAS") or c.startswith("SIBLING:CAS")


class Effect(object):
    __slots__ = ("kind", "site", "classes", "classes2", "mode", "via")

    def __init__(self, kind, site, classes=frozenset(), classes2=frozenset(), mode=None, via="call"):
        self.kind = kind
        self.site = site
        self.classes = frozenset(classes)
        self.classes2 = frozenset(classes2)
        self.mode = mode
        self.via = via

    def describe(self):
        s = "%s(%s)" % (self.kind, ",".join(sorted(self.classes)) or "?")
        if self.classes2:
            s += "->(%s)" % ",".join(sorted(self.classes2))
        if self.mode is not None:
            s += " mode={%s}" % ",".join(sorted(self.mode))
        return "%s at %s in %s" % (s, self.site.loc(), self.site.body.path)

    def __repr__(self):
        return "<Effect %s>" % self.describe()


def fold_open_mode(body, op):
    """Mode set of an OpenOptions receiver operand: builder calls with constant `true`."""
    mode = set()
    pl = place_of(op)
    if pl is None:
        return {"unknown"}
    seen = set()
    work = [pl["l"]]
    found_new = False
    while work:
        l = work.pop()
        if l in seen:
            continue
        seen.add(l)
        defs = body.assignments().get(l, [])
        if not defs and l <= body.argc:
            mode.add("unknown")       # builder handed in from elsewhere
        for (bb, j, rv) in defs:
            if j == "term":
                p = term_path(rv) or ""
                if p in effects.OPEN_BUILDERS:
                    flag = effects.OPEN_BUILDERS[p]
                    a = rv["args"][1] if len(rv["args"]) > 1 else {}
                    c = a.get("const")
                    if c is not None and "v" in c:
                        if c["v"]:
                            mode.add(flag)
                    else:
                        mode.add(flag + "?")
                    p2 = place_of(rv["args"][0])
                    if p2 is not None:
                        work.append(p2["l"])
                elif p in effects.OPEN_NEW:
                    found_new = True
                else:
                    # e.g. custom helper returning OpenOptions
                    mode.add("unknown")
            else:
                if rv["k"] == "use":
                    p2 = place_of(rv["op"])
                    if p2 is not None:
                        work.append(p2["l"])
                elif rv["k"] in ("ref", "rawptr"):
                    work.append(rv["place"]["l"])
                    # builder methods mutate through &mut: also follow other borrows of the same local
                else:
                    mode.add("unknown")
    # the builder local is mutated through reborrows: collect builder calls whose receiver chain
    # reaches any local in `seen`
    changed = True
    while changed:
        changed = False
        for l, defs in body.assignments().items():
            for (bb, j, rv) in defs:
                if j == "term" and (term_path(rv) or "") in effects.OPEN_BUILDERS:
                    p2 = place_of(rv["args"][0])
                    if p2 is not None and p2["l"] in seen and l not in seen:
                        seen.add(l)
                        flag = effects.OPEN_BUILDERS[term_path(rv)]
                        a = rv["args"][1] if len(rv["args"]) > 1 else {}
                        c = a.get("const")
                        if c is not None and "v" in c:
                            if c["v"]:
                                mode.add(flag)
                        else:
                            mode.add(flag + "?")
                        changed = True
    if not found_new and not mode:
        mode.add("unknown")
    return mode


class EffectIndex(object):
    """All effect sites of the program, with classes."""

    def __init__(self, prog, vfg):
        self.prog = prog
        self.vfg = vfg
        self.effects = []            # list of Effect
        self.by_site = collections.defaultdict(list)
        self.unclassified = []       # extern calls on sensitive types that the table does not know
        self._collect()

    def _classes(self, body, op):
        return self.vfg.labels_of_operand(body, op)

    def _collect(self):
        prog = self.prog
        for body in prog.bodies.values():
            for site in body.sites():
                if site.kind == "call":
                    self._call(site)
                else:
                    self._drop(site)

    def _add(self, e):
        self.effects.append(e)
        self.by_site[e.site.key()].append(e)

    def _call(self, site):
        prog = self.prog
        c = site.callee
        if c is None or c.get("indirect"):
            return
        if prog.local_target(site) is not None:
            return
        path = site.path
        args = site.term["args"]
        body = site.body
        spec = effects.FS.get(path)
        if spec is not None:
            kind = spec[0]
            if kind == "PURE":
                return
            ci = spec[1]
            classes = self._classes(body, args[ci]) if ci is not None and ci < len(args) else set()
            mode = None
            classes2 = set()
            if kind == "FS_OPEN":
                if len(spec) > 2:
                    mode = set(spec[2])
                else:
                    mode = fold_open_mode(body, args[0])
            if kind == "FS_RENAME":
                classes2 = self._classes(body, args[spec[2]])
            self._add(Effect(kind, site, classes, classes2, mode))
            return
        if path in effects.LOCK_ACQ:
            return       # handled by locks.py
        if path in effects.BLOCKING_WAIT or any(path.startswith(p) for p in effects.BLOCKING_PREFIXES):
            self._add(Effect("BLOCKING_WAIT", site))
            return
        if path in effects.LEAK:
            tys = [prog.ty_str(body.locals[place_of(a)["l"]]) for a in args if place_of(a)]
            self._add(Effect("LEAK", site, tys))
            return
        # unclassified?
        if c.get("rlocal"):
            return
        if path.startswith(effects.PURE_OK_PREFIXES) or (site.resolved or "").startswith(effects.PURE_OK_PREFIXES):
            return
        sens = False
        for a in args:
            pl = place_of(a)
            if pl is None:
                continue
            d, _ = prog.adt_of(body.locals[pl["l"]])
            if d in effects.SENSITIVE_TYPES:
                sens = True
        if not site.term["dest"]["p"]:
            d, _ = prog.adt_of(body.locals[site.term["dest"]["l"]])
            if d in effects.SENSITIVE_TYPES:
                sens = True
        if sens or path.startswith(("std::fs::", "std::os::unix::fs::", "tempfile::", "libc::")):
            self.unclassified.append(site)

    def _drop(self, site):
        prog = self.prog
        body = site.body
        for d in prog.drop_targets(site.term["ty"]):
            if d[0] != "extern":
                continue
            eff = effects.DROP_EFFECTS.get(d[1])
            if eff is None or eff == "LOCK_REL":
                continue
            owner = d[3]
            if owner is not None:
                classes = set(self.vfg.labels.get(owner, ()))
            else:
                classes = self.vfg.labels_of_place(body, site.term["place"])
            self._add(Effect(eff, site, classes, via="drop:" + d[1]))

    def of_kind(self, *kinds):
        return [e for e in self.effects if e.kind in kinds]
