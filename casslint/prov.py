"""Intraprocedural def-use provenance (component H): where does the value of an operand come from,
through copies, moves, borrows, field reads and a small set of value-preserving calls?

A leaf is (kind, data, path):
   ("param", index, path)         a parameter of the body (or a captured variable: ("upvar", index, path))
   ("call", callee, bb, path)     the result of a call that is not value-preserving
   ("const", value, path)         a literal
   ("agg", def, bb, path)         a freshly built aggregate (when the accessed field could not be resolved)
   ("binop", op, bb, path)        arithmetic
   ("field", (adt, name), path)   a field of *self*-like state reached through a parameter is reported as
                                  param + path; ("field", ...) only for statics/unknown bases
   ("unknown", why, path)
`path` is the tuple of crate-local field names read after the leaf (outermost last).
"""
from .core import term_path
from .effects import norm
from .vfg import place_of

TRANSPARENT = set(norm(p) for p in [
    "std::ops::Deref::deref", "std::ops::DerefMut::deref_mut", "std::convert::AsRef::as_ref",
    "std::convert::AsMut::as_mut", "std::borrow::Borrow::borrow", "std::borrow::BorrowMut::borrow_mut",
    "std::clone::Clone::clone", "std::path::Path::to_path_buf", "std::borrow::ToOwned::to_owned",
    "std::path::PathBuf::as_path", "std::convert::Into::into", "std::convert::From::from",
    "std::option::Option::<&T>::copied", "std::option::Option::<&T>::cloned",
    "std::option::Option::<T>::as_ref", "std::option::Option::<T>::as_mut",
    "std::option::Option::<T>::unwrap", "std::option::Option::<T>::expect",
    "std::ops::Try::branch", "std::result::Result::<T, E>::map_err", "std::path::Path::new",
    "std::vec::Vec::<T, A>::as_slice", "core::slice::<impl [T]>::to_vec", "std::slice::<impl [T]>::to_vec",
    "std::string::String::as_bytes", "std::string::String::as_str", "std::iter::IntoIterator::into_iter",
    "std::iter::Iterator::next", "core::slice::<impl [T]>::iter", "std::iter::Iterator::copied",
    "std::iter::Iterator::cloned", "std::num::NonZero::<T>::get", "blake3::Hash::as_bytes",
    "std::hint::must_use", "std::convert::TryInto::try_into", "std::convert::TryFrom::try_from",
    "std::result::Result::<T, E>::ok", "std::io::BufWriter::<W>::get_ref", "std::io::BufWriter::<W>::get_mut",
    "std::sync::Arc::<T>::new", "std::boxed::Box::<T>::new", "std::option::Option::<T>::take",
    "std::ptr::mut_ptr::<impl *mut T>::cast", "std::ptr::const_ptr::<impl *const T>::cast",
    "core::slice::<impl [T]>::as_mut_ptr", "core::slice::<impl [T]>::as_ptr",
])
# value-or-default adapters: the result is the payload of the first argument or the second argument
OR_DEFAULT = set(norm(p) for p in [
    "std::result::Result::<T, E>::unwrap_or", "std::option::Option::<T>::unwrap_or",
])


class Slicer(object):
    def __init__(self, world, body, transparent=None, local_transparent=(), follow_local=True):
        self.world = world
        self.prog = world.prog
        self.body = body
        self.transparent = TRANSPARENT if transparent is None else transparent
        self.local_transparent = set(local_transparent)
        self.follow_local = follow_local
        self._memo = {}

    def leaves_of_operand(self, op, path=()):
        if "const" in op:
            c = op["const"]
            v = c.get("v", c.get("str", c.get("named", c.get("fn", "?"))))
            return {("const", v, tuple(path))}
        pl = place_of(op)
        if pl is None:
            return {("unknown", "operand", tuple(path))}
        return self.leaves_of_place(pl, path)

    def leaves_of_place(self, pl, path=()):
        # collect crate-local field names of the projection (innermost first)
        names = []
        for e in pl["p"]:
            if isinstance(e, dict) and "f" in e:
                if e.get("adt") in self.prog.adts and "n" in e:
                    names.append(e["n"])
                elif e.get("upvar"):
                    names.append("<upvar%d>" % e["f"])
        return self._local(pl["l"], tuple(names) + tuple(path), frozenset())

    def _local(self, l, path, visiting):
        key = (l, path)
        if key in self._memo:
            return self._memo[key]
        if key in visiting:
            return set()
        visiting = visiting | {key}
        body = self.body
        out = set()
        defs = body.assignments().get(l, [])
        if 1 <= l <= body.argc:
            if body.is_closure and l == 1 and path and path[0].startswith("<upvar"):
                out.add(("upvar", int(path[0][6:-1]), tuple(path[1:])))
            else:
                out.add(("param", l, tuple(path)))
        if not defs and not (1 <= l <= body.argc):
            # assigned only through projections (e.g. field-wise init) or never
            out.add(("unknown", "no-def:_%d" % l, tuple(path)))
        for (bb, j, rv) in defs:
            if j == "term":
                out |= self._call(bb, rv, path, visiting)
                continue
            k = rv["k"]
            if k == "use":
                out |= self._operand(rv["op"], path, visiting)
            elif k in ("ref", "rawptr"):
                out |= self._place(rv["place"], path, visiting)
            elif k == "cast":
                out |= self._operand(rv["op"], path, visiting)
            elif k == "agg":
                ak = rv["ak"]
                if ak == "adt" and rv["def"] in self.prog.adts:
                    if path and path[0] in rv["fields"]:
                        idx = rv["fields"].index(path[0])
                        out |= self._operand(rv["ops"][idx], path[1:], visiting)
                    elif not path and len(rv["ops"]) == 1 and len(rv["fields"]) == 1:
                        # newtype wrapper: same information as its only field
                        out |= self._operand(rv["ops"][0], path, visiting)
                    elif not path:
                        out.add(("agg", rv["def"], bb, ()))
                    else:
                        out.add(("agg", rv["def"], bb, tuple(path)))
                elif ak == "closure":
                    out.add(("agg", "closure:" + rv["def"], bb, tuple(path)))
                else:
                    if not rv["ops"]:
                        out.add(("agg", rv.get("def", ak) + "::" + rv.get("vn", ""), bb, tuple(path)))
                    for op in rv["ops"]:
                        out |= self._operand(op, path, visiting)
            elif k == "binop":
                out.add(("binop", rv["op"], bb, tuple(path)))
            elif k == "unop":
                out |= self._operand(rv["a"], path, visiting)
            elif k == "discr":
                out.add(("discr", None, bb, tuple(path)))
            elif k == "repeat":
                out |= self._operand(rv["op"], path, visiting)
            else:
                out.add(("unknown", k, tuple(path)))
        self._memo[key] = out
        return out

    def _operand(self, op, path, visiting):
        if "const" in op:
            c = op["const"]
            v = c.get("v", c.get("str", c.get("named", c.get("fn", "?"))))
            return {("const", v, tuple(path))}
        pl = place_of(op)
        if pl is None:
            return {("unknown", "operand", tuple(path))}
        return self._place(pl, path, visiting)

    def _place(self, pl, path, visiting):
        names = []
        for e in pl["p"]:
            if isinstance(e, dict) and "f" in e:
                if e.get("adt") in self.prog.adts and "n" in e:
                    names.append(e["n"])
                elif e.get("upvar"):
                    names.append("<upvar%d>" % e["f"])
        return self._local(pl["l"], tuple(names) + tuple(path), visiting)

    def _call(self, bb, t, path, visiting):
        p = term_path(t)
        if p is None:
            return {("call", "<indirect>", bb, tuple(path))}
        if (p in self.transparent or p in self.local_transparent) and t["args"]:
            return self._operand(t["args"][0], path, visiting)
        if p in OR_DEFAULT and len(t["args"]) == 2:
            return self._operand(t["args"][0], path, visiting) | self._operand(t["args"][1], path, visiting)
        # a crate-local function whose result is (a newtype of / a field of) its parameters only
        c = t.get("callee") or {}
        if self.follow_local and c.get("rk") == "item" and c.get("rlocal"):
            tgt = self.prog.bodies.get(c.get("resolved"))
            ret = _return_leaves(self.world, tgt) if tgt is not None else None
            if ret is not None:
                out = set()
                for (_, i, ppath) in ret:
                    if i - 1 < len(t["args"]):
                        out |= self._operand(t["args"][i - 1], tuple(ppath) + tuple(path), visiting)
                return out
        return {("call", p, bb, tuple(path))}

    # convenience -------------------------------------------------------------------------
    def call_leaves(self, op):
        return set(l for l in self.leaves_of_operand(op) if l[0] == "call")

    def call_at(self, bb):
        return self.body.blocks[bb]["term"]


_RET_CACHE = {}


def _return_leaves(world, body, depth=0):
    """Leaves of the return value of a local body if they are all parameters (a value-preserving
    wrapper such as a newtype constructor or a getter); else None."""
    key = (id(world), body.path)
    if key in _RET_CACHE:
        return _RET_CACHE[key]
    _RET_CACHE[key] = None
    if len(body.blocks) > 12:
        return None
    sl = Slicer(world, body)
    leaves = sl.leaves_of_place({"l": 0, "p": []})
    res = None
    if leaves and all(l[0] == "param" for l in leaves):
        res = leaves
    _RET_CACHE[key] = res
    return res


def fmt_leaf(l):
    k = l[0]
    if k == "param":
        s = "param#%d" % l[1]
    elif k == "upvar":
        s = "captured#%d" % l[1]
    elif k == "call":
        s = "%s(..)@bb%d" % (l[1], l[2])
    elif k == "const":
        s = "const %r" % (l[1],)
    elif k in ("agg", "binop", "discr"):
        s = "%s:%s@bb%d" % (k, l[1], l[2])
    else:
        s = "%s:%s" % (k, l[1])
    path = l[-1]
    if path:
        s += "." + ".".join(path)
    return s


def binops_in(body, bb):
    """[(lhs local, op, a operand, b operand)] of the binary operations in a block."""
    out = []
    for s in body.stmts(bb):
        if s["k"] == "assign" and s["rv"]["k"] == "binop":
            out.append((s["lhs"]["l"], s["rv"]["op"], s["rv"]["a"], s["rv"]["b"]))
    return out


def root_local(body, op, through_casts=True):
    """The local an operand copies (through `_a = copy _b` chains and integer casts); None for constants."""
    pl = place_of(op)
    if pl is None:
        return None
    l = pl["l"]
    if pl["p"]:
        # tuple field of a checked-arithmetic result: (_x.0) - keep the tuple local
        return ("proj", l, tuple(str(e) if not isinstance(e, dict) else e.get("f", e.get("dc")) for e in pl["p"]))
    for _ in range(12):
        defs = body.assignments().get(l, [])
        if len(defs) != 1 or defs[0][1] == "term":
            return l
        rv = defs[0][2]
        if rv["k"] == "use" or (through_casts and rv["k"] == "cast" and rv.get("ck") == "int2int"):
            p2 = place_of(rv["op"])
            if p2 is None:
                return l
            if p2["p"]:
                return l
            l = p2["l"]
            continue
        if rv["k"] == "ref" and rv["place"]["p"] == ["deref"]:
            l = rv["place"]["l"]          # reborrow `&*x`
            continue
        return l
    return l
