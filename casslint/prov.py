"""Intraprocedural def-use provenance (component H): where does the value of an operand come from,
through copies, moves, borrows, field reads and a small set of value-preserving calls?

A leaf is (kind, data, path):
   ("param", index, path)         a parameter of the body (or a captured variable: ("upvar", index, path))
   ("call", callee, bb, path)     the result of a call that is not value-preserving
   ("const", value, path)         a literal
   ("agg", def, bb, path)         a freshly built aggregate (when the accessed field could not be resolved)
   ("binop", op, bb, path)        arithmetic
   ("field", (adt, name), path)   a field of *self*-like state reached through a parameter is reported as
                                  param + path; ("field", ...) only for statics/unknown bases
   ("unknown", why, path)
`path` is the tuple of crate-local field names read after the leaf (outermost last).
"""
from .core import term_path
from .effects import norm
from .vfg import place_of

TRANSPARENT = set(norm(p) for p in [
    "std::ops::Deref::deref", "std::ops::DerefMut::deref_mut", "std::convert::AsRef::as_ref",
    "std::convert::AsMut::as_mut", "std::borrow::Borrow::borrow", "std::borrow::BorrowMut::borrow_mut",
    "std::clone::Clone::clone", "std::path::Path::to_path_buf", "std::borrow::ToOwned::to_owned",
    "std::path::PathBuf::as_path", "std::convert::Into::into", "std::convert::From::from",
    "std::option::Option::<&T>::copied", "std::option::Option::<&T>::cloned",
    "std::option::Option::<T>::as_ref", "std::option::Option::<T>::as_mut", "std::num::NonZero::<T>::get",
    "std::option::Option::<T>::unwrap", "std::option::Option::<T>::expect",
    "std::result::Result::<T, E>::unwrap", "std::result::Result::<T, E>::expect",
    "std::option::Option::<T>::ok_or", "std::option::Option::<T>::ok_or_else",
    "std::mem::ManuallyDrop::<T>::into_inner", "std::mem::ManuallyDrop::<T>::new",
    "std::ops::Try::branch", "std::result::Result::<T, E>::map_err", "std::path::Path::new",
    "std::vec::Vec::<T, A>::as_slice", "core::slice::<impl [T]>::to_vec", "std::slice::<impl [T]>::to_vec",
    "std::string::String::as_bytes", "std::string::String::as_str", "std::iter::IntoIterator::into_iter",
    "std::iter::Iterator::next", "core::slice::<impl [T]>::iter", "std::iter::Iterator::copied",
    "std::iter::Iterator::cloned", "std::num::NonZero::<T>::get", "blake3::Hash::as_bytes",
    "std::hint::must_use", "std::convert::TryInto::try_into", "std::convert::TryFrom::try_from",
    "std::result::Result::<T, E>::ok", "std::io::BufWriter::<W>::get_ref", "std::io::BufWriter::<W>::get_mut",
    "std::sync::Arc::<T>::new", "std::boxed::Box::<T>::new", "std::option::Option::<T>::take",
    "std::ptr::mut_ptr::<impl *mut T>::cast", "std::ptr::const_ptr::<impl *const T>::cast",
    "core::slice::<impl [T]>::as_mut_ptr", "core::slice::<impl [T]>::as_ptr",
])
# value-or-default adapters: the result is the payload of the first argument or the second argument
# iterator adaptors whose items are items of the iterator they wrap (first argument)
ITER_PRESERVING = set(norm(p) for p in [
    "std::iter::Iterator::filter", "std::iter::Iterator::rev", "std::iter::Iterator::skip", "std::iter::Iterator::take",
    "std::iter::Iterator::skip_while", "std::iter::Iterator::take_while", "std::iter::Iterator::peekable",
    "std::iter::Iterator::by_ref", "std::iter::Iterator::fuse", "std::iter::Iterator::inspect",
    "std::iter::Iterator::step_by", "std::vec::Vec::<T, A>::iter", "std::collections::VecDeque::<T, A>::iter",
])

MAP_FAMILY = set(norm(p) for p in [
    "std::result::Result::<T, E>::map", "std::option::Option::<T>::map",
])

OR_DEFAULT = set(norm(p) for p in [
    "std::result::Result::<T, E>::unwrap_or", "std::option::Option::<T>::unwrap_or",
])


class Slicer(object):
    def __init__(self, world, body, transparent=None, local_transparent=(), follow_local=True, skip_err=False):
        self.skip_err = skip_err
        self.world = world
        self.prog = world.prog
        self.body = body
        self.transparent = TRANSPARENT if transparent is None else transparent
        self.local_transparent = set(local_transparent)
        self.follow_local = follow_local
        self._memo = {}

    def leaves_of_operand(self, op, path=()):
        if "const" in op:
            c = op["const"]
            v = c.get("v", c.get("str", c.get("named", c.get("fn", "?"))))
            return {("const", v, tuple(path))}
        pl = place_of(op)
        if pl is None:
            return {("unknown", "operand", tuple(path))}
        return self.leaves_of_place(pl, path)

    def leaves_of_place(self, pl, path=()):
        # collect crate-local field names of the projection (innermost first)
        names = []
        for e in pl["p"]:
            if isinstance(e, dict) and "f" in e:
                if e.get("adt") in self.prog.adts and "n" in e:
                    names.append(e["n"])
                elif e.get("upvar"):
                    names.append("<upvar%d>" % e["f"])
                elif "adt" not in e:
                    names.append("#%d" % e["f"])     # tuple component
        return self._local(pl["l"], tuple(names) + tuple(path), frozenset())

    def _local(self, l, path, visiting):
        key = (l, path)
        if key in self._memo:
            return self._memo[key]
        if key in visiting:
            return set()
        visiting = visiting | {key}
        body = self.body
        out = set()
        defs = body.assignments().get(l, [])
        if 1 <= l <= body.argc:
            if body.is_closure and l == 1 and path and path[0].startswith("<upvar"):
                out.add(("upvar", int(path[0][6:-1]), tuple(path[1:])))
            else:
                out.add(("param", l, tuple(path)))
        if not defs and not (1 <= l <= body.argc):
            # assigned only through projections (e.g. field-wise init) or never
            out.add(("unknown", "no-def:_%d" % l, tuple(path)))
        for (bb, j, rv) in defs:
            if j == "term":
                out |= self._call(bb, rv, path, visiting)
                continue
            k = rv["k"]
            if k == "use":
                out |= self._operand(rv["op"], path, visiting)
            elif k in ("ref", "rawptr"):
                out |= self._place(rv["place"], path, visiting)
            elif k == "cast":
                out |= self._operand(rv["op"], path, visiting)
            elif k == "agg":
                ak = rv["ak"]
                if ak == "adt" and rv["def"] in self.prog.adts:
                    if path and path[0] in rv["fields"]:
                        idx = rv["fields"].index(path[0])
                        out |= self._operand(rv["ops"][idx], path[1:], visiting)
                    elif not path and len(rv["ops"]) == 1 and len(rv["fields"]) == 1:
                        # newtype wrapper: same information as its only field
                        out |= self._operand(rv["ops"][0], path, visiting)
                    elif not path:
                        out.add(("agg", rv["def"], bb, ()))
                    elif self.prog.adts[rv["def"]]["kind"] == "Enum" and not path[0].startswith("#") and \
                            not path[0].isdigit() and any(
                                path[0] in [f["name"] for f in v["fields"]] for v in self.prog.adts[rv["def"]]["variants"]):
                        # `(stage as Announced).blob_hash`: a value of another variant (which has no such field) built
                        # elsewhere is not where this field comes from
                        pass
                    else:
                        out.add(("agg", rv["def"], bb, tuple(path)))
                elif ak == "closure":
                    if path and path[0].startswith("<upvar") and path[0][6:-1].isdigit() and \
                            int(path[0][6:-1]) < len(rv["ops"]):
                        # a capture read back out of the closure value (the closure's body inlined into a view)
                        out |= self._operand(rv["ops"][int(path[0][6:-1])], path[1:], visiting)
                    else:
                        out.add(("agg", "closure:" + rv["def"], bb, tuple(path)))
                elif self.skip_err and rv.get("def") == "std::result::Result" and rv.get("vn") == "Err":
                    pass
                elif ak == "tuple" and path and path[0].startswith("#") and int(path[0][1:]) < len(rv["ops"]):
                    out |= self._operand(rv["ops"][int(path[0][1:])], path[1:], visiting)
                else:
                    if not rv["ops"]:
                        out.add(("agg", rv.get("def", ak) + "::" + rv.get("vn", ""), bb, tuple(path)))
                    for op in rv["ops"]:
                        out |= self._operand(op, path, visiting)
            elif k == "binop":
                out.add(("binop", rv["op"], bb, tuple(path)))
            elif k == "unop":
                out |= self._operand(rv["a"], path, visiting)
            elif k == "discr":
                out.add(("discr", None, bb, tuple(path)))
            elif k == "repeat":
                out |= self._operand(rv["op"], path, visiting)
            else:
                out.add(("unknown", k, tuple(path)))
        self._memo[key] = out
        return out

    def _operand(self, op, path, visiting):
        if "const" in op:
            c = op["const"]
            v = c.get("v", c.get("str", c.get("named", c.get("fn", "?"))))
            return {("const", v, tuple(path))}
        pl = place_of(op)
        if pl is None:
            return {("unknown", "operand", tuple(path))}
        return self._place(pl, path, visiting)

    def _place(self, pl, path, visiting):
        names = []
        for e in pl["p"]:
            if isinstance(e, dict) and "f" in e:
                if e.get("adt") in self.prog.adts and "n" in e:
                    names.append(e["n"])
                elif e.get("upvar"):
                    names.append("<upvar%d>" % e["f"])
                elif "adt" not in e:
                    names.append("#%d" % e["f"])     # tuple component
        return self._local(pl["l"], tuple(names) + tuple(path), visiting)

    def _call(self, bb, t, path, visiting):
        p = term_path(t)
        if p is None:
            return {("call", "<indirect>", bb, tuple(path))}
        if (p in self.transparent or p in self.local_transparent) and t["args"]:
            return self._operand(t["args"][0], path, visiting)
        if p in OR_DEFAULT and len(t["args"]) == 2:
            return self._operand(t["args"][0], path, visiting) | self._operand(t["args"][1], path, visiting)
        # `.map(|(a, _, c)| (a, c))`: a closure that only re-packs components of its parameter
        if p in MAP_FAMILY and len(t["args"]) == 2 and self.follow_local:
            cl = [l for l in self._operand(t["args"][1], (), visiting)]
            if len(cl) == 1 and cl[0][0] == "agg" and str(cl[0][1]).startswith("closure:"):
                cb = self.prog.bodies.get(cl[0][1][len("closure:"):])
                if cb is not None and len(cb.blocks) <= 12:
                    sub = Slicer(self.world, cb).leaves_of_place({"l": 0, "p": []}, tuple(path))
                    if sub and all(x[0] == "param" and x[1] == 2 for x in sub):
                        out = set()
                        for x in sub:
                            out |= self._operand(t["args"][0], tuple(x[2]), visiting)
                        return out
        # a crate-local function whose result is (a newtype of / a field of) its parameters only
        c = t.get("callee") or {}
        if self.follow_local and c.get("rk") == "item" and c.get("rlocal"):
            tgt = self.prog.bodies.get(c.get("resolved"))
            ret = _return_leaves(self.world, tgt) if tgt is not None else None
            if ret is not None:
                out = set()
                for (_, i, ppath) in ret:
                    if i - 1 < len(t["args"]):
                        out |= self._operand(t["args"][i - 1], tuple(ppath) + tuple(path), visiting)
                return out
        return {("call", p, bb, tuple(path))}

    # convenience -------------------------------------------------------------------------
    def leaves_of_rv(self, rv, bb):
        """Leaves of an rvalue as it stands in an assignment: a checked `x += n` is `x = move (_t.0)` (use of the
        overflow-check tuple), an unchecked one is `x = Add(x, n)` - both come out as a binop leaf."""
        k = rv["k"]
        if k in ("use", "cast"):
            return self.leaves_of_operand(rv["op"])
        if k == "binop":
            return {("binop", rv["op"], bb, ())}
        if k == "unop":
            return self.leaves_of_operand(rv["a"])
        return {("unknown", k, ())}

    def leaves_up(self, op, path=(), depth=3):
        """leaves_of_operand, with the parameters of crate-private helpers replaced by the origins of the arguments
        at every call site (so that extracting a helper does not hide where a value comes from)."""
        return expand_up(self.world, self.body, self.leaves_of_operand(op, path), depth, self)

    def place_leaves_up(self, pl, path=(), depth=3):
        return expand_up(self.world, self.body, self.leaves_of_place(pl, path), depth, self)

    def call_leaves(self, op):
        return set(l for l in self.leaves_of_operand(op) if l[0] == "call")

    def call_at(self, bb):
        if isinstance(bb, tuple):
            return self.prog.bodies[bb[0]].blocks[bb[1]]["term"]
        return self.body.blocks[bb]["term"]

    def at(self, bb):
        """The slicer of the body a (possibly foreign) leaf location lies in."""
        if not isinstance(bb, tuple) or bb[0] == self.body.path:
            return self
        return Slicer(self.world, self.prog.bodies[bb[0]], transparent=self.transparent,
                      local_transparent=self.local_transparent, follow_local=self.follow_local)

    def body_at(self, bb):
        return self.prog.bodies[bb[0]] if isinstance(bb, tuple) else self.body


def _is_root(body):
    return bool(body.reachable) and not body.is_closure


def _closure_sites(prog, closure_path):
    idx = getattr(prog, "_closure_sites", None)
    if idx is None:
        idx = {}
        for b in prog.bodies.values():
            for bb, blk in enumerate(b.blocks):
                for st in blk["stmts"]:
                    if st["k"] == "assign" and st["rv"]["k"] == "agg" and st["rv"].get("ak") == "closure":
                        idx.setdefault(st["rv"]["def"], []).append((b, bb, st["rv"]))
        prog._closure_sites = idx
    return idx.get(closure_path, [])


def _tag(leaf, body):
    k = leaf[0]
    if k in ("call", "agg", "binop", "discr") and not isinstance(leaf[2], tuple):
        return (k, leaf[1], (body.path, leaf[2])) + tuple(leaf[3:])
    return leaf


def expand_down(world, body, leaves, depth=4, _seen=None, stop=()):
    """Replaces the result of a call to a crate-local function by the origins of what that function returns on its
    Ok path (the parameters among them mapped back to the arguments of the call), recursively."""
    from .core import Site
    prog = world.prog
    _seen = _seen or frozenset()
    out = set()
    for l in leaves:
        if l[0] == "call" and depth > 0:
            lb = prog.bodies[l[2][0]] if isinstance(l[2], tuple) else body
            bb = l[2][1] if isinstance(l[2], tuple) else l[2]
            t = lb.blocks[bb]["term"]
            tgt = prog.local_target(Site(lb, bb, t))
            if tgt is not None and (tgt.path, l[3]) not in _seen and tgt.path not in stop:
                sl = Slicer(world, tgt, skip_err=True)
                sub = sl.leaves_of_place({"l": 0, "p": []}, l[3])
                sub = set(x for x in sub if not (x[0] == "call" and (x[1] or "").endswith("from_residual")))
                res = set()
                csl = Slicer(world, lb, skip_err=True)
                for x in sub:
                    if x[0] == "param" and x[1] - 1 < len(t["args"]):
                        for y in csl.leaves_of_operand(t["args"][x[1] - 1], x[2]):
                            res.add(_tag(y, lb) if lb is not body else y)
                    else:
                        res.add(_tag(x, tgt))
                out |= expand_down(world, body, res, depth - 1, _seen | {(tgt.path, l[3])}, stop)
                continue
        out.add(l)
    return out


def expand_up(world, body, leaves, depth=3, slicer=None, _seen=None):
    prog = world.prog
    _seen = _seen or frozenset()
    out = set()
    for l in leaves:
        if l[0] == "param" and not _is_root(body) and depth > 0 and (body.path, l[1]) not in _seen:
            callers = prog.callers_index().get(body.path, [])
            direct = [(site, how) for site, how in callers if how == "direct" and site.kind == "call"]
            if direct and len(direct) == len(callers):
                seen2 = _seen | {(body.path, l[1])}
                for site, how in direct:
                    args = site.term["args"]
                    if l[1] - 1 >= len(args):
                        out.add(("unknown", "arity", l[2]))
                        continue
                    cb = site.body
                    sl = Slicer(world, cb, transparent=None if slicer is None else slicer.transparent,
                                local_transparent=() if slicer is None else slicer.local_transparent,
                                follow_local=True if slicer is None else slicer.follow_local)
                    sub = sl.leaves_of_operand(args[l[1] - 1], l[2])
                    sub = expand_up(world, cb, sub, depth - 1, slicer, seen2)
                    for x in sub:
                        if x[0] == "param":
                            x = ("xparam", (cb.path, x[1]), x[2])
                        elif x[0] == "upvar":
                            x = ("xupvar", (cb.path, x[1]), x[2])
                        out.add(_tag(x, cb))
                continue
        if l[0] == "upvar" and body.is_closure and depth > 0 and (body.path, -l[1] - 1) not in _seen:
            sites = _closure_sites(prog, body.path)
            if sites:
                seen2 = _seen | {(body.path, -l[1] - 1)}
                for (pb, bb, rv) in sites:
                    if l[1] >= len(rv["ops"]):
                        out.add(("unknown", "upvar-arity", l[2]))
                        continue
                    sl = Slicer(world, pb, transparent=None if slicer is None else slicer.transparent,
                                local_transparent=() if slicer is None else slicer.local_transparent,
                                follow_local=True if slicer is None else slicer.follow_local)
                    sub = sl.leaves_of_operand(rv["ops"][l[1]], l[2])
                    sub = expand_up(world, pb, sub, depth - 1, slicer, seen2)
                    for x in sub:
                        if x[0] == "param":
                            x = ("xparam", (pb.path, x[1]), x[2])
                        elif x[0] == "upvar":
                            x = ("xupvar", (pb.path, x[1]), x[2])
                        out.add(_tag(x, pb))
                continue
        out.add(l)
    return out


_RET_CACHE = {}


def _return_leaves(world, body, depth=0):
    """Leaves of the return value of a local body if they are all parameters (a value-preserving
    wrapper such as a newtype constructor or a getter); else None."""
    key = (id(world), body.path)
    if key in _RET_CACHE:
        return _RET_CACHE[key]
    _RET_CACHE[key] = None
    if len(body.blocks) > 12:
        return None
    sl = Slicer(world, body)
    leaves = sl.leaves_of_place({"l": 0, "p": []})
    res = None
    if leaves and all(l[0] == "param" for l in leaves):
        res = leaves
    _RET_CACHE[key] = res
    return res


def fmt_leaf(l):
    k = l[0]
    if k == "param":
        s = "param#%d" % l[1]
    elif k in ("xparam", "xupvar"):
        s = "%s#%d of %s" % ("param" if k == "xparam" else "captured", l[1][1], l[1][0])
    elif k == "upvar":
        s = "captured#%d" % l[1]
    elif k == "call":
        s = "%s(..)@bb%s" % (l[1], l[2] if not isinstance(l[2], tuple) else "%s:%d" % l[2])
    elif k == "const":
        s = "const %r" % (l[1],)
    elif k in ("agg", "binop", "discr"):
        s = "%s:%s@bb%s" % (k, l[1], l[2] if not isinstance(l[2], tuple) else "%s:%d" % l[2])
    else:
        s = "%s:%s" % (k, l[1])
    path = l[-1]
    if path:
        s += "." + ".".join(path)
    return s


def binops_in(body, bb):
    """[(lhs local, op, a operand, b operand)] of the binary operations in a block."""
    out = []
    for s in body.stmts(bb):
        if s["k"] == "assign" and s["rv"]["k"] == "binop":
            out.append((s["lhs"]["l"], s["rv"]["op"], s["rv"]["a"], s["rv"]["b"]))
    return out


def root_local(body, op, through_casts=True, fields=False):
    """The local an operand copies (through `_a = copy _b` chains and integer casts); None for constants.
    fields=True: a copy of a struct field (possibly through `&mut self` of an inlined helper) is identified by the
    canonical place ("place", local, (field names..)) instead of by the temporary that holds the copy."""
    pl = place_of(op)
    if pl is None:
        return None
    l = pl["l"]
    if fields and pl["p"] and all(e == "deref" or (isinstance(e, dict) and "f" in e and "adt" in e) for e in pl["p"]):
        from .cfgutil import canon_place
        cl, cf = canon_place(body, pl)
        if cf:
            return ("place", cl, cf)
    if pl["p"]:
        # tuple field of a checked-arithmetic result: (_x.0) - keep the tuple local
        return ("proj", l, tuple(str(e) if not isinstance(e, dict) else e.get("f", e.get("dc")) for e in pl["p"]))
    for _ in range(12):
        defs = body.assignments().get(l, [])
        if len(defs) != 1 or defs[0][1] == "term":
            return l
        rv = defs[0][2]
        if rv["k"] == "use" or (through_casts and rv["k"] == "cast" and rv.get("ck") == "int2int"):
            p2 = place_of(rv["op"])
            if p2 is None:
                return l
            if p2["p"]:
                if fields and all(e == "deref" or (isinstance(e, dict) and "f" in e and "adt" in e) for e in p2["p"]):
                    from .cfgutil import canon_place
                    cl, cf = canon_place(body, p2)
                    if cf:
                        return ("place", cl, cf)
                return l
            l = p2["l"]
            continue
        if rv["k"] == "ref" and rv["place"]["p"] == ["deref"]:
            l = rv["place"]["l"]          # reborrow `&*x`
            continue
        return l
    return l
