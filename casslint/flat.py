"""Flat views: a body with the crate-private helpers it calls inlined (bounded depth).

Rules that reason inside one function (dominance, provenance, path enumeration) are otherwise sensitive to where
a maintainer draws function boundaries: extracting a block into a private helper, or splitting a function in two,
would hide half of the shape they look for.  A flat view is a synthetic MIR body built from the original facts:

  * every call whose target the policy accepts is replaced by `param_i = arg_i ; goto <copy of the callee>`;
  * the callee's blocks are copied with locals and block numbers shifted, its `return`s become
    `dest = _0' ; goto <continuation>`;
  * generic `F::call*` sites bound to exactly one closure are inlined the same way (closure env = first argument,
    the tuple's components = the remaining parameters).

Each block remembers the original (body path, block) it came from: `Site.key()` of a flat site is the key of the
original site, so effect tables, container uses and the interprocedural analyses (which run on the original program)
are looked up unchanged.  The view is semantically the original program seen from one entry point."""
from .core import Body, Site, FN_TRAIT_CALLS


def _ren(x, loff, boff):
    """Deep copy of a statement/terminator with locals shifted by loff and block numbers by boff."""
    if isinstance(x, dict):
        if "l" in x and "p" in x and isinstance(x["l"], int) and isinstance(x["p"], list):
            return {"l": x["l"] + loff, "p": [_ren_proj(e, loff) for e in x["p"]]}
        out = {}
        k = x.get("k")
        for key, v in x.items():
            if key in ("t", "unwind", "otherwise") and isinstance(v, int) and k in (
                    "goto", "call", "drop", "assert", "switch"):
                out[key] = v + boff
            elif key == "targets" and k == "switch":
                out[key] = [[val, b + boff] for val, b in v]
            elif key == "l" and k in ("dead", "live") and isinstance(v, int):
                out[key] = v + loff
            elif key in ("callee", "span"):
                out[key] = v            # shared, read-only
            else:
                out[key] = _ren(v, loff, boff)
        return out
    if isinstance(x, list):
        return [_ren(v, loff, boff) for v in x]
    return x


def _ren_proj(e, loff):
    if isinstance(e, dict) and "idx" in e and isinstance(e["idx"], int):
        d = dict(e)
        d["idx"] = e["idx"] + loff
        return d
    return e


class FlatBody(Body):
    def __init__(self, prog, raw, origin, inlined, envs=None, lorigin=None):
        Body.__init__(self, prog, raw)
        self.lorigin = lorigin or []  # per local: (original body path, original local)
        self.origin = origin          # per block: (original body path, original bb)
        self.inlined = inlined        # paths of the bodies that were inlined (at least once)
        self.envs = envs or []        # per block: generic parameter name -> closure def, in this inlining context
        self.is_flat = True
        FlatBody._n = getattr(FlatBody, "_n", 0) + 1
        self.flow_key = "view#%d:%s" % (FlatBody._n, raw.get("path"))

    def origin_key(self, bb):
        return self.origin[bb]

    def origin_body(self, bb):
        return self.prog.bodies[self.origin[bb][0]]

    def local_key(self, l):
        return self.lorigin[l] if l < len(self.lorigin) else (self.path, l)

    def orig_site(self, site):
        """The same call/drop as a Site of the original program."""
        p, obb = self.origin[site.bb]
        ob = self.prog.bodies[p]
        return Site(ob, obb, ob.blocks[obb]["term"])


def default_policy(prog, stop=()):
    """Inline crate-private functions called directly, and generic-parameter closures bound to one closure."""
    stop = set(stop)

    def pol(site, tgt, how):
        if tgt.path in stop:
            return False
        if tgt.raw.get("impl_trait") == "std::iter::Iterator" and tgt.path.endswith("::next"):
            return False        # the iteration protocol stays visible: `next` calls are what rules recognise loops by
        if how == "direct":
            return not tgt.reachable or tgt.is_closure
        if how == "param":
            return True
        return False
    return pol


def flatten(prog, body, policy=None, depth=4, max_blocks=6000, env0=None, thread_calls=False):
    policy = policy or default_policy(prog)
    locals_ = list(body.locals)
    lorigin = [(body.path, j) for j in range(len(body.locals))]
    names = [dict(n) for n in body.raw.get("names", [])]
    blocks = []
    origin = []
    meta = []       # per block: (depth, call stack, env: generic parameter name -> closure def bound in this context)
    for i, blk in enumerate(body.blocks):
        blocks.append(_ren(blk, 0, 0))
        origin.append((body.path, i))
        meta.append((0, (body.path,), dict(env0 or {})))
    inlined = set()
    i = 0
    while i < len(blocks) and len(blocks) < max_blocks:
        blk = blocks[i]
        t = blk["term"]
        d, stack, env = meta[i]
        if t["k"] == "call" and not blk.get("cleanup") and d < depth:
            ob = prog.bodies[origin[i][0]]
            if _desugar_iter(prog, blocks, origin, meta, locals_, names, lorigin, inlined, i, d, stack, env, max_blocks):
                i += 1
                continue
            if _desugar_comb(prog, blocks, origin, meta, locals_, names, lorigin, inlined, i, d, stack, env, max_blocks):
                i += 1
                continue
            # (a synthetic call - the `next` of a desugared adaptor - is resolved by its own terminator)
            osite = Site(ob, origin[i][1], ob.blocks[origin[i][1]]["term"])
            if blk.get("synth"):
                # the `next` of a desugared adaptor: resolved by its own callee (its operands are locals of the view)
                cc = t.get("callee") or {}
                tb = prog.bodies.get(cc.get("resolved")) if cc.get("rlocal") else None
                tgts = [(tb, "direct")] if tb is not None else []
                osite = Site(ob, origin[i][1], dict(t, args=[]))
            else:
                tgts = [(tg, how) for tg, how in prog.call_targets(osite) if how != "extern-cb"]
            if len(tgts) != 1 and env and (t.get("callee") or {}).get("_np") in FN_TRAIT_CALLS:
                # a call of a generic `F`: in this inlining context the parameter is bound to one closure
                ga = [g for g in (t.get("callee") or {}).get("gargs", []) if isinstance(g, int)]
                if ga:
                    st = prog.types[prog.strip_refs(ga[0])]
                    cd = env.get(st.get("name")) if st.get("k") == "param" else None
                    if cd and cd in prog.bodies:
                        tgts = [(prog.bodies[cd], "param")]
            if len(tgts) == 1:
                tgt, how = tgts[0]
                if tgt.path not in stack and policy(osite, tgt, how) and len(tgt.blocks) + len(blocks) < max_blocks:
                    _inline(prog, blocks, origin, meta, locals_, names, i, tgt, how, d, stack, env)
                    lorigin.extend((tgt.path, j) for j in range(len(tgt.locals)))
                    inlined.add(tgt.path)
        i += 1
    # (also when nothing was inlined: a state machine written as a loop over an enum of stages is its chain of arms)
    _thread_results(blocks, origin, meta, prog, locals_, thread_calls)
    raw = dict(body.raw)
    raw["blocks"] = blocks
    raw["locals"] = locals_
    raw["names"] = names
    return FlatBody(prog, raw, origin, inlined, [m[2] for m in meta], lorigin)


TRY_BRANCH = "std::ops::Try::branch"
FROM_RESIDUAL = "std::ops::FromResidual::from_residual"

# Whole-iteration adaptors of std::iter::Iterator that run a closure once per item.  In a flat view the call is
# replaced by the loop it stands for - `loop { match iter.next() { Some(x) => closure(acc, x) .., None => break } }` -
# with the closure body inlined, so that every rule that understands a `for` loop understands the adaptor form
# of the same code (`for e in it { .. }`  <->  `it.try_for_each(|e| ..)`, `try_fold`, `for_each`, `fold`).
ITER_LOOPS = {"std::iter::Iterator::try_fold": "try_fold", "std::iter::Iterator::try_for_each": "try_for_each",
              "std::iter::Iterator::for_each": "for_each", "std::iter::Iterator::fold": "fold"}


def thread_view(prog, body):
    """The body itself with jump threading applied (nothing inlined): a `loop { state = match state { A => .. B, B => ..
    } }` state machine whose next state is a literal at the end of every arm becomes the straight chain of arms it
    executes.  None if there is nothing to thread."""
    cache = prog.__dict__.setdefault("_thread_views", {})
    if body.path in cache:
        return cache[body.path]
    cache[body.path] = None
    if getattr(body, "is_flat", False) or len(body.blocks) > 1500:
        return None
    # worth trying only if the body builds a literal of a crate-local enum and switches on a discriminant
    enums = set()
    for blk in body.blocks:
        for st in blk["stmts"]:
            if st["k"] == "assign" and st["rv"]["k"] == "agg" and st["rv"].get("ak") == "adt" and \
                    st["rv"].get("def") in prog.adts and prog.adts[st["rv"]["def"]]["kind"] == "Enum":
                enums.add(st["rv"]["def"])
    if not enums:
        return None
    has = False
    for blk in body.blocks:
        for st in blk["stmts"]:
            if st["k"] == "assign" and st["rv"]["k"] == "discr":
                pl = st["rv"]["place"]
                t = prog.types[prog.strip_refs(body.locals[pl["l"]])] if not pl["p"] else {}
                if t.get("k") == "adt" and t.get("def") in enums:
                    has = True
    if not has:
        return None
    blocks = [_ren(blk, 0, 0) for blk in body.blocks]
    origin = [(body.path, i) for i in range(len(blocks))]
    meta = [(0, (body.path,), {}) for _ in blocks]
    n0 = len(blocks)
    _thread_results(blocks, origin, meta, prog, list(body.locals), True)
    if len(blocks) == n0:
        return None
    raw = dict(body.raw)
    raw["blocks"] = blocks
    V = FlatBody(prog, raw, origin, set(), [m[2] for m in meta], [(body.path, j) for j in range(len(body.locals))])
    cache[body.path] = V
    return V


def _intern_type(prog, desc):
    """Index of a type equal to `desc` (by its rendered form), appended to the type table if new."""
    cache = prog.__dict__.setdefault("_synth_types", {})
    k = desc["s"]
    if k in cache:
        return cache[k]
    for ix, t in enumerate(prog.types):
        if t.get("s") == k and t.get("k") == desc.get("k"):
            cache[k] = ix
            return ix
    prog.types.append(desc)
    cache[k] = len(prog.types) - 1
    return cache[k]


def _desugar_iter(prog, blocks, origin, meta, locals_, names, lorigin, inlined, i, d, stack, env, max_blocks):
    blk = blocks[i]
    t = blk["term"]
    c = t.get("callee") or {}
    kind = ITER_LOOPS.get(c.get("_np") or "") or ITER_LOOPS.get((c.get("path") or "").split("<")[0])
    if kind is None or c.get("local") or t.get("t") is None:
        return False
    args = t["args"]
    want = 3 if kind in ("try_fold", "fold") else 2
    if len(args) != want:
        return False
    cpl = args[-1].get("move") or args[-1].get("copy")
    ipl = args[0].get("move") or args[0].get("copy")
    if cpl is None or cpl["p"] or ipl is None or ipl["p"] or t["dest"]["p"]:
        return False
    cd = prog.closure_def_of_type(locals_[cpl["l"]])
    tgt = prog.bodies.get(cd) if cd else None
    if tgt is None or tgt.path in stack or len(tgt.blocks) + len(blocks) + 8 > max_blocks:
        return False
    if tgt.argc != want:            # (closure env, [acc,] item)
        return False
    span = blk["span"]
    line = span.get("line", 0)
    okey = origin[i]
    m = (d + 1, stack + (tgt.path,), dict(env))

    def new_local(ty):
        locals_.append(ty)
        lorigin.append((okey[0], -1))
        return len(locals_) - 1

    def asg(lhs, rv):
        return {"k": "assign", "lhs": lhs if isinstance(lhs, dict) else {"l": lhs, "p": []}, "rv": rv, "line": line,
                "exp": False, "expk": None}

    def use(op):
        return {"k": "use", "op": op}

    def add_block(stmts, term, synth=True):
        blocks.append({"cleanup": False, "stmts": stmts, "term": term, "span": span, "synth": synth})
        origin.append(okey)
        meta.append(m)
        return len(blocks) - 1
    item_ty = tgt.locals[tgt.argc]
    ret_ty = tgt.locals[0]
    iter_ty = locals_[ipl["l"]]
    it = prog.types[iter_ty]
    # the iterator as `&mut I`
    pre = []
    if it.get("k") == "ref" and it.get("mut"):
        iref = ipl["l"]
        self_ty = it["in"]
    else:
        rty = _intern_type(prog, {"k": "ref", "mut": True, "in": iter_ty, "s": "&mut " + prog.ty_str(iter_ty)})
        iref = new_local(rty)
        pre.append(asg(iref, {"k": "ref", "mut": True, "place": {"l": ipl["l"], "p": []}}))
        self_ty = iter_ty
    opt_ty = _intern_type(prog, {"k": "adt", "def": "std::option::Option", "args": [item_ty],
                                 "s": "std::option::Option<%s>" % prog.ty_str(item_ty)})
    isz = _intern_type(prog, {"k": "prim", "s": "isize"})
    item_opt = new_local(opt_ty)
    dsc = new_local(isz)
    acc = None
    if kind in ("try_fold", "fold"):
        acc = new_local(tgt.locals[2])
        pre.append(asg(acc, use(args[1])))
    # closure reference handed to every call
    cref_ty = tgt.locals[1]
    cref = new_local(cref_ty)
    if prog.types[cref_ty].get("k") == "ref":
        pre.append(asg(cref, {"k": "ref", "mut": bool(prog.types[cref_ty].get("mut")), "place": {"l": cpl["l"], "p": []}}))
    else:
        pre.append(asg(cref, use({"move": {"l": cpl["l"], "p": []}})))
    # `next` of this iterator: a crate-local impl is called like any other function
    self_s = prog.ty_str(prog.strip_refs(self_ty))
    resolved, rlocal = "std::iter::Iterator::next", False
    for b2 in prog.bodies.values():
        if b2.raw.get("impl_trait") == "std::iter::Iterator" and b2.path.endswith("::next") and \
                (b2.raw.get("impl_self") or "").split("<")[0] == self_s.split("<")[0]:
            resolved, rlocal = b2.path, True
    next_callee = {"path": "std::iter::Iterator::next", "local": False, "gargs": [self_ty], "trait": "std::iter::Iterator",
                   "rk": "item", "resolved": resolved, "rlocal": rlocal}
    cont = t["t"]
    dest = t["dest"]
    unreachable = add_block([], {"k": "unreachable"})
    hdr = add_block([], None)
    sw = add_block([asg(dsc, {"k": "discr", "place": {"l": item_opt, "p": []}})], None)
    blocks[hdr]["term"] = {"k": "call", "callee": next_callee, "args": [{"move": {"l": iref, "p": []}}],
                           "dest": {"l": item_opt, "p": []}, "t": sw, "unwind": t.get("unwind")}
    # the inlined closure
    loff = len(locals_)
    boff = len(blocks) + 1          # (+1: the block that sets up the call comes first)
    locals_.extend(tgt.locals)
    lorigin.extend((tgt.path, j) for j in range(len(tgt.locals)))
    for n in tgt.raw.get("names", []):
        names.append({"name": n["name"], "place": _ren(n["place"], loff, 0)})
    setup = [asg(loff + 1, use({"copy": {"l": cref, "p": []}}))]
    if acc is not None:
        setup.append(asg(loff + 2, use({"move": {"l": acc, "p": []}})))
    setup.append(asg(loff + tgt.argc, use({"move": {"l": item_opt, "p": [
        {"dc": 1, "vn": "Some"}, {"f": 0, "n": "0", "adt": "std::option::Option", "vn": "Some", "ty": item_ty}]}})))
    body_entry = add_block(setup, {"k": "goto", "t": boff}, synth=False)
    assert body_entry + 1 == boff
    after = boff + len(tgt.blocks)
    for j, cb in enumerate(tgt.blocks):
        nb = _ren(cb, loff, boff)
        if nb["term"]["k"] == "return" and not nb.get("cleanup"):
            nb["term"] = {"k": "goto", "t": after}
        blocks.append(nb)
        origin.append((tgt.path, j))
        meta.append(m)
    inlined.add(tgt.path)
    ret = loff          # the closure's return place
    rt = prog.types[ret_ty]
    # after one iteration
    if kind in ("try_fold", "try_for_each") and rt.get("k") == "adt" and rt.get("def") in (
            "std::result::Result", "std::ops::ControlFlow", "std::option::Option"):
        d2 = new_local(isz)
        is_opt = rt["def"] == "std::option::Option"
        good_variant = 1 if is_opt else 0
        good_name = "Some" if is_opt else ("Ok" if rt["def"] == "std::result::Result" else "Continue")
        a_blk = add_block([asg(d2, {"k": "discr", "place": {"l": ret, "p": []}})], None)
        assert a_blk == after
        stm = []
        if acc is not None:
            stm.append(asg(acc, use({"move": {"l": ret, "p": [
                {"dc": good_variant, "vn": good_name},
                {"f": 0, "n": "0", "adt": rt["def"], "vn": good_name, "ty": tgt.locals[2]}]}})))
        go_on = add_block(stm, {"k": "goto", "t": hdr})
        brk = add_block([asg(dest, use({"move": {"l": ret, "p": []}}))], {"k": "goto", "t": cont})
        blocks[a_blk]["term"] = {"k": "switch", "discr": {"move": {"l": d2, "p": []}},
                                 "targets": [[good_variant, go_on], [1 - good_variant, brk]], "otherwise": unreachable}
        done_rv = {"k": "agg", "ak": "adt", "def": rt["def"], "variant": good_variant, "vn": good_name,
                   "fields": ["0"], "ops": [{"move": {"l": acc, "p": []}}] if acc is not None else
                   [{"const": {"ty": 1, "v": None}}]}
        done = add_block([asg(dest, done_rv)], {"k": "goto", "t": cont})
    else:
        stm = [asg(acc, use({"move": {"l": ret, "p": []}}))] if (kind == "fold" and acc is not None) else []
        a_blk = add_block(stm, {"k": "goto", "t": hdr})
        assert a_blk == after
        if kind == "fold" and acc is not None:
            done = add_block([asg(dest, use({"move": {"l": acc, "p": []}}))], {"k": "goto", "t": cont})
        else:
            done = add_block([], {"k": "goto", "t": cont})
    blocks[sw]["term"] = {"k": "switch", "discr": {"move": {"l": dsc, "p": []}},
                          "targets": [[0, done], [1, body_entry]], "otherwise": unreachable}
    # the original block now runs the set-up and enters the loop
    blk["stmts"] = list(blk["stmts"]) + pre
    blk["term"] = {"k": "goto", "t": hdr}
    return True


# Option / Result / bool combinators that run a closure on one of the receiver's variants.  When the closure does real
# work (calls crate functions that are not leaf getters, or writes through a capture) the call is replaced in a flat
# view by the `match` it stands for, with the closure inlined into its arm:
#   `opt.map_or_else(|| d(), |x| f(x))`  ->  `match opt { None => d(), Some(x) => f(x) }`
# so that `if let`/`match` and the combinator form of the same code look alike to every rule.
# arm = ("call", index of the closure argument, takes the payload?, variant to wrap the result in or None)
#     | ("variant", name) | ("bool", value) | ("operand", argument index) | ("payload",) | ("payload_wrap", variant)
#     | ("fwd",)
_OPT, _RES = "std::option::Option", "std::result::Result"
COMBINATORS = {
    "std::option::Option::map": (_OPT, {0: ("variant", "None"), 1: ("call", 1, True, "Some")}),
    "std::option::Option::and_then": (_OPT, {0: ("variant", "None"), 1: ("call", 1, True, None)}),
    "std::option::Option::map_or_else": (_OPT, {0: ("call", 1, False, None), 1: ("call", 2, True, None)}),
    "std::option::Option::map_or": (_OPT, {0: ("operand", 1), 1: ("call", 2, True, None)}),
    "std::option::Option::unwrap_or_else": (_OPT, {0: ("call", 1, False, None), 1: ("payload",)}),
    "std::option::Option::ok_or_else": (_OPT, {0: ("call", 1, False, "Err"), 1: ("payload_wrap", "Ok")}),
    "std::option::Option::or_else": (_OPT, {0: ("call", 1, False, None), 1: ("fwd",)}),
    "std::option::Option::is_some_and": (_OPT, {0: ("bool", False), 1: ("call", 1, True, None)}),
    "std::option::Option::is_none_or": (_OPT, {0: ("bool", True), 1: ("call", 1, True, None)}),
    "std::result::Result::map": (_RES, {0: ("call", 1, True, "Ok"), 1: ("payload_wrap", "Err")}),
    "std::result::Result::map_err": (_RES, {0: ("payload_wrap", "Ok"), 1: ("call", 1, True, "Err")}),
    "std::result::Result::and_then": (_RES, {0: ("call", 1, True, None), 1: ("payload_wrap", "Err")}),
    "std::result::Result::or_else": (_RES, {0: ("payload_wrap", "Ok"), 1: ("call", 1, True, None)}),
    "std::result::Result::unwrap_or_else": (_RES, {0: ("payload",), 1: ("call", 1, True, None)}),
    "std::result::Result::map_or_else": (_RES, {0: ("call", 2, True, None), 1: ("call", 1, True, None)}),
    "std::result::Result::map_or": (_RES, {0: ("call", 2, True, None), 1: ("operand", 1)}),
    "std::result::Result::is_ok_and": (_RES, {0: ("call", 1, True, None), 1: ("bool", False)}),
    "std::result::Result::is_err_and": (_RES, {0: ("bool", False), 1: ("call", 1, True, None)}),
    "core::bool::then": ("bool", {0: ("variant", "None"), 1: ("call", 1, False, "Some")}),
    "std::bool::then": ("bool", {0: ("variant", "None"), 1: ("call", 1, False, "Some")}),
}
_VARIANT = {"None": (_OPT, 0), "Some": (_OPT, 1), "Ok": (_RES, 0), "Err": (_RES, 1)}


def _does_work(prog, tgt, _depth=0):
    """Does the closure do more than compute a value from its arguments: a call to a crate function that itself calls
    something, a call of another closure / function parameter, or a write through a captured reference?"""
    memo = prog.__dict__.setdefault("_does_work", {})
    if tgt.path in memo:
        return memo[tgt.path]
    memo[tgt.path] = False
    res = False
    for bb, blk in enumerate(tgt.blocks):
        if blk.get("cleanup"):
            continue
        t = blk["term"]
        if t["k"] == "call":
            c = t.get("callee") or {}
            if c.get("_np") in FN_TRAIT_CALLS or (c.get("path") or "").startswith("std::ops::Fn"):
                res = True
                break
            t2 = prog.local_target(Site(tgt, bb, t))
            if t2 is not None and any(b2["term"]["k"] == "call" and not b2.get("cleanup") for b2 in t2.blocks):
                res = True
                break
            cd = None
            for a in t["args"]:
                pl = a.get("move") or a.get("copy")
                if pl is not None and not pl["p"]:
                    cd = prog.closure_def_of_type(tgt.locals[pl["l"]])
                    if cd and cd in prog.bodies and _depth < 2 and _does_work(prog, prog.bodies[cd], _depth + 1):
                        res = True
            if res:
                break
        for st in blk["stmts"]:
            if st["k"] == "assign" and st["lhs"]["l"] == 1 and any(e == "deref" for e in st["lhs"]["p"]):
                res = True
    memo[tgt.path] = res
    return res


def _desugar_comb(prog, blocks, origin, meta, locals_, names, lorigin, inlined, i, d, stack, env, max_blocks):
    blk = blocks[i]
    t = blk["term"]
    c = t.get("callee") or {}
    spec = COMBINATORS.get(c.get("_np") or "")
    if spec is None:
        from .effects import norm
        spec = COMBINATORS.get(norm(c.get("path") or ""))
    if spec is None or c.get("local") or t.get("t") is None or t["dest"]["p"]:
        return False
    rdef, arms = spec
    args = t["args"]
    rpl = args[0].get("move") or args[0].get("copy") if args else None
    if rpl is None or rpl["p"]:
        return False
    rty = prog.types[locals_[rpl["l"]]]
    if rdef == "bool":
        if rty.get("s") != "bool":
            return False
    elif not (rty.get("k") == "adt" and rty.get("def") == rdef):
        return False
    # the closures
    clos = {}
    for v, arm in arms.items():
        if arm[0] != "call":
            continue
        if arm[1] >= len(args):
            return False
        cpl = args[arm[1]].get("move") or args[arm[1]].get("copy")
        if cpl is None or cpl["p"]:
            return False
        cd = prog.closure_def_of_type(locals_[cpl["l"]])
        tgt = prog.bodies.get(cd) if cd else None
        if tgt is None or tgt.path in stack or tgt.argc != (2 if arm[2] else 1):
            return False
        clos[v] = (cpl["l"], tgt)
    if not clos or not any(_does_work(prog, tg) for (_l, tg) in clos.values()):
        return False
    if sum(len(tg.blocks) for (_l, tg) in clos.values()) + len(blocks) + 12 > max_blocks:
        return False
    span = blk["span"]
    line = span.get("line", 0)
    okey = origin[i]
    cont = t["t"]
    dest = t["dest"]
    targs = [a for a in rty.get("args", []) if isinstance(a, int)]

    def new_local(ty):
        locals_.append(ty)
        lorigin.append((okey[0], -1))
        return len(locals_) - 1

    def asg(lhs, rv):
        return {"k": "assign", "lhs": lhs if isinstance(lhs, dict) else {"l": lhs, "p": []}, "rv": rv, "line": line,
                "exp": False, "expk": None}

    def use(op):
        return {"k": "use", "op": op}

    def add_block(stmts, term, m, synth=True):
        blocks.append({"cleanup": False, "stmts": stmts, "term": term, "span": span, "synth": synth})
        origin.append(okey)
        meta.append(m)
        return len(blocks) - 1

    def payload(v, ty):
        if rdef == "bool":
            return None
        vn = {(_OPT, 0): "None", (_OPT, 1): "Some", (_RES, 0): "Ok", (_RES, 1): "Err"}[(rdef, v)]
        return {"move": {"l": rpl["l"], "p": [{"dc": v, "vn": vn}, {"f": 0, "n": "0", "adt": rdef, "vn": vn, "ty": ty}]}}

    def wrap(vn, op):
        wdef, wv = _VARIANT[vn]
        return {"k": "agg", "ak": "adt", "def": wdef, "variant": wv, "vn": vn, "fields": ["0"] if op is not None else [],
                "ops": [op] if op is not None else []}
    m0 = (d, stack, dict(env))
    unreachable = add_block([], {"k": "unreachable"}, m0)
    entries = {}
    for v in (0, 1):
        arm = arms[v]
        kind = arm[0]
        if kind == "call":
            cl, tgt = clos[v]
            m = (d + 1, stack + (tgt.path,), dict(env))
            loff = len(locals_)
            locals_.extend(tgt.locals)
            lorigin.extend((tgt.path, j) for j in range(len(tgt.locals)))
            for n in tgt.raw.get("names", []):
                names.append({"name": n["name"], "place": _ren(n["place"], loff, 0)})
            setup = []
            cref_ty = tgt.locals[1]
            if prog.types[cref_ty].get("k") == "ref":
                setup.append(asg(loff + 1, {"k": "ref", "mut": bool(prog.types[cref_ty].get("mut")),
                                            "place": {"l": cl, "p": []}}))
            else:
                setup.append(asg(loff + 1, use({"move": {"l": cl, "p": []}})))
            if arm[2]:
                setup.append(asg(loff + 2, use(payload(v, tgt.locals[2]))))
            boff = len(blocks) + 1
            entries[v] = add_block(setup, {"k": "goto", "t": boff}, m, synth=False)
            after = boff + len(tgt.blocks)
            for j, cb in enumerate(tgt.blocks):
                nb = _ren(cb, loff, boff)
                if nb["term"]["k"] == "return" and not nb.get("cleanup"):
                    nb["term"] = {"k": "goto", "t": after}
                blocks.append(nb)
                origin.append((tgt.path, j))
                meta.append(m)
            inlined.add(tgt.path)
            ret = {"move": {"l": loff, "p": []}}
            a_blk = add_block([asg(dest, wrap(arm[3], ret) if arm[3] else use(ret))], {"k": "goto", "t": cont}, m0)
            assert a_blk == after
        else:
            if kind == "variant":
                rv = wrap(arm[1], None)
            elif kind == "bool":
                bty = _intern_type(prog, {"k": "prim", "s": "bool"})
                rv = use({"const": {"ty": bty, "v": bool(arm[1])}})
            elif kind == "operand":
                rv = use(args[arm[1]])
            elif kind == "payload":
                rv = use(payload(v, targs[v] if rdef == _RES and len(targs) > v else (targs[0] if targs else locals_[dest["l"]])))
            elif kind == "payload_wrap":
                pty = targs[v] if rdef == _RES and len(targs) > v else (targs[0] if targs else locals_[dest["l"]])
                rv = wrap(arm[1], payload(v, pty))
            else:       # fwd
                rv = use({"move": {"l": rpl["l"], "p": []}})
            entries[v] = add_block([asg(dest, rv)], {"k": "goto", "t": cont}, m0)
    if rdef == "bool":
        blk["term"] = {"k": "switch", "discr": args[0], "dty": locals_[rpl["l"]],
                       "targets": [[0, entries[0]]], "otherwise": entries[1]}
    else:
        isz = _intern_type(prog, {"k": "prim", "s": "isize"})
        dsc = new_local(isz)
        blk["stmts"] = list(blk["stmts"]) + [asg(dsc, {"k": "discr", "place": {"l": rpl["l"], "p": []}})]
        blk["term"] = {"k": "switch", "discr": {"move": {"l": dsc, "p": []}}, "dty": isz,
                       "targets": [[0, entries[0]], [1, entries[1]]], "otherwise": unreachable}
    return True


def _thread_results(blocks, origin, meta, prog=None, locals_=None, through_calls=False):
    """Jump threading for Result values whose polarity is known where they are built.

    An inlined helper that returns `Err(..)` (or forwards one with `?`) makes the caller's `?` take the Break edge;
    in the merged CFG both edges leave the caller's switch, so a path "helper failed, caller went on" appears that
    no execution has.  For every block that builds an Ok/Err value we follow the straight-line chain of blocks
    (gotos, drops, the return-value copy, `Try::branch`) to the switch on that value's discriminant, copy the chain,
    and send the copy directly to the one feasible target."""
    n0 = len(blocks)
    for s in range(n0):
        blk = blocks[s]
        if blk.get("cleanup"):
            continue
        src = None
        is_bool = False
        extra = set()       # copies of the value made in the block that builds it (arguments of an inlined call)
        refs0 = set()       # references to it made there
        tups = {}           # (tuple local, index) that hold it
        for st in blk["stmts"]:
            if st["k"] == "assign" and not st["lhs"]["p"] and st["rv"]["k"] == "agg" and \
                    st["rv"].get("def") == "std::result::Result" and st["rv"].get("vn") in ("Ok", "Err"):
                src = (st["lhs"]["l"], "ok" if st["rv"]["vn"] == "Ok" else "err")
                extra = set()
            elif st["k"] == "assign" and not st["lhs"]["p"] and st["rv"]["k"] == "agg" and st["rv"].get("ak") == "adt" \
                    and isinstance(st["rv"].get("variant"), int) and st["rv"].get("enum_like", True) and \
                    st["rv"].get("def") not in ("std::result::Result",) and st["rv"].get("vn") is not None:
                # a literal variant of any enum (`SegmentEnd::Sealed`, `None`) handed to an inlined helper that matches
                # on it: the match is decided
                src = (st["lhs"]["l"], st["rv"]["variant"])
                extra = set()
                refs0 = set()
            elif st["k"] == "assign" and not st["lhs"]["p"] and st["rv"]["k"] == "use" and "const" in st["rv"]["op"] and \
                    isinstance(st["rv"]["op"]["const"].get("v"), (bool, int)) and prog is not None and locals_ is not None \
                    and prog.ty_str(locals_[st["lhs"]["l"]]) == "bool":
                # `a || b` in an inlined predicate: the arm that answers `true` outright decides the caller's `if`
                src = (st["lhs"]["l"], 1 if st["rv"]["op"]["const"]["v"] else 0)
                extra = set()
                refs0 = set()
                is_bool = True
            elif st["k"] == "assign" and not st["lhs"]["p"] and src is not None and st["lhs"]["l"] == src[0]:
                src = None
            elif st["k"] == "assign" and not st["lhs"]["p"] and src is not None and st["rv"]["k"] == "agg" and \
                    st["rv"].get("ak") == "tuple":
                # `(Kind::X,)`: the argument tuple of a closure call; `.i` of it is the literal again
                for i_, o_ in enumerate(st["rv"]["ops"]):
                    pl0 = o_.get("move") or o_.get("copy")
                    if pl0 is not None and not pl0["p"] and (pl0["l"] == src[0] or pl0["l"] in extra):
                        tups[(st["lhs"]["l"], i_)] = True
            elif st["k"] == "assign" and not st["lhs"]["p"] and src is not None and st["rv"]["k"] == "use" and \
                    (st["rv"]["op"].get("move") or st["rv"]["op"].get("copy")) is not None and \
                    len((st["rv"]["op"].get("move") or st["rv"]["op"].get("copy"))["p"]) == 1 and \
                    isinstance((st["rv"]["op"].get("move") or st["rv"]["op"].get("copy"))["p"][0], dict) and \
                    ((st["rv"]["op"].get("move") or st["rv"]["op"].get("copy"))["l"],
                     (st["rv"]["op"].get("move") or st["rv"]["op"].get("copy"))["p"][0].get("f")) in tups:
                extra.add(st["lhs"]["l"])
            elif st["k"] == "assign" and not st["lhs"]["p"] and src is not None and st["rv"]["k"] == "use":
                pl0 = st["rv"]["op"].get("move") or st["rv"]["op"].get("copy")
                if pl0 is not None and not pl0["p"] and (pl0["l"] == src[0] or pl0["l"] in extra):
                    extra.add(st["lhs"]["l"])
                elif pl0 is not None and not pl0["p"] and pl0["l"] in refs0:
                    refs0.add(st["lhs"]["l"])
            elif st["k"] == "assign" and not st["lhs"]["p"] and src is not None and st["rv"]["k"] == "ref" and \
                    not st["rv"]["place"]["p"] and (st["rv"]["place"]["l"] == src[0] or st["rv"]["place"]["l"] in extra):
                refs0.add(st["lhs"]["l"])       # `&literal` handed to a helper that matches on `*param`
        t = blk["term"]
        nxt = None
        if t["k"] == "call" and not t["dest"]["p"] and (t.get("callee") or {}).get("_np") == FROM_RESIDUAL or (
                t["k"] == "call" and not t["dest"]["p"] and
                ((t.get("callee") or {}).get("path") or "").startswith("std::ops::FromResidual::from_residual")):
            src = (t["dest"]["l"], "err")
            if prog is not None and locals_ is not None:
                # `?` on an Option: the residual is `None`, variant 0 of the Option the function returns
                dty = prog.types[locals_[t["dest"]["l"]]]
                if dty.get("k") == "adt" and dty.get("def") == "std::option::Option":
                    src = (t["dest"]["l"], 0)
            nxt = t["t"]
        elif src is not None and t["k"] in ("goto", "drop"):
            nxt = t["t"]
        if src is None or nxt is None:
            continue
        tracked = {src[0]} | extra
        refs = set(refs0)
        pol = src[1]
        chain = []
        decided = {}        # index in chain of a switch block -> the one target the tracked value lets it take
        cur = nxt
        target = None
        for _ in range(48):
            cb = blocks[cur]
            if cb.get("cleanup"):
                break
            dvars = set()
            bad = False
            for st in cb["stmts"]:
                if st["k"] != "assign" or st["lhs"]["p"]:
                    continue
                rv = st["rv"]
                l_ = st["lhs"]["l"]
                if rv["k"] == "use":
                    pl = rv["op"].get("move") or rv["op"].get("copy")
                    if pl is not None and not pl["p"] and pl["l"] in tracked:
                        tracked.add(l_)
                        continue
                    if pl is not None and not pl["p"] and pl["l"] in refs:
                        refs.add(l_)
                        continue
                    if pl is not None and pl["p"] == ["deref"] and pl["l"] in refs:
                        tracked.add(l_)
                        continue
                if rv["k"] == "ref" and not rv["place"]["p"] and rv["place"]["l"] in tracked:
                    refs.add(l_)
                    continue
                if rv["k"] == "ref" and rv["place"]["p"] == ["deref"] and rv["place"]["l"] in refs:
                    refs.add(l_)        # reborrow
                    continue
                if rv["k"] == "discr" and not rv["place"]["p"] and rv["place"]["l"] in tracked:
                    dvars.add(l_)
                    continue
                if rv["k"] == "discr" and rv["place"]["p"] == ["deref"] and rv["place"]["l"] in refs:
                    dvars.add(l_)
                    continue
                if l_ in tracked:
                    bad = True
            if bad:
                break
            ct = cb["term"]
            k = ct["k"]
            if k in ("goto", "drop"):
                if k == "drop" and not ct["place"]["p"] and ct["place"]["l"] in tracked:
                    break
                chain.append(cur)
                cur = ct["t"]
                continue
            if k == "call":
                np_ = (ct.get("callee") or {}).get("_np") or ""
                rawp = (ct.get("callee") or {}).get("path") or ""
                if (np_ == TRY_BRANCH or rawp.startswith(TRY_BRANCH)) and ct["args"] and not ct["dest"]["p"]:
                    pl = ct["args"][0].get("move") or ct["args"][0].get("copy")
                    if pl is not None and not pl["p"] and pl["l"] in tracked and ct["t"] is not None:
                        tracked.add(ct["dest"]["l"])
                        chain.append(cur)
                        cur = ct["t"]
                        continue
                if through_calls and ct.get("t") is not None and ct["dest"]["l"] not in tracked and \
                        ct["dest"]["l"] not in refs and not any(
                            (a.get("move") or a.get("copy")) is not None and
                            (a.get("move") or a.get("copy"))["l"] in (tracked | refs) for a in ct["args"]):
                    # a call that neither takes nor overwrites the literal leaves it as it is
                    chain.append(cur)
                    cur = ct["t"]
                    continue
                break
            if k == "switch":
                pl = ct["discr"].get("move") or ct["discr"].get("copy")
                if pl is not None and not pl["p"] and (pl["l"] in dvars or (is_bool and pl["l"] in tracked)):
                    listed = dict((v, x) for v, x in ct["targets"])
                    want = pol if isinstance(pol, int) else (0 if pol == "ok" else 1)
                    target = listed.get(want, ct["otherwise"])
                    chain.append(cur)
                    decided[len(chain) - 1] = target
                    # the value may be tested again further on (the `?` of the caller of the caller): keep following
                    if len(chain) < 40 and target is not None and not blocks[target].get("cleanup"):
                        cur = target
                        continue
                break
            break
        if target is None or not chain:
            continue
        # only the part of the chain up to the last decided switch is worth copying
        last = max(decided)
        chain = chain[:last + 1]
        target = decided[last]
        # copy the chain
        base = len(blocks)
        for i, c in enumerate(chain):
            nb = _ren(blocks[c], 0, 0)
            if i in decided:
                nb["term"] = {"k": "goto", "t": base + i + 1 if i + 1 < len(chain) else decided[i]}
            elif i + 1 < len(chain):
                if nb["term"]["k"] in ("goto", "drop", "call"):
                    nb["term"]["t"] = base + i + 1
            else:
                nb["term"] = {"k": "goto", "t": target}
            blocks.append(nb)
            origin.append(origin[c])
            meta.append(meta[c])
        if blk["term"]["k"] in ("goto", "drop", "call"):
            blk["term"]["t"] = base
    # blocks that lost their last predecessor are no longer part of the view
    seen = set()
    work = [0]
    while work:
        x = work.pop()
        if x in seen:
            continue
        seen.add(x)
        t = blocks[x]["term"]
        k = t["k"]
        if k == "goto":
            work.append(t["t"])
        elif k == "switch":
            work.extend(b for _, b in t["targets"])
            work.append(t["otherwise"])
        elif k in ("drop", "assert", "call"):
            if t.get("t") is not None:
                work.append(t["t"])
    for i, bl in enumerate(blocks):
        if i not in seen and not bl.get("cleanup"):
            bl["cleanup"] = True


def view_events(ctx, V, _depth=0):
    """Raw events that may happen in a flat view, resolving generic closure calls by the view's own bindings:
    events at its sites, plus - for what could not be inlined - the events of the callees (closures handed to extern
    combinators are flattened in the binding context of the block that passes them)."""
    prog = ctx.prog
    out = set()
    for site in V.sites():
        for ev in ctx.raw_events_at(site):
            out.add(ev)
        if site.kind != "call":
            osite = V.orig_site(site)
            out |= set(ctx.may.site_events(osite))
            continue
        osite = V.orig_site(site)
        env = V.envs[site.bb] if site.bb < len(V.envs) else {}
        tgts = list(prog.call_targets(osite))
        if env and (site.term.get("callee") or {}).get("_np") in FN_TRAIT_CALLS:
            ga = [g for g in (site.term.get("callee") or {}).get("gargs", []) if isinstance(g, int)]
            if ga:
                st = prog.types[prog.strip_refs(ga[0])]
                cd = env.get(st.get("name")) if st.get("k") == "param" else None
                if cd and cd in prog.bodies:
                    tgts = [(prog.bodies[cd], "param")]
        for tgt, how in tgts:
            if _depth < 3 and (how == "extern-cb" or (how == "param" and tgt.is_closure)):
                sub = flatten(prog, tgt, default_policy(prog), 3, env0=env)
                for e in view_events(ctx, sub, _depth + 1):
                    x = ctx._subst(e, osite, tgt) if how != "extern-cb" else e
                    if x is not None:
                        out.add(x)
            else:
                for e in ctx.may.all_events(tgt.path):
                    x = ctx._subst(e, osite, tgt)
                    if x is not None:
                        out.add(x)
    return out


def _inline(prog, blocks, origin, meta, locals_, names, i, tgt, how, d, stack, env):
    blk = blocks[i]
    t = blk["term"]
    # the binding environment of the copy: what each generic Fn parameter of the callee is at this very call
    env2 = {}
    if not tgt.is_closure:
        for k, a in enumerate(t["args"]):
            if k + 1 > tgt.argc:
                break
            pt = prog.types[prog.strip_refs(tgt.locals[k + 1])]
            if pt.get("k") != "param":
                continue
            pl = a.get("move") or a.get("copy")
            if pl is None or pl["p"]:
                continue
            aty = locals_[pl["l"]]
            cd = prog.closure_def_of_type(aty)
            if cd:
                env2[pt["name"]] = cd
            else:
                at = prog.types[prog.strip_refs(aty)]
                if at.get("k") == "param" and at.get("name") in env:
                    env2[pt["name"]] = env[at["name"]]
    else:
        env2 = dict(env)        # a closure sees the generics of the function it is written in
    loff = len(locals_)
    boff = len(blocks)
    locals_.extend(tgt.locals)
    for n in tgt.raw.get("names", []):
        names.append({"name": n["name"], "place": _ren(n["place"], loff, 0)})
    line = blk["span"].get("line", 0)

    def assign(lhs_local, op):
        return {"k": "assign", "lhs": {"l": lhs_local, "p": []}, "rv": {"k": "use", "op": op}, "line": line,
                "exp": False, "expk": None}
    args = t["args"]
    is_fn_call = (t.get("callee") or {}).get("_np") in FN_TRAIT_CALLS or how == "param"
    if is_fn_call and tgt.is_closure:
        # (closure, (a, b, ..)) -> _1 = closure, _2.. = tuple components
        if args:
            blk["stmts"].append(assign(loff + 1, args[0]))
        if len(args) > 1:
            tp = args[1].get("move") or args[1].get("copy")
            for k in range(2, tgt.argc + 1):
                if tp is not None:
                    comp = {"l": tp["l"], "p": list(tp["p"]) + [{"f": k - 2, "ty": tgt.locals[k]}]}
                    blk["stmts"].append(assign(loff + k, {"move": comp}))
    else:
        for k, a in enumerate(args):
            if k + 1 <= tgt.argc:
                blk["stmts"].append(assign(loff + k + 1, a))
    cont = t["t"]
    dest = t["dest"]
    blk["term"] = {"k": "goto", "t": boff}
    for j, cb in enumerate(tgt.blocks):
        nb = _ren(cb, loff, boff)
        if nb["term"]["k"] == "return" and not nb.get("cleanup"):
            nb["stmts"].append({"k": "assign", "lhs": dest, "rv": {"k": "use", "op": {"move": {"l": loff, "p": []}}},
                                "line": nb["span"].get("line", 0), "exp": False, "expk": None})
            nb["term"] = {"k": "goto", "t": cont} if cont is not None else {"k": "unreachable"}
        blocks.append(nb)
        origin.append((tgt.path, j))
        meta.append((d + 1, stack + (tgt.path,), env2))
