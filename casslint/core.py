"""Program model over the cassfacts file: bodies, CFG, types, call graph (component A)."""
import collections

from . import mirfmt
from .effects import norm

GUARD_DEFS = {
    "parking_lot::lock_api::MutexGuard": "mutex",
    "parking_lot::lock_api::RwLockReadGuard": "read",
    "parking_lot::lock_api::RwLockWriteGuard": "write",
    "parking_lot::lock_api::ArcMutexGuard": "mutex",
    "parking_lot::lock_api::ArcRwLockReadGuard": "read",
    "parking_lot::lock_api::ArcRwLockWriteGuard": "write",
    "parking_lot::lock_api::MappedMutexGuard": "mutex",
    "parking_lot::lock_api::MappedRwLockReadGuard": "read",
    "parking_lot::lock_api::MappedRwLockWriteGuard": "write",
    "parking_lot::lock_api::RwLockUpgradableReadGuard": "read",
    "std::sync::MutexGuard": "mutex",
    "std::sync::RwLockReadGuard": "read",
    "std::sync::RwLockWriteGuard": "write",
}

FN_TRAIT_CALLS = {"std::ops::FnOnce::call_once", "std::ops::FnMut::call_mut", "std::ops::Fn::call"}
GUARD_DEFS = dict((norm(k), v) for k, v in GUARD_DEFS.items())


def term_path(term):
    """Normalized callee path of a call terminator."""
    c = term.get("callee")
    if c is None or c.get("indirect"):
        return None
    p = c.get("_np")
    if p is None:
        p = norm(c.get("path"))
        c["_np"] = p
    return p


class Site(object):
    """A call or drop terminator."""
    __slots__ = ("body", "bb", "term", "kind")

    def __init__(self, body, bb, term):
        self.body = body
        self.bb = bb
        self.term = term
        self.kind = term["k"]

    @property
    def span(self):
        return self.body.blocks[self.bb]["span"]

    @property
    def line(self):
        return self.span["line"]

    @property
    def file(self):
        return self.span["file"]

    def loc(self):
        return "%s:%d" % (self.file, self.line)

    @property
    def callee(self):
        return self.term.get("callee")

    @property
    def path(self):
        """Callee path as written at the call (before trait resolution), generics stripped."""
        c = self.term.get("callee")
        if c is None:
            return None
        p = c.get("_np")
        if p is None:
            p = norm(c.get("path"))
            c["_np"] = p
        return p

    @property
    def raw_path(self):
        c = self.term.get("callee")
        return c.get("path") if c else None

    @property
    def resolved(self):
        c = self.term.get("callee")
        if c is None:
            return None
        p = c.get("_nr")
        if p is None:
            p = norm(c.get("resolved") or c.get("path"))
            c["_nr"] = p
        return p

    def key(self):
        return self.body.origin_key(self.bb)

    def __repr__(self):
        return "<Site %s bb%d %s>" % (self.body.path, self.bb, mirfmt.fmt_term(self.term)[:80])


class Body(object):
    def __init__(self, prog, raw):
        self.prog = prog
        self.raw = raw
        self.path = raw["path"]
        self.blocks = raw["blocks"]
        self.argc = raw["argc"]
        self.locals = raw["locals"]
        self.module = raw.get("module", "")
        self.is_closure = raw.get("closure", False)
        self.root = raw.get("root")
        self.reachable = raw.get("reachable", False)
        self.file = raw["span"]["file"]
        self.line = raw["span"]["line"]
        self._succ = None
        self._pred = None
        self._dom = None
        self._defs = None
        self.names = {}
        for n in raw.get("names", []):
            if not n["place"]["p"]:
                self.names.setdefault(n["place"]["l"], n["name"])

    is_flat = False

    def origin_key(self, bb):
        """(body path, block) in the original program (differs from (path, bb) only for flat views)."""
        return (self.path, bb)

    def local_key(self, l):
        """(body path, local) in the original program (flat views renumber the locals of inlined callees)."""
        return (self.path, l)

    # ---- CFG (normal edges only; cleanup blocks are excluded) ----
    def succs(self, bb):
        if self._succ is None:
            self._build_cfg()
        return self._succ[bb]

    def preds(self, bb):
        if self._pred is None:
            self._build_cfg()
        return self._pred[bb]

    def _build_cfg(self):
        n = len(self.blocks)
        succ = [[] for _ in range(n)]
        pred = [[] for _ in range(n)]
        for i, blk in enumerate(self.blocks):
            if blk["cleanup"]:
                continue
            t = blk["term"]
            k = t["k"]
            out = []
            if k == "goto":
                out = [t["t"]]
            elif k == "switch":
                out = [b for _, b in t["targets"]] + [t["otherwise"]]
            elif k in ("drop", "assert"):
                out = [t["t"]]
            elif k == "call":
                if t["t"] is not None:
                    out = [t["t"]]
            seen = []
            for o in out:
                # an `unreachable` block is not a successor: rustc put it there for impossible discriminants
                ob = self.blocks[o]
                if k == "switch" and ob["term"]["k"] == "unreachable" and not any(
                        s_["k"] == "assign" for s_ in ob["stmts"]):
                    continue
                if o not in seen:
                    seen.append(o)
            succ[i] = seen
        # drop-flag constant propagation: prune the infeasible edge of `switchInt(flag)` where the compiler
        # generated flag is known on every path reaching the switch
        for (a, b_) in self._infeasible_flag_edges(succ):
            if b_ in succ[a] and len(succ[a]) > 1:
                succ[a] = [x for x in succ[a] if x != b_]
        for i in range(n):
            for o in succ[i]:
                pred[o].append(i)
        self._succ = succ
        self._pred = pred

    def flag_product(self, cap=4096):
        """Path-sensitive expansion of the CFG on compiler-generated drop flags.  Returns (entry, succ) with nodes
        (bb, state) where state is a sorted tuple of (flag, 0/1) for the flags whose value is known, or None when the
        body has no flags or the expansion would exceed `cap` nodes (callers then fall back to the plain CFG)."""
        if hasattr(self, "_fprod"):
            return self._fprod
        self._build_cfg()
        flags = self._flag_locals()
        res = None
        if flags:
            entry = (0, ())
            succ = {}
            work = [entry]
            seen = {entry}
            ok = True
            while work:
                node = work.pop()
                b, st0 = node
                st = dict(st0)
                blk = self.blocks[b]
                for s in blk["stmts"]:
                    if s["k"] == "assign" and not s["lhs"]["p"] and s["lhs"]["l"] in flags:
                        st[s["lhs"]["l"]] = 1 if s["rv"]["op"]["const"]["v"] else 0
                t = blk["term"]
                outs = list(self._succ[b])
                if t["k"] == "switch":
                    pl = t["discr"].get("copy") or t["discr"].get("move")
                    if pl is not None and not pl["p"] and pl["l"] in flags and pl["l"] in st:
                        listed = dict((x, y) for x, y in t["targets"])
                        tgt = listed.get(st[pl["l"]], t["otherwise"])
                        if tgt in outs:
                            outs = [tgt]
                key = tuple(sorted(st.items()))
                nxt = [(o, key) for o in outs]
                succ[node] = nxt
                for x in nxt:
                    if x not in seen:
                        seen.add(x)
                        work.append(x)
                if len(seen) > cap:
                    ok = False
                    break
            if ok:
                res = (entry, succ)
        self._fprod = res
        return res

    def _flag_locals(self):
        """Compiler-generated drop flags: unnamed bool locals that are only ever assigned boolean literals."""
        named = set(self.names.keys())
        cand = {}
        for i, blk in enumerate(self.blocks):
            for s in blk["stmts"]:
                if s["k"] != "assign" or s["lhs"]["p"]:
                    continue
                l = s["lhs"]["l"]
                if self.prog.types[self.locals[l]].get("s") != "bool" or l in named or l <= self.argc:
                    continue
                rv = s["rv"]
                if rv["k"] == "use" and "const" in rv["op"] and "v" in rv["op"]["const"]:
                    cand.setdefault(l, True)
                else:
                    cand[l] = False
            t = blk["term"]
            if t["k"] == "call" and not t["dest"]["p"]:
                cand[t["dest"]["l"]] = False
        return set(l for l, ok in cand.items() if ok)

    def _infeasible_flag_edges(self, succ):
        flags = self._flag_locals()
        if not flags:
            return []
        TOP = 2
        n = len(self.blocks)
        IN = {0: {}}
        work = [0]
        while work:
            b = work.pop()
            st = dict(IN[b])
            blk = self.blocks[b]
            if blk["cleanup"]:
                continue
            for s in blk["stmts"]:
                if s["k"] == "assign" and not s["lhs"]["p"] and s["lhs"]["l"] in flags:
                    st[s["lhs"]["l"]] = 1 if s["rv"]["op"]["const"]["v"] else 0
            t = blk["term"]
            outs = list(succ[b])
            if t["k"] == "switch":
                pl = t["discr"].get("copy") or t["discr"].get("move")
                if pl is not None and not pl["p"] and pl["l"] in flags and st.get(pl["l"], TOP) != TOP:
                    v = st[pl["l"]]
                    listed = dict((x, y) for x, y in t["targets"])
                    tgt = listed.get(v, t["otherwise"])
                    outs = [tgt] if tgt in succ[b] else outs
            for o in outs:
                if o not in IN:
                    IN[o] = dict(st)
                    work.append(o)
                else:
                    cur = IN[o]
                    changed = False
                    for k in set(cur) | set(st):
                        a_, b2 = cur.get(k, None), st.get(k, None)
                        if k not in cur:
                            # first time we see k on this path: other paths had it unset (= unknown)
                            cur[k] = TOP
                            changed = True
                        elif k not in st:
                            if cur[k] != TOP:
                                cur[k] = TOP
                                changed = True
                        elif a_ != b2 and a_ != TOP:
                            cur[k] = TOP
                            changed = True
                    if changed:
                        work.append(o)
        bad = []
        for b, st in IN.items():
            blk = self.blocks[b]
            st = dict(st)
            for s in blk["stmts"]:
                if s["k"] == "assign" and not s["lhs"]["p"] and s["lhs"]["l"] in flags:
                    st[s["lhs"]["l"]] = 1 if s["rv"]["op"]["const"]["v"] else 0
            t = blk["term"]
            if t["k"] != "switch":
                continue
            pl = t["discr"].get("copy") or t["discr"].get("move")
            if pl is None or pl["p"] or pl["l"] not in flags:
                continue
            v = st.get(pl["l"], TOP)
            if v == TOP:
                continue
            listed = dict((x, y) for x, y in t["targets"])
            tgt = listed.get(v, t["otherwise"])
            for o in succ[b]:
                if o != tgt:
                    bad.append((b, o))
        return bad

    def normal_blocks(self):
        return [i for i, b in enumerate(self.blocks) if not b["cleanup"]]

    def reachable_blocks(self, start=0, avoid=()):
        seen = set()
        work = [start]
        avoid = set(avoid)
        while work:
            b = work.pop()
            if b in seen or b in avoid:
                continue
            seen.add(b)
            work.extend(self.succs(b))
        return seen

    def return_blocks(self):
        return [i for i in self.normal_blocks() if self.blocks[i]["term"]["k"] == "return"]

    def dominators(self):
        """dom[b] = set of blocks dominating b (incl. b), over blocks reachable from entry."""
        if self._dom is not None:
            return self._dom
        reach = self.reachable_blocks()
        order = sorted(reach)
        dom = {b: set(order) for b in order}
        dom[0] = {0}
        changed = True
        while changed:
            changed = False
            for b in order:
                if b == 0:
                    continue
                ps = [p for p in self.preds(b) if p in reach]
                if not ps:
                    new = {b}
                else:
                    new = set.intersection(*[dom[p] for p in ps]) | {b}
                if new != dom[b]:
                    dom[b] = new
                    changed = True
        self._dom = dom
        return dom

    def dominates(self, a, b):
        d = self.dominators()
        return b in d and a in d[b]

    # ---- sites ----
    def sites(self, kinds=("call", "drop")):
        for i in self.normal_blocks():
            t = self.blocks[i]["term"]
            if t["k"] in kinds:
                yield Site(self, i, t)

    def calls(self):
        return self.sites(("call",))

    def stmts(self, bb):
        return self.blocks[bb]["stmts"]

    def local_ty(self, l):
        return self.locals[l]

    def local_name(self, l):
        return self.names.get(l, "_%d" % l)

    def assignments(self):
        """local -> list of (bb, idx or 'term', rvalue-or-call-term) defining the whole local."""
        if self._defs is not None:
            return self._defs
        d = collections.defaultdict(list)
        for i in self.normal_blocks():
            blk = self.blocks[i]
            for j, s in enumerate(blk["stmts"]):
                if s["k"] == "assign" and not s["lhs"]["p"]:
                    d[s["lhs"]["l"]].append((i, j, s["rv"]))
            t = blk["term"]
            if t["k"] == "call" and not t["dest"]["p"]:
                d[t["dest"]["l"]].append((i, "term", t))
        self._defs = d
        return d

    def dump(self):
        return mirfmt.dump_body(self.raw, self.prog.types)


class Program(object):
    def __init__(self, facts):
        self.facts = facts
        self.types = facts["types"]
        self.bodies = {}
        for raw in facts["bodies"]:
            self.bodies[raw["path"]] = Body(self, raw)
        self.adts = {a["path"]: a for a in facts["adts"]}
        self.impls = facts["impls"]
        self.consts = {c["path"]: c for c in facts["consts"]}
        self._contains_guard = {}
        self._callers = None
        self._closure_bindings = None
        self._dyn_bindings = None
        self.unresolved = []
        self.specialised = {}       # clone path -> (generic body path, caller path, bb)
        self._specialise_closure_takers()

    def _specialise_closure_takers(self):
        """A crate-private higher-order helper - `fn with_locks<R>(&self, f: impl FnOnce(&mut A, &mut B) -> R) -> R` -
        that is handed a *different closure at every call site* is analysed once per call site, the way rustc compiles it:
        one copy of its body per closure type, each call site rewired to its copy, and in the copy the generic `F` is that
        one closure.  Without this every caller would see, behind the helper, the union (may) or the intersection (must)
        of what all the closures do.  Only helpers all of whose call sites pass a closure value are specialised; the
        generic original then has no caller left and is dropped."""
        cand = {}
        all_sites = {}
        for b in list(self.bodies.values()):
            for bb, blk in enumerate(b.blocks):
                t = blk["term"]
                if t["k"] != "call" or blk.get("cleanup"):
                    continue
                c = t.get("callee") or {}
                if c.get("indirect") or not (c.get("rk") == "item" and c.get("rlocal")):
                    continue
                tgt = self.bodies.get(c.get("resolved"))
                if tgt is None or tgt.is_closure or tgt.reachable or tgt.path == b.path or tgt.raw.get("impl_trait"):
                    continue
                all_sites.setdefault(tgt.path, []).append((b, bb))
                cds = []
                for k, a in enumerate(t["args"]):
                    pl = a.get("move") or a.get("copy")
                    if pl is None or pl["p"] or k + 1 > tgt.argc:
                        continue
                    if self.types[self.strip_refs(tgt.locals[k + 1])].get("k") != "param":
                        continue
                    cd = self.closure_def_of_type(b.locals[pl["l"]])
                    if cd:
                        cds.append(cd)
                if cds:
                    cand.setdefault(tgt.path, []).append((b, bb, tuple(cds)))
        for gpath in sorted(cand):
            sites = cand[gpath]
            g = self.bodies[gpath]
            if len(sites) < 2 or len(sites) != len(all_sites.get(gpath, [])) or len(set(x[2] for x in sites)) < 2:
                continue
            if len(g.blocks) > 60 or any(b2.is_closure and b2.root == gpath for b2 in self.bodies.values()):
                continue
            # the helper must itself call its parameter (a mere forwarder gains nothing)
            for n, (b, bb, cds) in enumerate(sorted(sites, key=lambda x: (x[0].path, x[1])), 1):
                cpath = "%s#%d" % (gpath, n)
                raw2 = dict(g.raw)
                raw2["path"] = cpath
                # `-> R` with R the closure's output: in this copy R is what that closure returns (a `Result`, say, that
                # the caller tests with `?`)
                if self.types[g.locals[0]].get("k") == "param" and len(cds) == 1 and cds[0] in self.bodies:
                    rty = self.bodies[cds[0]].locals[0]
                    raw2["locals"] = [rty if ty == g.locals[0] else ty for ty in g.locals]
                self.bodies[cpath] = Body(self, raw2)
                t = b.blocks[bb]["term"]
                c2 = dict(t["callee"])
                c2["resolved"] = cpath
                c2.pop("_np", None)
                t["callee"] = c2
                self.specialised[cpath] = (gpath, b.path, bb)
            del self.bodies[gpath]

    # ---- types ----
    def ty(self, ix):
        return self.types[ix]

    def ty_str(self, ix):
        return self.types[ix]["s"]

    def strip_refs(self, ix):
        t = self.types[ix]
        while t.get("k") in ("ref", "ptr"):
            ix = t["in"]
            t = self.types[ix]
        return ix

    def adt_of(self, ix):
        """(def path, [type arg ixs]) of the ADT behind refs, or (None, [])."""
        t = self.types[self.strip_refs(ix)]
        if t.get("k") == "adt":
            return t["def"], [a for a in t["args"] if isinstance(a, int)]
        return None, []

    def type_children(self, ix):
        t = self.types[ix]
        k = t.get("k")
        out = []
        if k == "adt":
            out = [a for a in t["args"] if isinstance(a, int)]
            a = self.adts.get(t["def"])
            if a is not None:
                for v in a["variants"]:
                    for f in v["fields"]:
                        out.append(f["ty"])
        elif k in ("ref", "ptr", "array", "slice"):
            out = [t["in"]]
        elif k == "tuple":
            out = list(t["args"])
        elif k == "closure":
            out = list(t.get("upvars", []))
        return out

    def find_in_type(self, ix, pred, _seen=None):
        """All type ixs reachable from ix (through args/fields/upvars) that satisfy pred."""
        if _seen is None:
            _seen = set()
        out = []
        work = [ix]
        while work:
            i = work.pop()
            if i in _seen:
                continue
            _seen.add(i)
            if pred(self.types[i]):
                out.append(i)
            work.extend(self.type_children(i))
        return out

    def guards_in_type(self, ix, through_refs=False):
        """Guard types owned by a value of type ix: list of (mode, data type ix)."""
        key = (ix, through_refs)
        if key in self._contains_guard:
            return self._contains_guard[key]
        out = []
        seen = set()
        work = [ix]
        while work:
            i = work.pop()
            if i in seen:
                continue
            seen.add(i)
            t = self.types[i]
            k = t.get("k")
            if k == "adt" and t["def"] in GUARD_DEFS:
                args = [a for a in t["args"] if isinstance(a, int)]
                out.append((GUARD_DEFS[t["def"]], args[-1] if args else None))
                continue
            if k in ("ref", "ptr") and not through_refs:
                continue
            if k == "adt" and not t.get("local"):
                # only owning std containers are looked through
                if t["def"] in ("std::option::Option", "std::result::Result", "std::boxed::Box",
                                "std::vec::Vec", "std::mem::ManuallyDrop"):
                    work.extend(a for a in t["args"] if isinstance(a, int))
                continue
            work.extend(self.type_children(i))
        self._contains_guard[key] = out
        return out

    # ---- call graph ----
    def body_of(self, path):
        return self.bodies.get(path)

    def local_target(self, site):
        """Body directly called at this site (resolved static dispatch), else None."""
        c = site.callee
        if c is None or c.get("indirect"):
            return None
        if c.get("rk") == "item" and c.get("rlocal"):
            return self.bodies.get(c.get("resolved"))
        if c.get("rk") == "closure_once_shim" and c.get("rlocal"):
            return self.bodies.get(c.get("resolved"))
        return None

    def closure_def_of_type(self, ix):
        t = self.types[self.strip_refs(ix)]
        if t.get("k") == "closure":
            return t["def"]
        return None

    def _compute_bindings(self):
        """Which closures can a generic `F: Fn*` parameter of a body be, and which closures are
        coerced to `dyn Fn` trait objects."""
        bound = collections.defaultdict(set)      # body path -> closure defs passed in as values
        bound_by_name = collections.defaultdict(set)    # (body path, generic parameter name) -> closure defs
        passes_named = collections.defaultdict(set)     # (caller, its parameter name) -> {(callee, callee parameter name)}
        dyn = set()
        passes_param = collections.defaultdict(set)   # caller -> callees receiving a param-typed fn
        fn_param_names = set()
        for b in self.bodies.values():
            for site in b.calls():
                c = site.callee
                if c and not c.get("indirect") and term_path(site.term) in FN_TRAIT_CALLS:
                    ga = [g for g in c.get("gargs", []) if isinstance(g, int)]
                    if ga and self.types[self.strip_refs(ga[0])].get("k") == "param":
                        fn_param_names.add(self.types[self.strip_refs(ga[0])]["name"])
        for b in self.bodies.values():
            for i in b.normal_blocks():
                for s in b.stmts(i):
                    if s["k"] == "assign" and s["rv"]["k"] == "cast" and "Unsize" in s["rv"]["ck"]:
                        to = self.types[self.strip_refs(s["rv"]["to"])]
                        if to.get("k") == "dyn" and to.get("def", "").startswith("std::ops::Fn"):
                            cd = self.closure_def_of_type(s["rv"]["from"])
                            if cd:
                                dyn.add(cd)
            for site in b.calls():
                tgt = self.local_target(site)
                if tgt is None:
                    continue
                for k, a in enumerate(site.term["args"]):
                    pl = a.get("move") or a.get("copy")
                    if pl is None:
                        continue
                    tix = b.locals[pl["l"]] if not pl["p"] else None
                    if tix is None:
                        continue
                    # the generic parameter (by name) that the callee's k-th parameter is typed with
                    pname = None
                    if k + 1 <= tgt.argc:
                        pt = self.types[self.strip_refs(tgt.locals[k + 1])]
                        if pt.get("k") == "param":
                            pname = pt.get("name")
                    cd = self.closure_def_of_type(tix)
                    if cd:
                        bound[tgt.path].add(cd)
                        if pname:
                            bound_by_name[(tgt.path, pname)].add(cd)
                    elif self.types[self.strip_refs(tix)].get("k") == "param":
                        if self.types[self.strip_refs(tix)]["name"] in fn_param_names:
                            passes_param[b.path].add(tgt.path)
                        # a generic value handed on to a generic parameter of the callee (it need not be called here)
                        if pname:
                            passes_named[(b.path, self.types[self.strip_refs(tix)]["name"])].add((tgt.path, pname))
        changed = True
        while changed:
            changed = False
            for caller, callees in passes_param.items():
                for c in callees:
                    before = len(bound[c])
                    bound[c] |= bound[caller]
                    if len(bound[c]) != before:
                        changed = True
            for (caller, m), tgts in passes_named.items():
                src = set(bound_by_name.get((caller, m), set()))
                cb = self.bodies.get(caller)
                if cb is not None and cb.is_closure and cb.root:
                    src |= bound_by_name.get((cb.root, m), set())
                for key in tgts:
                    before = len(bound_by_name[key])
                    bound_by_name[key] |= src
                    if len(bound_by_name[key]) != before:
                        changed = True
        self._closure_bindings = bound
        self._closure_bindings_named = bound_by_name
        self._dyn_bindings = dyn

    def closure_bindings_of_param(self, body_path, pname):
        """Closures the generic parameter `pname` of this body (or of the function enclosing this closure) may be."""
        if self._closure_bindings is None:
            self._compute_bindings()
        out = set(self._closure_bindings_named.get((body_path, pname), set()))
        b = self.bodies.get(body_path)
        if b is not None and b.is_closure and b.root:
            out |= self._closure_bindings_named.get((b.root, pname), set())
        return out

    def closure_param_bindings(self, body_path):
        """Closures a generic `F: Fn*` value may be in this body. A closure body sees the generic
        parameters of its enclosing function (it can capture and call them)."""
        if self._closure_bindings is None:
            self._compute_bindings()
        out = set(self._closure_bindings.get(body_path, set()))
        b = self.bodies.get(body_path)
        if b is not None and b.is_closure and b.root:
            out |= self._closure_bindings.get(b.root, set())
        return out

    def dyn_fn_closures(self):
        if self._dyn_bindings is None:
            self._compute_bindings()
        return self._dyn_bindings

    def call_targets(self, site):
        """Local bodies that may run because of this call site, as (body, how) pairs.
        how: 'direct' | 'param' (generic Fn param) | 'dyn' (&dyn Fn) | 'extern-cb' (closure handed to
        an extern function that may call it during the call)."""
        out = []
        c = site.callee
        if c is None:
            return out
        if c.get("indirect"):
            self.unresolved.append(site)
            return out
        tgt = self.local_target(site)
        if tgt is not None:
            out.append((tgt, "direct"))
            return out
        path = site.path
        if path in FN_TRAIT_CALLS:
            rk = c.get("rk")
            if rk == "virtual":
                for cd in sorted(self.dyn_fn_closures()):
                    if cd in self.bodies:
                        out.append((self.bodies[cd], "dyn"))
            else:
                # Self type of the call: first generic arg
                ga = [g for g in c.get("gargs", []) if isinstance(g, int)]
                self_ix = ga[0] if ga else None
                cd = self.closure_def_of_type(self_ix) if self_ix is not None else None
                if cd and cd in self.bodies:
                    out.append((self.bodies[cd], "direct"))
                elif self_ix is not None and self.types[self.strip_refs(self_ix)].get("k") == "param":
                    obp = site.body.origin_key(site.bb)[0]
                    pname = self.types[self.strip_refs(self_ix)].get("name")
                    cands = self.closure_bindings_of_param(obp, pname) or self.closure_param_bindings(obp)
                    for cd in sorted(cands):
                        if cd in self.bodies:
                            out.append((self.bodies[cd], "param"))
                    if not cands:
                        self.unresolved.append(site)
                else:
                    self.unresolved.append(site)
            return out
        if path == "std::thread::spawn":
            return out          # new root, not an edge
        # a provided method of std's Iterator trait (`try_fold`, `map`, `collect` ...) on a crate-local iterator drives
        # that iterator's own `next`
        if c.get("trait") == "std::iter::Iterator" and not path.endswith("::next"):
            nb = self._local_iter_next(c)
            if nb is not None:
                out.append((nb, "extern-iter"))
        # extern function receiving closures: it may call them before returning
        for a in site.term["args"]:
            pl = a.get("move") or a.get("copy")
            if pl is None or pl["p"]:
                continue
            cd = self.closure_def_of_type(site.body.locals[pl["l"]])
            if cd and cd in self.bodies:
                out.append((self.bodies[cd], "extern-cb"))
        return out

    def _local_iter_next(self, callee):
        """`<T as Iterator>::next` of the crate-local type T an extern Iterator method is called on (None if T is not
        local)."""
        ga = [g for g in callee.get("gargs", []) if isinstance(g, int)]
        if not ga:
            return None
        cache = self.__dict__.setdefault("_iter_next_cache", {})
        key = ga[0]
        if key not in cache:
            self_s = self.ty_str(self.strip_refs(key)).split("<")[0]
            found = None
            for b2 in self.bodies.values():
                if b2.raw.get("impl_trait") == "std::iter::Iterator" and b2.path.endswith("::next") and \
                        (b2.raw.get("impl_self") or "").split("<")[0] == self_s:
                    found = b2
            cache[key] = found
        return cache[key]

    def spawned_closures(self):
        out = []
        for b in self.bodies.values():
            for site in b.calls():
                if site.path == "std::thread::spawn":
                    for a in site.term["args"]:
                        pl = a.get("move") or a.get("copy")
                        if pl is not None and not pl["p"]:
                            cd = self.closure_def_of_type(b.locals[pl["l"]])
                            if cd in self.bodies:
                                out.append((site, self.bodies[cd]))
        return out

    # ---- drops ----
    def drop_targets(self, ty_ix, _seen=None):
        """What runs when a value of this type is dropped: ('local', Body, ty, owner) for local Drop
        impls and ('extern', def path, ty, owner) for extern types, recursively through owned
        fields / type arguments. owner = ("F", adt, field) of the innermost crate-local field that
        holds the value (None when it is the dropped place itself)."""
        if _seen is None:
            _seen = set()
        out = []
        work = [(ty_ix, None)]
        while work:
            i, owner = work.pop()
            if (i, owner) in _seen:
                continue
            _seen.add((i, owner))
            t = self.types[i]
            k = t.get("k")
            if k in ("ref", "ptr", "prim", "str", "never", "param", "fndef", "fnptr"):
                continue
            if k == "adt":
                a = self.adts.get(t["def"])
                if a is not None:
                    if a.get("drop_fn"):
                        b = self.bodies.get(a["drop_fn"])
                        if b is not None:
                            out.append(("local", b, i, owner))
                    for v in a["variants"]:
                        for f in v["fields"]:
                            work.append((f["ty"], ("F", t["def"], f["name"])))
                    # generic args are reached through the fields that use them
                else:
                    out.append(("extern", norm(t["def"]), i, owner))
                    # an extern type with a lifetime parameter borrows (guards, iterators): it does
                    # not own - and so does not drop - values of its type arguments
                    borrows = any(isinstance(x, str) and x.startswith("'") for x in t["args"])
                    if not borrows and norm(t["def"]) not in ("std::marker::PhantomData",):
                        work.extend((x, owner) for x in t["args"] if isinstance(x, int))
            elif k in ("array", "slice"):
                work.append((t["in"], owner))
            elif k == "tuple":
                work.extend((x, owner) for x in t["args"])
            elif k == "closure":
                work.extend((x, owner) for x in t.get("upvars", []))
            elif k == "dyn":
                out.append(("extern", "dyn " + t.get("def", "?"), i, owner))
        return out

    # ---- reachability over the call graph ----
    def callees_of(self, body, include_drops=True):
        res = []
        for site in body.sites():
            if site.kind == "call":
                for tgt, how in self.call_targets(site):
                    res.append((site, tgt, how))
            elif include_drops:
                for d in self.drop_targets(site.term["ty"]):
                    if d[0] == "local":
                        res.append((site, d[1], "drop"))
        return res

    def reachable_bodies(self, roots, include_drops=True):
        seen = {}
        work = [(r, None) for r in roots]
        while work:
            b, via = work.pop()
            if b.path in seen:
                continue
            seen[b.path] = via
            for site, tgt, how in self.callees_of(b, include_drops):
                if tgt.path not in seen:
                    work.append((tgt, (b.path, site.bb, how)))
        return seen

    def call_chain(self, reach, path):
        chain = []
        cur = path
        guard = 0
        while cur is not None and guard < 50:
            via = reach.get(cur)
            chain.append(cur)
            cur = via[0] if via else None
            guard += 1
        return list(reversed(chain))

    def callers_index(self):
        if self._callers is None:
            idx = collections.defaultdict(list)
            for b in self.bodies.values():
                for site, tgt, how in self.callees_of(b):
                    idx[tgt.path].append((site, how))
            self._callers = idx
        return self._callers

    def find_bodies(self, pred):
        return [b for b in self.bodies.values() if pred(b)]

    def body_endswith(self, suffix):
        return [b for p, b in self.bodies.items() if p.endswith(suffix)]
