"""Self-test helper (not used by any registered check): runs several properties on one scratch copy in one
process, sharing the program model.  python3 -m casslint.multi --root DIR C01 C02 ...
Output: for each property a line `=====PROP Cxx rc=N` followed by that check's normal output."""
import io
import sys

from . import runner


def main(argv):
    root = None
    props = []
    it = iter(argv)
    for a in it:
        if a == "--root":
            root = next(it)
        else:
            props.append(a.upper())
    if root is None:
        sys.stderr.write("casslint.multi is for scratch copies only: --root DIR is required\n")
        return 2
    shared = {}
    for p in props:
        buf = io.StringIO()
        try:
            rc = runner.run(p, "quick", None, root, shared=shared, out=buf)
        except Exception as e:      # keep going: report as a failed check
            rc = 1
            buf.write("internal error: %r\n" % (e,))
        sys.stdout.write("=====PROP %s rc=%d\n" % (p, rc))
        sys.stdout.write(buf.getvalue())
        sys.stdout.flush()
    return 0


if __name__ == "__main__":
    sys.exit(main(sys.argv[1:]))
