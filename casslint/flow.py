"""Must-happened-before dataflow with function summaries (component D) and Result provenance.

An *event* is a hashable (usually a string such as "WAL_SYNC" or a tuple (kind, class)). Event
generation is supplied by a callback so that each property can use its own vocabulary.

Ok-sensitivity: an effectful call that returns `Result` generates its event only on the edge
where the result has been inspected and found `Ok` (`?` Continue edge, `match`/`if let` Ok arm),
or - when the result is forwarded as the function's own return value - in the function's
`must_ok` summary. A result that is discarded therefore never "happened", so ordering rules
subsume the error discipline for the calls they depend on.
"""
import collections

from .core import Site, term_path
from .vfg import place_of

def _fk(body):
    """Cache key of a body in the flow analyses: a flat view has its own (it shares `path` with the function it is a
    view of)."""
    return getattr(body, "flow_key", None) or body.path


def norm_path(prog, path):
    """Body key of a callee path (generic arguments stripped the way Program keys its bodies)."""
    if path in prog.bodies:
        return path
    from .effects import norm
    n = norm(path)
    for k in prog.bodies:
        if norm(k) == n:
            return k
    return path


TRY_BRANCH = "std::ops::Try::branch"
FROM_RESIDUAL = "std::ops::FromResidual::from_residual"
RESULT_ADAPTERS = {"std::result::Result::map_err", "std::result::Result::map",
                   "std::result::Result::inspect_err", "std::result::Result::inspect"}
RESULT_DEF = "std::result::Result"


class ResultFlow(object):
    """Per body: which switch edges are the Ok / Err edges of which call site."""

    def __init__(self, prog, body):
        self.prog = prog
        self.body = body
        self.edge_pol = {}      # (switch bb, target bb) -> list of (origin call bb, 'ok'|'err')
        self.forwarded = {}     # bb of a block that assigns _0 -> ('ok'|'err'|('fwd', origin bb)|'unknown')
        self._origin_cache = {}
        self._analyse()

    def is_result(self, ty_ix):
        d, _ = self.prog.adt_of(ty_ix)
        t = self.prog.types[ty_ix]
        return t.get("k") == "adt" and t["def"] == RESULT_DEF

    def _is_result_wrapper(self, term):
        """A call to a crate-local helper that only decorates the error of the Result it is given (`fn ctx(self, ..) ->
        Result<T, E2> { self.map_err(..) }`): Ok exactly when its first argument is Ok."""
        c = term.get("callee") or {}
        path = c.get("resolved") if c.get("rlocal") else (c.get("path") if c.get("local") else None)
        if path is None:
            return False
        cache = self.prog.__dict__.setdefault("_result_wrappers", {})
        if path in cache:
            return cache[path]
        cache[path] = False
        tb = self.prog.bodies.get(norm_path(self.prog, path))
        ok = False
        if tb is not None and tb.argc >= 1 and self.is_result(tb.locals[1]) and self.is_result(tb.locals[0]):
            rets = [(bb, j, rv) for (bb, j, rv) in tb.assignments().get(0, [])]
            ok = bool(rets)
            for (bb, j, rv) in rets:
                if j != "term" or term_path(rv) not in RESULT_ADAPTERS or not rv["args"]:
                    ok = False
                    break
                pl = place_of(rv["args"][0])
                # the adapter's receiver is the first parameter (possibly through one move)
                for _ in range(3):
                    if pl is None or pl["p"]:
                        break
                    if pl["l"] == 1:
                        break
                    d = tb.assignments().get(pl["l"], [])
                    if len(d) == 1 and d[0][1] != "term" and d[0][2]["k"] == "use":
                        pl = place_of(d[0][2]["op"])
                    else:
                        pl = None
                if pl is None or pl["p"] or pl["l"] != 1:
                    ok = False
                    break
            if not ok:
                ok = self._match_wrapper(tb)
        cache[path] = ok
        return ok

    def _match_wrapper(self, tb):
        """The same decoration written as `match self { Ok(v) => Ok(v), Err(e) => Err(E2 { .. e }) }`: one switch on the
        first parameter's discriminant; every `Ok(..)` the function returns is built behind its Ok edge, every `Err(..)`
        behind its Err edge, and nothing else is returned."""
        from . import cfgutil
        if len(tb.blocks) > 16:
            return False
        sw = None
        for bb in tb.normal_blocks():
            c = cfgutil.switch_condition(tb, bb)
            if c and c[0] == "discr" and not c[1]["p"] and c[1]["l"] == 1:
                if sw is not None:
                    return False
                sw = bb
        if sw is None:
            return False
        e = cfgutil.switch_edges(tb, sw)
        ok_t = e.get(0, e["otherwise"] if 1 in e else None)
        err_t = e.get(1, e["otherwise"] if 0 in e else None)
        if ok_t is None or err_t is None or ok_t == err_t:
            return False
        rets = tb.assignments().get(0, [])
        if not rets:
            return False
        for (bb, j, rv) in rets:
            if j == "term" or rv["k"] != "agg" or rv.get("def") != RESULT_DEF:
                return False
            edge = (sw, ok_t) if rv.get("vn") == "Ok" else (sw, err_t)
            if not cfgutil.edge_dominates(tb, edge, bb):
                return False
        return True

    def _literal_polarity(self, local, depth=0):
        """'ok' / 'err' if the local is a Result built right here as `Ok(..)` / `Err(..)` (through moves)."""
        defs = self.body.assignments().get(local, [])
        if len(defs) != 1 or depth > 4 or defs[0][1] == "term":
            return None
        rv = defs[0][2]
        if rv["k"] == "agg" and rv.get("ak") == "adt" and rv.get("def") == RESULT_DEF:
            return "ok" if rv.get("vn") == "Ok" else "err"
        if rv["k"] == "use":
            pl = place_of(rv["op"])
            if pl is not None and not pl["p"]:
                return self._literal_polarity(pl["l"], depth + 1)
        return None

    def origin_call(self, local, depth=0):
        """The call terminator (bb) whose Result this local carries, through moves and map_err."""
        if local in self._origin_cache:
            return self._origin_cache[local]
        self._origin_cache[local] = None
        res = None
        defs = self.body.assignments().get(local, [])
        if len(defs) == 1 and depth < 12:
            bb, j, rv = defs[0]
            if j == "term":
                p = term_path(rv)
                if (p in RESULT_ADAPTERS or self._is_result_wrapper(rv)) and rv["args"]:
                    pl = place_of(rv["args"][0])
                    if pl is not None and not pl["p"]:
                        res = self.origin_call(pl["l"], depth + 1)
                    if res is None:
                        res = bb
                else:
                    res = bb
            else:
                if rv["k"] == "use":
                    pl = place_of(rv["op"])
                    if pl is not None and not pl["p"]:
                        res = self.origin_call(pl["l"], depth + 1)
        self._origin_cache[local] = res
        return res

    def _analyse(self):
        body = self.body
        prog = self.prog
        for bb in body.normal_blocks():
            blk = body.blocks[bb]
            t = blk["term"]
            if t["k"] == "switch":
                self._switch(bb, blk, t)
            for s in blk["stmts"]:
                if s["k"] == "assign" and s["lhs"]["l"] == 0 and not s["lhs"]["p"]:
                    self._ret_assign(bb, s["rv"])
            if t["k"] == "call" and t["dest"]["l"] == 0 and not t["dest"]["p"]:
                p = term_path(t)
                if p == FROM_RESIDUAL:
                    self.forwarded[bb] = "err"
                elif self.is_result(body.locals[0]):
                    o = bb
                    pol = None
                    if (p in RESULT_ADAPTERS or self._is_result_wrapper(t)) and t["args"]:
                        pl = place_of(t["args"][0])
                        if pl is not None and not pl["p"]:
                            pol = self._literal_polarity(pl["l"])
                            o = self.origin_call(pl["l"])
                            if o is None:       # (block 0 is a valid origin: no `or`)
                                o = bb
                    # `return Err(e).map_err(..)` / `Err(e).context(..)`: the adapter is applied to a literal Err
                    self.forwarded[bb] = pol if pol is not None and p not in (
                        "std::result::Result::or", "std::result::Result::or_else") else ("fwd", o)

    def _ret_assign(self, bb, rv):
        body = self.body
        if not self.is_result(body.locals[0]):
            return
        if rv["k"] == "agg" and rv.get("ak") == "adt" and rv.get("def") == RESULT_DEF:
            self.forwarded[bb] = "ok" if rv["vn"] == "Ok" else "err"
        elif rv["k"] == "use":
            pl = place_of(rv["op"])
            o = self.origin_call(pl["l"]) if pl is not None and not pl["p"] else None
            self.forwarded[bb] = ("fwd", o) if o is not None else "unknown"
        else:
            self.forwarded[bb] = "unknown"

    def _switch(self, bb, blk, t):
        body = self.body
        pl = place_of(t["discr"])
        if pl is None or pl["p"]:
            return
        d = pl["l"]
        # discriminant(_x) in this block
        src = None
        for s in blk["stmts"]:
            if s["k"] == "assign" and s["lhs"]["l"] == d and not s["lhs"]["p"] and s["rv"]["k"] == "discr":
                p = s["rv"]["place"]
                if not p["p"]:
                    src = p["l"]
                elif p["p"] == ["deref"]:
                    # `if let Err(e) = &result`: the discriminant is read through a shared reference to the local
                    rd = body.assignments().get(p["l"], [])
                    if len(rd) == 1 and rd[0][1] != "term" and rd[0][2]["k"] == "ref" and not rd[0][2].get("mut") \
                            and not rd[0][2]["place"]["p"]:
                        src = rd[0][2]["place"]["l"]
        if src is None:
            self._bool_switch(bb, t, d)
            return
        ty = self.prog.types[body.locals[src]]
        origin = None
        if ty.get("k") == "adt" and ty["def"] == "std::ops::ControlFlow":
            defs = body.assignments().get(src, [])
            if len(defs) == 1 and defs[0][1] == "term" and term_path(defs[0][2]) == TRY_BRANCH:
                a = place_of(defs[0][2]["args"][0])
                if a is not None and not a["p"] and self.is_result(body.locals[a["l"]]):
                    origin = self.origin_call(a["l"])
        elif ty.get("k") == "adt" and ty["def"] == RESULT_DEF:
            origin = self.origin_call(src)
        if origin is None:
            return
        listed = dict((v, b) for v, b in t["targets"])
        ok_t = listed.get(0)
        err_t = listed.get(1)
        oth = t["otherwise"]
        if ok_t is None and 1 in listed:
            ok_t = oth
        if err_t is None and 0 in listed:
            # otherwise is Err unless it is the unreachable block
            if body.blocks[oth]["term"]["k"] != "unreachable":
                err_t = oth
        if ok_t is not None:
            self.edge_pol.setdefault((bb, ok_t), []).append((origin, "ok"))
        if err_t is not None:
            self.edge_pol.setdefault((bb, err_t), []).append((origin, "err"))

    def _bool_switch(self, bb, t, d):
        """`if result.is_err() { .. }` / `if result.is_ok() { .. }`: the edges of the test of that bool."""
        body = self.body
        neg = False
        for _ in range(3):
            defs = body.assignments().get(d, [])
            if len(defs) != 1:
                return
            dbb, j, rv = defs[0]
            if j != "term" and rv["k"] == "unop" and rv["op"] == "Not":
                pl = place_of(rv["a"])
                if pl is None or pl["p"]:
                    return
                neg = not neg
                d = pl["l"]
                continue
            if j != "term" and rv["k"] == "use":
                pl = place_of(rv["op"])
                if pl is None or pl["p"]:
                    return
                d = pl["l"]
                continue
            break
        else:
            return
        if j != "term" or term_path(rv) not in ("std::result::Result::is_err", "std::result::Result::is_ok") or not rv["args"]:
            return
        a = place_of(rv["args"][0])
        if a is None or a["p"]:
            return
        rd = body.assignments().get(a["l"], [])
        if not (len(rd) == 1 and rd[0][1] != "term" and rd[0][2]["k"] == "ref" and not rd[0][2]["place"]["p"]):
            return
        x = rd[0][2]["place"]["l"]
        if not self.is_result(body.locals[x]):
            return
        origin = self.origin_call(x)
        if origin is None:
            return
        listed = dict((v, b_) for v, b_ in t["targets"])
        f_t = listed.get(0)
        t_t = t["otherwise"] if 0 in listed else listed.get(1)
        if f_t is None and 1 in listed:
            f_t = t["otherwise"]
        is_err = term_path(rv).endswith("is_err")
        if neg:
            is_err = not is_err
        err_t, ok_t = (t_t, f_t) if is_err else (f_t, t_t)
        if ok_t is not None:
            self.edge_pol.setdefault((bb, ok_t), []).append((origin, "ok"))
        if err_t is not None:
            self.edge_pol.setdefault((bb, err_t), []).append((origin, "err"))

    def ok_edges_of(self, origin_bb):
        return [e for e, lst in self.edge_pol.items() for (o, pol) in lst if o == origin_bb and pol == "ok"]

    def err_edges_of(self, origin_bb):
        return [e for e, lst in self.edge_pol.items() for (o, pol) in lst if o == origin_bb and pol == "err"]


ALL = None      # top element of the must lattice ("every event")


def meet(a, b):
    if a is ALL:
        return b
    if b is ALL:
        return a
    return a & b


class MustFlow(object):
    """Summary-based interprocedural must analysis with optional kills.

    gen(site) -> (events, fallible) for an extern call/drop site; fallible=True means the events
    only count once the Result has been seen Ok (their kills apply at the attempt).
    subst(event, site, callee) -> event | None: instantiates parameter-relative events.
    kills(killer, event) -> bool and killers(site) -> events that may occur at/under the site
    (from MayFlow): an event leaves the must-set when something that may invalidate it may happen.
    """

    def __init__(self, prog, gen, subst=None, concrete=None,
                 once_callbacks=("dyn", "param", "direct", "drop"), pruned=None, kills=None,
                 killers=None, role_events=None, role_ok_events=None):
        self.prog = prog
        self.gen = gen
        self.subst = subst
        self.concrete = concrete
        self.pruned = pruned or (lambda body: ())
        self.kills = kills
        self.killers = killers
        self.role_events = role_events or {}
        self.role_ok_events = role_ok_events or {}
        self.once = set(once_callbacks)
        self.rflow = {}
        self.summ_ret = {}
        self.summ_ok = {}
        self.rel_in = {}        # body path -> {bb: set}
        self.edge_ops = {}      # body path -> {(bb, succ): [ops]}
        self._in_progress = set()

    def rf(self, body):
        r = self.rflow.get(_fk(body))
        if r is None:
            r = ResultFlow(self.prog, body)
            self.rflow[_fk(body)] = r
        return r

    def _sub(self, s, site, tgt):
        if self.subst is None:
            return frozenset(s)
        out = set()
        for e in s:
            r = self.subst(e, site, tgt)
            if r is not None:
                out.add(r)
        return frozenset(out)

    def _callee_summaries(self, site):
        """(must_ret, must_ok) contributed by local code that certainly runs at this site."""
        prog = self.prog
        if site.kind == "call":
            # exactly one of the bound targets runs: intersection. A closure handed to an extern
            # function may run zero times: contributes nothing.
            tgts = [tgt for tgt, how in prog.call_targets(site) if how in self.once]
            if not tgts:
                return None
            ret = ALL
            ok = ALL
            for tgt in tgts:
                self.summarize(tgt)
                ret = meet(ret, self._sub(self.summ_ret.get(tgt.path, frozenset()), site, tgt))
                ok = meet(ok, self._sub(self.summ_ok.get(tgt.path, frozenset()), site, tgt))
            return (ret, ok)
        # drop glue: every local Drop impl in it runs: union
        tgts = [d[1] for d in prog.drop_targets(site.term["ty"]) if d[0] == "local"]
        if not tgts:
            return None
        ret = frozenset()
        for tgt in tgts:
            self.summarize(tgt)
            ret |= self._sub(self.summ_ret.get(tgt.path, frozenset()), site, tgt)
        return (ret, ret)

    def _apply(self, S, ops):
        if S is ALL:
            return S
        for kind, x in ops:
            if kind == "kill":
                if self.kills is not None and x:
                    S = frozenset(e for e in S if not any(self.kills(k, e) for k in x))
            else:
                S = S | x
        return S

    def summarize(self, body):
        if _fk(body) in self.summ_ret or _fk(body) in self._in_progress:
            return
        if not getattr(body, "is_flat", False):
            # a state machine written as a loop over an enum of stages is analysed on its threaded form (the chain of
            # arms it really executes); the facts are handed back block by block
            from . import flat as flatmod
            T = flatmod.thread_view(self.prog, body)
            if T is not None:
                self._in_progress.add(_fk(body))
                self.summarize(T)
                INT = self.rel_in[_fk(T)]
                IN = {}
                for x, fact in INT.items():
                    if T.blocks[x].get("cleanup"):
                        continue
                    ob = T.origin[x][1]
                    IN[ob] = meet(IN.get(ob, ALL), fact)
                self.rel_in[_fk(body)] = IN
                self.edge_ops[_fk(body)] = {}
                self.summ_ret[_fk(body)] = self.summ_ret[_fk(T)]
                self.summ_ok[_fk(body)] = self.summ_ok[_fk(T)]
                self._in_progress.discard(_fk(body))
                return
        self._in_progress.add(_fk(body))
        rf = self.rf(body)
        edge_ops = collections.defaultdict(list)
        ok_bonus = {}       # origin bb -> events to add on its ok edges
        fwd_bonus = {}      # origin bb -> events that count if the result is forwarded as Ok
        for site in body.sites():
            bb = site.bb
            tgt_bb = site.term["t"]
            if self.kills is not None and self.killers is not None and tgt_bb is not None:
                ks = self.killers(site)
                if ks:
                    edge_ops[(bb, tgt_bb)].append(("kill", frozenset(ks)))
            cs = self._callee_summaries(site)
            if cs is not None:
                ret, ok = cs
                if tgt_bb is not None and ret:
                    edge_ops[(bb, tgt_bb)].append(("gen", frozenset(ret)))
                extra = ok - ret
                if extra:
                    ok_bonus.setdefault(bb, set()).update(extra)
                fwd_bonus.setdefault(bb, set()).update(ok)
            g = self.gen(site)
            if g:
                evs, fallible = g
                evs = set(evs)
                if evs:
                    if fallible:
                        ok_bonus.setdefault(bb, set()).update(evs)
                        fwd_bonus.setdefault(bb, set()).update(evs)
                    elif tgt_bb is not None:
                        edge_ops[(bb, tgt_bb)].append(("gen", frozenset(evs)))
        for origin, evs in ok_bonus.items():
            for e in rf.ok_edges_of(origin):
                edge_ops[e].append(("gen", frozenset(evs)))
        # forward must dataflow
        blocks = sorted(body.reachable_blocks())
        pruned = set(self.pruned(body))
        IN = {b: ALL for b in blocks}
        IN[0] = frozenset()
        work = collections.deque([0])
        inq = {0}
        while work:
            b = work.popleft()
            inq.discard(b)
            cur = IN[b]
            if cur is ALL:
                continue
            for s in body.succs(b):
                if (b, s) in pruned:
                    continue
                out = self._apply(cur, edge_ops.get((b, s), ()))
                old = IN.get(s, ALL)
                new = meet(old, out)
                if old is ALL or new != old:
                    IN[s] = new
                    if s not in inq:
                        work.append(s)
                        inq.add(s)
        self.rel_in[_fk(body)] = IN
        self.edge_ops[_fk(body)] = edge_ops
        # summaries
        ret = ALL
        for rb in body.return_blocks():
            if rb in IN and IN[rb] is not ALL:
                ret = meet(ret, IN[rb])
        if ret is ALL:
            ret = frozenset()
        ok = ALL
        if rf.is_result(body.locals[0]):
            any_exit = False
            for bb, kind in rf.forwarded.items():
                if bb not in IN or IN[bb] is ALL:
                    continue
                if kind == "err":
                    continue
                any_exit = True
                cur = set(IN[bb])
                if isinstance(kind, tuple):
                    cur |= fwd_bonus.get(kind[1], set())
                ok = meet(ok, frozenset(cur))
            if not any_exit:
                ok = ret
        else:
            ok = ret
        if ok is ALL:
            ok = frozenset()
        role = frozenset(self.role_events.get(body.path, ()))
        self.summ_ret[_fk(body)] = frozenset(ret) | role
        self.summ_ok[_fk(body)] = frozenset(ok) | frozenset(ret) | role | frozenset(
            self.role_ok_events.get(body.path, ()))
        self._in_progress.discard(_fk(body))

    # ---- contexts ----
    def entry_sets(self, roots):
        """ENTRY[f] = events that hold on every call chain from a root to f's entry."""
        prog = self.prog
        ENTRY = {}
        for r in roots:
            self.summarize(r)
            ENTRY[r.path] = frozenset()
        work = collections.deque(r.path for r in roots)
        rootset = set(r.path for r in roots)
        while work:
            p = work.popleft()
            body = prog.bodies[p]
            self.summarize(body)
            IN = self.rel_in[p]
            base = ENTRY[p]
            for site in body.sites():
                at = self._at(base, body, IN, site.bb)
                if at is None:
                    continue
                if site.kind == "call":
                    tgts = [t for t, how in prog.call_targets(site)]
                else:
                    tgts = [d[1] for d in prog.drop_targets(site.term["ty"]) if d[0] == "local"]
                for tgt in tgts:
                    if tgt.path in rootset:
                        continue
                    ctx = at
                    if self.concrete is not None:
                        ctx = frozenset(e for e in at if self.concrete(e))
                    old = ENTRY.get(tgt.path, ALL)
                    new = meet(old, ctx)
                    if old is ALL or new != old:
                        ENTRY[tgt.path] = new
                        work.append(tgt.path)
        return ENTRY

    def _at(self, base, body, IN, bb):
        rel = IN.get(bb, ALL)
        if rel is ALL:
            return None
        if self.kills is None or not base:
            return base | rel
        # events of the context survive unless something on the way into this block may kill them:
        # conservatively drop context events that any event in the body's own may-set kills
        return self._ctx_filter(base, body) | rel

    def _ctx_filter(self, base, body):
        key = ("ctx", body.path)
        ks = self.rel_in.get(key)
        if ks is None:
            ks = set()
            if self.killers is not None:
                for site in body.sites():
                    ks |= set(self.killers(site))
            self.rel_in[key] = ks
        return frozenset(e for e in base if not any(self.kills(k, e) for k in ks))

    def at_site(self, ENTRY, site):
        """Must-set just before the terminator of site (entry context included); None if unreachable."""
        p = site.body.path
        if p not in ENTRY:
            return None
        self.summarize(site.body)
        return self._at(ENTRY[p], site.body, self.rel_in[p], site.bb)


class MayFlow(object):
    """May-happened-before: events that may have occurred earlier in the same top-level call.

    gen(site) -> iterable of events attempted at an extern call/drop site (no Ok-sensitivity)."""

    def __init__(self, prog, gen, subst=None, concrete=None):
        self.prog = prog
        self.gen = gen
        self.subst = subst
        self.concrete = concrete
        self._all = {}
        self._own = {}
        self.rel_in = {}
        self._closure()

    def _targets(self, site):
        prog = self.prog
        if site.kind == "call":
            return [t for t, how in prog.call_targets(site)]
        return [d[1] for d in prog.drop_targets(site.term["ty"]) if d[0] == "local"]

    def _closure(self):
        prog = self.prog
        own = {}
        callees = {}
        for b in prog.bodies.values():
            evs = set()
            cs = []
            for site in b.sites():
                for e in (self.gen(site) or ()):
                    evs.add(e)
                for t in self._targets(site):
                    cs.append((site, t))
            own[b.path] = evs
            callees[b.path] = cs
        allev = {p: set(s) for p, s in own.items()}
        changed = True
        while changed:
            changed = False
            for p in allev:
                for site, t in callees[p]:
                    add = allev[t.path]
                    if self.subst is not None:
                        add = set(x for x in (self.subst(e, site, t) for e in add) if x is not None)
                    if not add <= allev[p]:
                        allev[p] |= add
                        changed = True
        self._all = allev
        self._own = own
        self._callees = callees

    def all_events(self, body_path):
        return self._all.get(body_path, set())

    def site_events(self, site):
        out = set(self.gen(site) or ())
        for t in self._targets(site):
            add = self._all[t.path]
            if self.subst is not None:
                add = set(x for x in (self.subst(e, site, t) for e in add) if x is not None)
            out |= add
        return out

    def solve_body(self, body):
        """IN[bb] = events that may have happened before bb in this body; path-sensitive on drop flags (a flag-guarded
        drop is only reached along paths on which the flag is still set)."""
        if _fk(body) in self.rel_in:
            return self.rel_in[_fk(body)]
        prod = body.flag_product()
        if prod is None:
            entry = 0
            succ_of = lambda n: body.succs(n)
            bb_of = lambda n: n
        else:
            entry, succ = prod
            succ_of = lambda n: succ.get(n, ())
            bb_of = lambda n: n[0]
        gen_cache = {}

        def gen_of(b):
            if b not in gen_cache:
                t = body.blocks[b]["term"]
                g = frozenset()
                if t["k"] in ("call", "drop"):
                    g = frozenset(self.site_events(Site(body, b, t)))
                gen_cache[b] = g
            return gen_cache[b]
        INN = {entry: frozenset()}
        work = collections.deque([entry])
        inq = {entry}
        while work:
            n = work.popleft()
            inq.discard(n)
            out = INN[n] | gen_of(bb_of(n))
            for s in succ_of(n):
                if s not in INN:
                    INN[s] = out
                    changed = True
                else:
                    changed = not out <= INN[s]
                    if changed:
                        INN[s] = INN[s] | out
                if changed and s not in inq:
                    work.append(s)
                    inq.add(s)
        IN = {}
        for n, v in INN.items():
            b = bb_of(n)
            IN[b] = v if b not in IN else (IN[b] | v)
        self.rel_in[_fk(body)] = IN
        return IN

    def entry_sets(self, roots):
        prog = self.prog
        ENTRY = {r.path: frozenset() for r in roots}
        work = collections.deque(ENTRY.keys())
        while work:
            p = work.popleft()
            body = prog.bodies[p]
            IN = self.solve_body(body)
            for site in body.sites():
                if site.bb not in IN:
                    continue
                at = ENTRY[p] | IN[site.bb]
                if self.concrete is not None:
                    at = frozenset(e for e in at if self.concrete(e))
                for t in self._targets(site):
                    q = t.path
                    if q not in ENTRY:
                        ENTRY[q] = at
                        work.append(q)
                    elif not at <= ENTRY[q]:
                        ENTRY[q] = ENTRY[q] | at
                        work.append(q)
        return ENTRY

    def before_site(self, ENTRY, site):
        p = site.body.path
        if p not in ENTRY:
            return None
        IN = self.solve_body(site.body)
        if site.bb not in IN:
            return None
        return ENTRY[p] | IN[site.bb]
