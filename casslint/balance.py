"""Bounded path enumeration with symbolic outcomes (component I) for the body that applies an operation to
the key map: reference-count / statistics balance on every path.

Along each acyclic path (loops unrolled `unroll` times) the walker records
  ins(key, hash H, size S, prev?)   rem(key, found?)        - key-map operations and their outcome
  inc(h, first?)   dec(h, zero?)                             - refcount primitives and what they reported
  push(h)                                                     - hash appended to the returned list
  stat(field, +/-, amount)                                    - statistics updates
  eq(a, b) / ne(a, b)                                         - outcome of hash comparisons
and judges the path when it reaches an Ok return.
"""
from . import cfgutil
from .core import FN_TRAIT_CALLS, Site, term_path
from .ctx import sem, sem_set, ANCHOR_FIELDS
from .prov import Slicer, fmt_leaf, binops_in
from .vfg import place_of


def canon(leaves):
    return frozenset(leaves)


class UF(object):
    def __init__(self):
        self.p = {}

    def find(self, x):
        self.p.setdefault(x, x)
        while self.p[x] != x:
            self.p[x] = self.p[self.p[x]]
            x = self.p[x]
        return x

    def union(self, a, b):
        self.p[self.find(a)] = self.find(b)


class PathState(object):
    def __init__(self):
        self.events = []        # dicts; outcomes ("res"/"opt"/"bool") are filled in when the path tests them
        self.last = {}          # call bb -> index of its latest event
        self.uf = UF()
        self.neq = set()
        self.pol = {}           # local -> "ok"/"err": known polarity of a Result / ControlFlow value on this path

    def clone(self):
        s = PathState()
        s.pol = dict(self.pol)
        s.events = [dict(e) for e in self.events]
        s.last = dict(self.last)
        s.uf.p = dict(self.uf.p)
        s.neq = set(self.neq)
        return s


def enum_indicator(prog, ty_ix):
    """The crate-local two-variant fieldless enum a type is (`RefGain { FirstReference, AdditionalReference }` in place
    of a bool), or None."""
    d = prog.adt_of(ty_ix)[0]
    a = prog.adts.get(d)
    if prog.types[ty_ix].get("k") != "adt" or a is None or a.get("kind") != "Enum" or len(a["variants"]) != 2:
        return None
    if any(v["fields"] for v in a["variants"]):
        return None
    return d


def first_variant(prog, tgt):
    """For an increment primitive that answers with a two-variant enum: the index of the variant it answers when the
    count was zero before the increment (`match *count { 0 => A, _ => B }` / `if *count == 0 { A } else { B }`)."""
    from . import cfgutil as cu
    d = enum_indicator(prog, tgt.locals[0])
    if d is None:
        return None

    def variant_assigned_from(start, stop):
        """variant index of the enum aggregate built on the way from block `start` (not passing `stop`)."""
        seen = set()
        work = [start]
        found = set()
        while work:
            x = work.pop()
            if x in seen or x == stop:
                continue
            seen.add(x)
            hit = False
            for st in tgt.stmts(x):
                if st["k"] == "assign" and st["rv"]["k"] == "agg" and st["rv"].get("def") == d:
                    found.add(st["rv"].get("variant"))
                    hit = True
            if not hit:
                work.extend(tgt.succs(x))
        return found
    for sw in tgt.normal_blocks():
        t = tgt.blocks[sw]["term"]
        if t["k"] != "switch":
            continue
        listed = dict((v, x) for v, x in t["targets"])
        c = cu.eq_edges(tgt, sw)
        zero_t = other_t = None
        if c is not None:
            a, b_, t_eq, t_ne = c
            if any("const" in o and o["const"].get("v") == 0 for o in (a, b_)):
                zero_t, other_t = t_eq, t_ne
        elif 0 in listed and len(listed) == 1:
            zero_t, other_t = listed[0], t["otherwise"]
        if zero_t is None or other_t is None:
            continue
        va = variant_assigned_from(zero_t, other_t)
        vb = variant_assigned_from(other_t, zero_t)
        if len(va) == 1 and len(vb) == 1 and va != vb:
            return list(va)[0]
    return None


class ApplyBody(object):
    def __init__(self, ctx, body):
        self.ctx = ctx
        self.body = body
        self.prog = ctx.prog
        self.sl = Slicer(ctx.world, body, follow_local=False)
        self.A = ctx.anchors
        self.item = self.A.get("ITEM")
        fields = self.prog.adts[self.item]["variants"][0]["fields"]
        self.hash_f = [f["name"] for f in fields if self.prog.adt_of(f["ty"])[0] == self.A.get("HASH")][0]
        self.size_f = [f["name"] for f in fields if self.prog.ty_str(f["ty"]) == "u64"][0]
        self.roles = {}         # bb -> ("ins"|"rem"|"inc"|"dec"|"push"|"ne"|"eq", ...)
        self.problems = []
        self._classify()

    def through_prims(self, leaves):
        """A field of the item a refcount primitive hands back (`dec(item)? -> Some(item)`) is that field of the item it
        was given."""
        prims = getattr(self, "item_prims", {})
        if not prims:
            return leaves
        out = set()
        for l in leaves:
            if l[0] == "call" and l[2] in prims and l[-1]:
                out |= self.sl.leaves_of_operand(prims[l[2]], path=tuple(l[-1]))
            else:
                out.add(l)
        return out

    # ---- primitives by role ----
    def _callee_kind(self, site):
        prog = self.prog
        tgt = prog.local_target(site)
        if tgt is None:
            return None
        evs = self.ctx.may.all_events(tgt.path)
        if not any(e[0] == "CONT" and ANCHOR_FIELDS.get(e[1]) == "REFCNT" and e[3] for e in evs):
            return None
        if any(e[0] == "CONT" and ANCHOR_FIELDS.get(e[1]) == "KEYMAP" and e[3] for e in evs):
            return None
        rt = prog.ty_str(tgt.locals[0])
        if rt == "bool":
            return "inc"
        if enum_indicator(prog, tgt.locals[0]) is not None and first_variant(prog, tgt) is not None:
            self.inc_enums = getattr(self, "inc_enums", {})
            self.inc_enums[enum_indicator(prog, tgt.locals[0])] = first_variant(prog, tgt)
            return "inc"
        if rt.startswith("std::result::Result<std::option::Option<"):
            return "dec"
        return "refcnt?"

    def _classify(self):
        b = self.body
        sl = self.sl
        # refcount primitives that are handed the whole item (and may hand it back): known before anything that
        # mentions their result is canonicalised
        self.item_prims = {}
        for site in b.calls():
            if self._callee_kind(site) in ("inc", "dec") and len(site.term["args"]) > 1:
                pl1 = place_of(site.term["args"][1])
                aty = self.ctx.world._place_ty(b, pl1) if pl1 is not None else None
                if aty is not None and self.prog.adt_of(aty)[0] == self.item:
                    self.item_prims[site.bb] = site.term["args"][1]
        for site in b.calls():
            p = site.path or ""
            args = site.term["args"]
            cus = [cu for cu in self.ctx.world.container_uses if cu.site.key() == site.key()]
            if cus and ANCHOR_FIELDS.get(cus[0].field) == "KEYMAP" and cus[0].mutable:
                if cus[0].method == "insert":
                    self.roles[site.bb] = ("ins", canon(sl.leaves_of_operand(args[1])),
                                           canon(sl.leaves_of_operand(args[2], path=(self.hash_f,))),
                                           canon(sl.leaves_of_operand(args[2], path=(self.size_f,))))
                elif cus[0].method == "remove":
                    self.roles[site.bb] = ("rem", canon(sl.leaves_of_operand(args[1])))
                else:
                    self.roles[site.bb] = ("other-keymap", cus[0].method)
                continue
            k = self._callee_kind(site)
            if k in ("inc", "dec"):
                # the primitive is handed the hash, or the whole item whose hash it counts
                pl1 = place_of(args[1]) if len(args) > 1 else None
                aty = self.ctx.world._place_ty(b, pl1) if pl1 is not None else None
                takes_item = aty is not None and self.prog.adt_of(aty)[0] == self.item
                self.roles[site.bb] = (k, canon(sl.leaves_of_operand(args[1], path=(self.hash_f,) if takes_item else ())))
                continue
            if k == "refcnt?":
                self.problems.append("unrecognised refcount primitive %s" % p)
            if cus and ANCHOR_FIELDS.get(cus[0].field) == "REFCNT" and cus[0].mutable:
                self.problems.append("the apply body mutates the refcount map directly (%s)" % cus[0].method)
            if p == "std::vec::Vec::push":
                v = self.ctx.world.borrowed_local(b, args[0])
                self.roles[site.bb] = ("push", v, canon(sl.leaves_of_operand(args[1])))
                continue
            if p in FN_TRAIT_CALLS and len(args) == 2 and not self.prog.call_targets(site) or (
                    p in FN_TRAIT_CALLS and len(args) == 2 and all(how == "param" for _, how in self.prog.call_targets(site))):
                # `on_freed(hash)`: the dereferenced hash is reported through a callback parameter instead of being
                # pushed to a returned list - the callback is the list
                tpl = place_of(args[1])
                tty = self.prog.types[b.locals[tpl["l"]]] if tpl is not None and not tpl["p"] else {}
                comps = [a for a in tty.get("args", []) if isinstance(a, int)] if tty.get("k") == "tuple" else []
                if len(comps) == 1 and self.prog.adt_of(comps[0])[0] == self.A.get("HASH"):
                    v = self.ctx.world.borrowed_local(b, args[0])
                    if v is None and place_of(args[0]) is not None:
                        v = place_of(args[0])["l"]
                    self.roles[site.bb] = ("push", v, canon(sl.leaves_of_operand(args[1], path=("#0",))))
                    continue
            if p in ("std::cmp::PartialEq::ne", "std::cmp::PartialEq::eq"):
                t0 = self.ctx.world._place_ty(b, place_of(args[0])) if place_of(args[0]) else None
                if t0 is not None and self.prog.adt_of(t0)[0] == self.A.get("HASH"):
                    self.roles[site.bb] = ("cmp", p.split("::")[-1], canon(sl.leaves_of_operand(args[0])),
                                           canon(sl.leaves_of_operand(args[1])))
        # statistic updates: statements writing fields of the stats struct (looked up by the original location of
        # each block, so that they are found in a flat view as well)
        self.stat_writes = {}
        by_origin = {}
        for w in self.ctx.world.field_writes:
            by_origin.setdefault((w.body.path, w.bb), []).append(w)
        for fb in b.normal_blocks():
            for w in by_origin.get(b.origin_key(fb), ()):
                ft = self.ctx.world._field_ty(w.field)
                if ft is None or self.prog.ty_str(ft) != "u64":
                    continue
                if w.field[1] == self.prog.adts[self.A["STATE"]]["path"]:
                    continue
                stmts = b.blocks[fb]["stmts"]
                if w.idx >= len(stmts) or stmts[w.idx]["k"] != "assign":
                    continue
                rv = stmts[w.idx]["rv"]        # this view's copy of the statement (locals renumbered)
                lv = sl.leaves_of_rv(rv, fb) if rv["k"] in ("use", "binop") else set()
                for l in lv:
                    if l[0] == "binop":
                        ops_here = [(None, rv["op"], rv["a"], rv["b"])] if rv["k"] == "binop" else binops_in(b, l[2])
                        for (lhs, op, a, bo) in ops_here:
                            sign = "+" if op.startswith("Add") else ("-" if op.startswith("Sub") else None)
                            if sign is None:
                                continue
                            amt = canon(self.through_prims(sl.leaves_of_operand(bo)))
                            self.stat_writes.setdefault(fb, []).append((w.field[2], sign, amt))
        # statistic updates delegated to a straight-line helper of the state (`self.blob_added(size)`): inlined
        for site in b.calls():
            tgt = self.prog.local_target(site)
            if tgt is None or site.bb in self.roles:
                continue
            ws = [w for w in self.ctx.world.field_writes if w.body.path == tgt.path]
            if not ws:
                continue
            if any(e[0] == "CONT" and e[3] for e in self.ctx.may.all_events(tgt.path)):
                continue
            stat_ws = []
            for w in ws:
                ft = self.ctx.world._field_ty(w.field)
                if ft is not None and self.prog.ty_str(ft) == "u64" and \
                        w.field[1] != self.prog.adts[self.A["STATE"]]["path"]:
                    stat_ws.append(w)
            if not stat_ws:
                continue
            if any(tgt.blocks[x]["term"]["k"] == "switch" for x in tgt.normal_blocks()):
                self.problems.append("statistics are updated by %s under a condition of its own (not followed)" % tgt.path)
                continue
            tsl = Slicer(self.ctx.world, tgt, follow_local=False)
            for w in stat_ws:
                lv = tsl.leaves_of_rv(w.rv, w.bb) if w.rv["k"] in ("use", "binop") else set()
                for l in lv:
                    if l[0] != "binop":
                        continue
                    ops_here = [(None, w.rv["op"], w.rv["a"], w.rv["b"])] if w.rv["k"] == "binop" else binops_in(tgt, l[2])
                    for (lhs, op, a, bo) in ops_here:
                        sign = "+" if op.startswith("Add") else ("-" if op.startswith("Sub") else None)
                        if sign is None:
                            continue
                        amt = set()
                        for x in tsl.leaves_of_operand(bo):
                            if x[0] == "param" and x[1] - 1 < len(site.term["args"]):
                                amt |= sl.leaves_of_operand(site.term["args"][x[1] - 1], x[2])
                            else:
                                amt.add(x)
                        self.stat_writes.setdefault(site.bb, []).append((w.field[2], sign, canon(amt)))
        # unit increments of plain local counters (a count the body may report to its caller)
        from .prov import root_local
        self.count_adds = {}
        for bb in b.normal_blocks():
            for (lhs, op, a, bo) in binops_in(b, bb):
                if not op.startswith("Add"):
                    continue
                if not ("const" in bo and bo["const"].get("v") == 1):
                    continue
                c = root_local(b, a)
                if isinstance(c, int) and c > b.argc and self.prog.types[b.locals[c]].get("k") == "prim":
                    self.count_adds.setdefault(bb, []).append(c)

    # ---- switch interpretation ----
    def _switch_outcomes(self, bb):
        """For a switch block: list of (target, fact) where fact = (origin call bb, outcome)."""
        b = self.body
        t = b.blocks[bb]["term"]
        c = cfgutil.switch_condition(b, bb)
        out = {}
        if c is None:
            return out
        edges = cfgutil.switch_edges(b, bb)
        if c[0] == "discr":
            pl = c[1]
            ty = self.prog.types[self.ctx.world._place_ty(b, pl)]
            lv = self.sl.leaves_of_place(pl)
            calls = [l for l in lv if l[0] == "call" and l[2] in self.roles]
            if len(calls) != 1 or len(lv) != 1:
                return out
            origin = calls[0][2]
            d = ty.get("def")
            for v, tgt in edges.items():
                if tgt is None or b.blocks[tgt]["term"]["k"] == "unreachable":
                    continue
                if d in ("std::ops::ControlFlow", "std::result::Result"):
                    val = v if v != "otherwise" else (1 if 0 in edges else 0)
                    out[tgt] = (origin, "ok" if val == 0 else "err")
                elif d == "std::option::Option":
                    val = v if v != "otherwise" else (0 if 1 in edges else 1)
                    out[tgt] = (origin, "some" if val == 1 else "none")
                elif d in getattr(self, "inc_enums", {}):
                    # the two-variant answer of the increment primitive: "first reference" or not
                    listed = [x for x in edges if x != "otherwise"]
                    val = v if v != "otherwise" else (1 - listed[0] if listed in ([0], [1]) else None)
                    if val is not None:
                        out[tgt] = (origin, "true" if val == self.inc_enums[d] else "false")
            return out
        if c[0] in ("bool", "call", "cmp"):
            if c[0] == "call":
                origin = c[4]
                neg = c[3]
            elif c[0] == "cmp":
                origin = c[5]           # comparison performed by a call (PartialEq::eq/ne)
                neg = c[4]
            else:
                lv = self.sl.leaves_of_operand(c[1])
                calls = [l for l in lv if l[0] == "call" and l[2] in self.roles]
                if len(calls) != 1 or len(lv) != 1:
                    return out
                origin = calls[0][2]
                neg = False
            if origin not in self.roles:
                return out
            tt, ff = cfgutil.true_false_edges(b, bb)
            if neg:
                tt, ff = ff, tt
            if tt is not None:
                out[tt] = (origin, "true")
            if ff is not None:
                out[ff] = (origin, "false")
        return out

    # ---- enumeration ----
    def paths(self, unroll=1, limit=4000):
        b = self.body
        rf = self.ctx.rf(b)
        results = []
        stack = [(0, PathState(), {})]
        n = 0
        while stack:
            bb, st, visits = stack.pop()
            n += 1
            if n > limit:
                self.problems.append("path enumeration limit reached")
                break
            visits = dict(visits)
            visits[bb] = visits.get(bb, 0) + 1
            if visits[bb] > unroll + 1:
                continue
            # statements: stat writes
            for (fname, sign, amt) in self.stat_writes.get(bb, []):
                st.events.append({"k": "stat", "field": fname, "sign": sign, "amt": amt, "bb": bb})
            for c in self.count_adds.get(bb, []):
                st.events.append({"k": "count", "local": c, "bb": bb})
            t = b.blocks[bb]["term"]
            k = t["k"]
            # polarity of Result values built or forwarded on this path (an inlined helper that returns Err makes the
            # caller's `?` take the Break edge: the other edge is not a path)
            discr_src = {}
            for s_ in b.blocks[bb]["stmts"]:
                if s_["k"] != "assign" or s_["lhs"]["p"]:
                    continue
                l_ = s_["lhs"]["l"]
                rv = s_["rv"]
                if rv["k"] == "agg" and rv.get("def") in ("std::result::Result", "std::ops::ControlFlow"):
                    st.pol[l_] = "ok" if rv.get("vn") in ("Ok", "Continue") else "err"
                elif rv["k"] == "agg" and rv.get("def") == "std::option::Option":
                    # a literal `None` / `Some(..)` handed to an inlined helper: its `if let Some(..)` is decided
                    st.pol[l_] = "some" if rv.get("vn") == "Some" else "none"
                elif rv["k"] == "agg" and rv.get("ak") == "tuple":
                    st.pol.pop(l_, None)
                    for i_, o_ in enumerate(rv["ops"]):
                        po_ = place_of(o_)
                        if po_ is not None and not po_["p"] and po_["l"] in st.pol:
                            st.pol[(l_, i_)] = st.pol[po_["l"]]
                        else:
                            st.pol.pop((l_, i_), None)
                elif rv["k"] == "use" and place_of(rv["op"]) is not None and not place_of(rv["op"])["p"] and \
                        place_of(rv["op"])["l"] in st.pol:
                    st.pol[l_] = st.pol[place_of(rv["op"])["l"]]
                    if l_ == 0 and rf.forwarded.get(bb) not in ("ok", "err"):
                        # the view's own result is the (inlined) helper's: its polarity on this path is known
                        st.events.append({"k": "ok-return" if st.pol[l_] == "ok" else "err-return", "bb": bb})
                elif rv["k"] == "discr" and not rv["place"]["p"]:
                    discr_src[l_] = rv["place"]["l"]
                elif rv["k"] == "discr" and len(rv["place"]["p"]) == 1 and isinstance(rv["place"]["p"][0], dict) \
                        and "f" in rv["place"]["p"][0] and "adt" not in rv["place"]["p"][0]:
                    discr_src[l_] = (rv["place"]["l"], rv["place"]["p"][0]["f"])        # component of a tuple
                else:
                    st.pol.pop(l_, None)
            if k == "call" and not t["dest"]["p"]:
                p_ = term_path(t)
                dl = t["dest"]["l"]
                if p_ == "std::ops::FromResidual::from_residual":
                    st.pol[dl] = "err"
                elif p_ == "std::ops::Try::branch" and t["args"] and place_of(t["args"][0]) is not None and \
                        not place_of(t["args"][0])["p"] and place_of(t["args"][0])["l"] in st.pol:
                    st.pol[dl] = st.pol[place_of(t["args"][0])["l"]]
                else:
                    st.pol.pop(dl, None)
            if k == "return":
                results.append(("return", st))
                continue
            if bb in rf.forwarded and rf.forwarded[bb] == "ok":
                st.events.append({"k": "ok-return", "bb": bb})
            if bb in rf.forwarded and rf.forwarded[bb] == "err":
                st.events.append({"k": "err-return", "bb": bb})
            role = self.roles.get(bb)
            if role is not None and k == "call":
                st.last[bb] = len(st.events)
                st.events.append({"k": role[0], "bb": bb, "args": tuple(role[1:])})
            if k == "switch":
                outs = self._switch_outcomes(bb)
                only = None
                dpl = place_of(t["discr"])
                if dpl is not None and not dpl["p"] and dpl["l"] in discr_src and discr_src[dpl["l"]] in st.pol:
                    val = 0 if st.pol[discr_src[dpl["l"]]] in ("ok", "none") else 1
                    listed = dict((v_, x_) for v_, x_ in t["targets"])
                    only = listed.get(val, t["otherwise"])
                for s in b.succs(bb):
                    if b.blocks[s]["term"]["k"] == "unreachable":
                        continue
                    if only is not None and s != only:
                        continue
                    st2 = st.clone()
                    if s in outs:
                        origin, outcome = outs[s]
                        idx = st2.last.get(origin)
                        if idx is None:
                            continue
                        prev = st2.events[idx].get(_level(outcome))
                        if prev is not None and prev != outcome:
                            continue        # infeasible: contradicts an earlier test of the same value
                        st2.events[idx][_level(outcome)] = outcome
                        r = self.roles.get(origin)
                        if r and r[0] == "cmp" and outcome in ("true", "false"):
                            same = (r[1] == "eq") == (outcome == "true")
                            if same:
                                st2.uf.union(r[2], r[3])
                            else:
                                st2.neq.add((r[2], r[3]))
                    stack.append((s, st2, visits))
                continue
            if k == "call" and t["t"] is None:
                results.append(("diverge", st))
                continue
            for s in b.succs(bb):
                stack.append((s, st.clone() if len(b.succs(bb)) > 1 else st, visits))
        return results


def _level(outcome):
    return {"ok": "res", "err": "res", "some": "opt", "none": "opt", "true": "bool", "false": "bool"}[outcome]


def judge_path(ab, st):
    """Returns list of (ok, construct, message) for one completed Ok path."""
    out = []
    ev = st.events
    if not any(e["k"] == "ok-return" for e in ev) or any(e["k"] == "err-return" for e in ev):
        return None
    find = st.uf.find
    mapping = {}
    refcnt = {}
    zero_syms = []
    first_syms = []
    pushes = []
    stats = []
    size_of = {}
    desc = []
    for i, e in enumerate(ev):
        k = e["k"]
        if k == "ins":
            key, H, S = e["args"]
            mapping[H] = mapping.get(H, 0) + 1
            size_of[H] = S
            prev = e.get("opt")
            desc.append("insert(prev=%s)" % prev)
            if prev == "some":
                P = canon([("call", "std::collections::BTreeMap::insert", e["bb"], (ab.hash_f,))])
                PS = canon([("call", "std::collections::BTreeMap::insert", e["bb"], (ab.size_f,))])
                mapping[P] = mapping.get(P, 0) - 1
                size_of.setdefault(P, PS)
            elif prev is None:
                out.append((False, "insert-outcome", "the result of the key-map insert is not examined on this path"))
        elif k == "rem":
            found = e.get("opt")
            desc.append("remove(found=%s)" % found)
            if found == "some":
                P = canon([("call", "std::collections::BTreeMap::remove", e["bb"], (ab.hash_f,))])
                PS = canon([("call", "std::collections::BTreeMap::remove", e["bb"], (ab.size_f,))])
                mapping[P] = mapping.get(P, 0) - 1
                size_of.setdefault(P, PS)
            elif found is None:
                out.append((False, "remove-outcome", "the result of the key-map remove is not examined on this path"))
        elif k == "inc":
            h = e["args"][0]
            refcnt[h] = refcnt.get(h, 0) + 1
            desc.append("inc(first=%s)" % e.get("bool"))
            if e.get("bool") == "true":
                first_syms.append(h)
        elif k == "dec":
            h = e["args"][0]
            if e.get("res") == "ok":
                refcnt[h] = refcnt.get(h, 0) - 1
                desc.append("dec(zero=%s)" % e.get("opt"))
                if e.get("opt") == "some":
                    zero_syms.append((h, i))
            else:
                out.append((False, "dec-result", "a decrement whose result is not checked for Ok on a path that returns Ok"))
        elif k == "push":
            pushes.append((e["args"][0], e["args"][1], i))
        elif k == "stat":
            stats.append(e)

    want = getattr(ab, "count_locals", None)
    if want:
        n_removed = sum(1 for e in ev if e["k"] == "rem" and e.get("opt") == "some")
        for c in sorted(want):
            n_c = sum(1 for e in ev if e["k"] == "count" and e["local"] == c)
            out.append((n_c == n_removed, "count",
                        "path [%s]: the reported counter is advanced %d time(s), %d mapping(s) removed" % (
                            " ; ".join(desc) or "(no key-map operation)", n_c, n_removed)))

    def norm(d):
        o = {}
        for kk, v in d.items():
            o[find(kk)] = o.get(find(kk), 0) + v
        return o
    mapping = norm(mapping)
    refcnt = norm(refcnt)
    path = " ; ".join(desc) or "(no key-map operation)"
    for s in sorted(set(mapping) | set(refcnt), key=str):
        m, rc = mapping.get(s, 0), refcnt.get(s, 0)
        out.append((m == rc, "balance", "path [%s]: mappings %+d, refcount %+d for %s" % (path, m, rc, _sym(s))))
    # pushes: the pushed value is the payload of a decrement that reported zero; every such hash is pushed
    pushed_events = set()
    for (vec, val, i) in pushes:
        decs = [l for l in val if l[0] == "call" and ab.roles.get(l[2], ("",))[0] == "dec"]
        if len(decs) == 1 and len(val) == 1:
            # the latest dec event of that bb before this push
            cand = [j for j, e2 in enumerate(ev[:i]) if e2["k"] == "dec" and e2["bb"] == decs[0][2]]
            okp = bool(cand) and ev[cand[-1]].get("opt") == "some"
            if cand:
                pushed_events.add(cand[-1])
            out.append((okp, "push-only-zero",
                        "path [%s]: the hash pushed to the delete list is one whose decrement reported zero" % path))
        else:
            out.append((False, "push-origin", "path [%s]: a value of origin %s is pushed to the delete list" % (
                path, sorted(fmt_leaf(l) for l in val))))
    for (h, i) in zero_syms:
        out.append((i in pushed_events, "zero-is-pushed",
                    "path [%s]: the hash whose refcount reached zero (%s) is handed to the delete list" % (path, _sym(h))))
    # statistics
    exp_unique = len(first_syms) - len(zero_syms)
    got_unique = 0
    bytes_terms = []
    for e in stats:
        fname, sign, amt = e["field"], e["sign"], e["amt"]
        if "unique" in fname or "count" in fname or "blobs" in fname:
            if all(l[0] == "const" and l[1] == 1 for l in amt):
                got_unique += 1 if sign == "+" else -1
            else:
                out.append((False, "stat-unit", "path [%s]: %s changes by a non-unit amount" % (path, fname)))
        elif "bytes" in fname or "size" in fname:
            bytes_terms.append((sign, amt))
    if first_syms or zero_syms or stats:
        out.append((got_unique == exp_unique, "stat-unique",
                    "path [%s]: distinct-blob counter %+d, first-references minus reached-zero %+d" % (path, got_unique, exp_unique)))
        exp_terms = []
        for h in first_syms:
            exp_terms.append(("+", size_of.get(h) or size_of.get(find(h))))
        for (h, i) in zero_syms:
            exp_terms.append(("-", size_of.get(h) or size_of.get(find(h))))

        def tkey(t):
            return (t[0], tuple(sorted(map(str, t[1]))) if t[1] is not None else None)
        okb = sorted(map(tkey, bytes_terms)) == sorted(map(tkey, exp_terms))
        out.append((okb, "stat-bytes",
                    "path [%s]: byte counter terms %s, expected %s" % (
                        path, [(s_, sorted(fmt_leaf(l) for l in a)) for s_, a in bytes_terms],
                        [(s_, sorted(fmt_leaf(l) for l in a) if a else None) for s_, a in exp_terms])))
    return out


def _sym(s):
    return "/".join(sorted(fmt_leaf(l) for l in s))
