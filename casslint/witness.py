"""Thorough tier: compile-fail witnesses (witness/ doctest crate, path-depending on /repo's working tree).

Nothing of cassadilia is executed: `compile_fail` blocks must be rejected by rustc with the stated error code,
their `no_run` twins must compile."""
import fcntl
import hashlib
import json
import os
import re
import shutil
import subprocess

from . import extract

WDIR = os.path.join(extract.VERIF, "witness")
TARGET = os.path.join(extract.CACHE, "witness-target")

# witness -> (properties it supports, what it shows)
WITNESSES = {
    "W1FinishConsumes": (("C06", "C13"), "a finished transaction cannot be written to (finish consumes it)"),
    "W2aIndexFieldPrivate": (("C01", "C04", "C05", "C12"), "the index manager of a handle is unreachable from outside"),
    "W2bCasManagerFieldPrivate": (("C06", "C07", "C08"), "the CAS manager of a handle is unreachable from outside"),
    "W2cLockFilePrivate": (("C11",), "the directory lock handle cannot be taken out of a handle"),
    "W2dModulesPrivate": (("C02", "C03", "C10", "C16", "C20"), "wal, index, cas_manager and serialization are private modules"),
    "W3ReadViewImmutable": (("C01", "C05"), "the public read view offers no mutable access"),
    "W4KeyBounds": (("C01",), "a store opens only for a key type with a total order and a byte codec"),
}


def run_all(root=None, tree_digest=""):
    """Runs the doctests once per (tree, witness source) and returns {witness: {"ok": bool, "tests": [...]}}."""
    root = root or extract.REPO
    h = hashlib.sha256()
    h.update(tree_digest.encode())
    h.update(os.path.realpath(root).encode())
    with open(os.path.join(WDIR, "src", "lib.rs"), "rb") as fh:
        h.update(fh.read())
    key = h.hexdigest()[:24]
    os.makedirs(extract.CACHE, exist_ok=True)
    cache = os.path.join(extract.CACHE, "witness-%s.json" % key)
    if os.path.exists(cache):
        with open(cache) as fh:
            return json.load(fh)
    lock = open(os.path.join(extract.CACHE, "witness.lock"), "w")
    fcntl.flock(lock, fcntl.LOCK_EX)
    try:
        if os.path.exists(cache):
            with open(cache) as fh:
                return json.load(fh)
        wdir = WDIR
        tmp = None
        if os.path.realpath(root) != os.path.realpath(extract.REPO):
            # scratch tree (selftest): a copy of the witness crate that path-depends on it
            tmp = os.path.join(extract.CACHE, "witness-scratch-%d" % os.getpid())
            shutil.rmtree(tmp, ignore_errors=True)
            shutil.copytree(WDIR, tmp, ignore=shutil.ignore_patterns("target", "Cargo.lock"))
            p = os.path.join(tmp, "Cargo.toml")
            s = open(p).read().replace('path = "/repo"', 'path = "%s"' % os.path.realpath(root))
            open(p, "w").write(s)
            wdir = tmp
        shutil.copy(os.path.join(root, "Cargo.lock"), os.path.join(wdir, "Cargo.lock"))
        env = dict(os.environ)
        env["CARGO_NET_OFFLINE"] = "true"
        env["CARGO_TARGET_DIR"] = TARGET
        env.pop("RUSTC_WORKSPACE_WRAPPER", None)
        env.pop("RUSTFLAGS", None)
        p = subprocess.run(["cargo", "+nightly", "test", "--doc", "--offline"], cwd=wdir, env=env,
                           capture_output=True, text=True)
        out = p.stdout + p.stderr
        res = {}
        for m in re.finditer(r"^test src/lib\.rs - (\w+) \(line \d+\) - (compile fail|compile) \.\.\. (\w+)", out, re.M):
            name, kind, verdict = m.group(1), m.group(2), m.group(3)
            e = res.setdefault(name, {"ok": True, "tests": []})
            e["tests"].append({"kind": kind, "verdict": verdict})
            if verdict != "ok":
                e["ok"] = False
        res["_rc"] = p.returncode
        res["_tail"] = out[-3000:]
        if tmp:
            shutil.rmtree(tmp, ignore_errors=True)
        with open(cache + ".tmp", "w") as fh:
            json.dump(res, fh)
        os.rename(cache + ".tmp", cache)
        return res
    finally:
        fcntl.flock(lock, fcntl.LOCK_UN)
        lock.close()


def for_property(prop, root=None, tree_digest=""):
    """[(name, ok, message)] for the witnesses that support `prop`; fails closed when a witness did not run."""
    names = [n for n, (props, _) in WITNESSES.items() if prop in props]
    if not names:
        return []
    res = run_all(root, tree_digest)
    out = []
    for n in sorted(names):
        what = WITNESSES[n][1]
        e = res.get(n)
        if e is None:
            out.append((n, False, "witness %s did not run (cargo exit %s): %s" % (n, res.get("_rc"), res.get("_tail", "")[-400:])))
            continue
        kinds = [t["kind"] for t in e["tests"]]
        paired = "compile fail" in kinds and "compile" in kinds
        if e["ok"] and paired:
            out.append((n, True, "%s: %d compile-fail block(s) rejected with the stated error code, twin compiles" % (
                what, kinds.count("compile fail"))))
        elif not paired:
            out.append((n, False, "witness %s has lost its compile-fail block or its compiling twin" % n))
        else:
            bad = [t for t in e["tests"] if t["verdict"] != "ok"]
            out.append((n, False, "%s: NO LONGER ENFORCED BY THE COMPILER (%s)" % (
                what, ", ".join("%s block %s" % (t["kind"], t["verdict"]) for t in bad))))
    return out
