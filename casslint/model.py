"""The analysed world: program + path classes + effect index + role anchors + semantic events.

Anchors are found by *role* (type structure, effects), not by name, wherever that is possible:
  STATE   the struct guarded by the RwLock held in the struct that also owns the WAL mutex
  KEYMAP  its BTreeMap field          REFCNT  its HashMap<hash, integer> field
  STATS   its statistics field        SNAPVER its Option<NonZero> field
  INTENTS the container(s) behind a Mutex in the same owner struct that map/hold blob hashes
"""
import collections

from . import core, effects, events, flow, vfg
from .core import term_path
from .vfg import place_of

COLLECTION_PREFIXES = ("std::collections::BTreeMap::", "std::collections::HashMap::",
                       "std::collections::HashSet::", "std::collections::BTreeSet::",
                       "std::vec::Vec::", "std::collections::VecDeque::",
                       "std::collections::hash_map::Entry::", "std::collections::btree_map::Entry::")
COLLECTION_DEFS = ("std::collections::BTreeMap", "std::collections::HashMap", "std::collections::HashSet",
                   "std::collections::BTreeSet", "std::vec::Vec", "std::collections::VecDeque")
READ_METHODS = {"get", "contains_key", "contains", "len", "is_empty", "iter", "values", "keys", "range",
                "first_key_value", "last_key_value", "get_key_value", "capacity", "as_slice",
                "binary_search", "first", "last", "into_iter", "clone"}


class ContainerUse(object):
    __slots__ = ("site", "field", "method", "mutable")

    def __init__(self, site, field, method, mutable):
        self.site = site
        self.field = field          # ("F", adt, name)
        self.method = method
        self.mutable = mutable

    def describe(self):
        return "%s.%s::%s%s at %s in %s" % (self.field[1].split("::")[-1], self.field[2], self.method,
                                            " (mut)" if self.mutable else "", self.site.loc(),
                                            self.site.body.path)


class FieldWrite(object):
    __slots__ = ("body", "bb", "idx", "field", "line", "rv")

    def __init__(self, body, bb, idx, field, line, rv):
        self.body = body
        self.bb = bb
        self.idx = idx
        self.field = field
        self.line = line
        self.rv = rv

    def describe(self):
        return "write %s.%s at %s:%d in %s" % (self.field[1].split("::")[-1], self.field[2], self.body.file,
                                               self.line, self.body.path)


class World(object):
    def __init__(self, facts):
        self.prog = core.Program(facts)
        self.vfg = vfg.build_path_classes(self.prog)
        self.fx = events.EffectIndex(self.prog, self.vfg)
        self.problems = []          # fail-closed conditions found while building the model
        self.container_uses = []
        self.field_writes = []
        self._ref_cache = {}
        self._collect_containers()
        self._find_anchors()
        self._sym_cache = {}

    # ------------------------------------------------------------------------------------------
    # receiver resolution
    # ------------------------------------------------------------------------------------------
    def borrowed_local(self, body, op):
        """The local an operand ultimately borrows (through `&`, reborrows and deref calls), without
        following moves: `&*deref(&v)` -> v."""
        pl = place_of(op)
        for _ in range(16):
            if pl is None:
                return None
            if any(isinstance(e, dict) and "f" in e for e in pl["p"]):
                return None
            defs = body.assignments().get(pl["l"], [])
            if len(defs) != 1:
                return pl["l"]
            bb, j, rv = defs[0]
            if j == "term":
                if (term_path(rv) or "").split("::")[-1] in ("deref", "deref_mut", "as_ref", "as_mut", "as_slice",
                                                             "borrow", "borrow_mut") and rv["args"]:
                    pl = place_of(rv["args"][0])
                    continue
                return pl["l"]
            if rv["k"] in ("ref", "rawptr"):
                pl = rv["place"]
                continue
            if rv["k"] == "use" and ("copy" in rv["op"] or "move" in rv["op"]) and \
                    self.prog.types[body.locals[pl["l"]]].get("k") == "ref":
                # a copied `&T` or a moved `&mut T` (argument of an inlined helper) is still the same borrow
                pl = rv["op"].get("copy") or rv["op"].get("move")
                continue
            return pl["l"]
        return None

    def root_place(self, body, op, depth=0):
        """Follows `_x = &mut P` / `_x = move _y` / deref(...) chains of a receiver operand back to
        the place it ultimately designates. Returns the place dict (or None)."""
        pl = place_of(op)
        if pl is None:
            return None
        return self._root_place(body, pl, depth)

    def _root_place(self, body, pl, depth=0):
        if depth > 16:
            return pl
        if any(isinstance(e, dict) and "f" in e for e in pl["p"]):
            return pl
        defs = body.assignments().get(pl["l"], [])
        if len(defs) != 1:
            return pl
        bb, j, rv = defs[0]
        if j == "term":
            p = term_path(rv)
            if p in ("std::ops::Deref::deref", "std::ops::DerefMut::deref_mut", "std::option::Option::as_mut",
                     "std::option::Option::as_ref", "std::convert::AsRef::as_ref",
                     "std::convert::AsMut::as_mut", "std::borrow::Borrow::borrow",
                     "std::borrow::BorrowMut::borrow_mut", "std::option::Option::unwrap",
                     "std::io::BufWriter::get_ref", "std::io::BufWriter::get_mut") or p in effects.LOCK_ACQ:
                a = place_of(rv["args"][0]) if rv["args"] else None
                if a is not None:
                    return self._root_place(body, a, depth + 1)
            return pl
        if rv["k"] in ("ref", "rawptr"):
            return self._root_place(body, rv["place"], depth + 1)
        if rv["k"] == "use":
            a = place_of(rv["op"])
            if a is not None:
                return self._root_place(body, a, depth + 1)
        return pl

    def through_guard(self, body, op):
        """Lock classes (class, mode) of guard objects the receiver chain of `op` passes through: the
        access is protected by those locks for as long as the guard exists."""
        from .locks import _classes_of_type
        out = set()
        pl = place_of(op)
        seen = 0
        while pl is not None and seen < 20:
            seen += 1
            # types along the projection
            tys = [body.locals[pl["l"]]]
            for e in pl["p"]:
                if isinstance(e, dict) and "ty" in e:
                    tys.append(e["ty"])
            for t in tys:
                out |= set(_classes_of_type(self, self.prog.strip_refs(t)))
            if pl["p"] and any(isinstance(e, dict) and "f" in e for e in pl["p"]):
                # continue with the base local
                pl = {"l": pl["l"], "p": []}
                continue
            defs = body.assignments().get(pl["l"], [])
            if len(defs) != 1:
                break
            bb, j, rv = defs[0]
            nxt = None
            if j == "term":
                if rv["args"] and (term_path(rv) or "").split("::")[-1] in (
                        "deref", "deref_mut", "as_ref", "as_mut", "borrow", "borrow_mut", "unwrap"):
                    nxt = place_of(rv["args"][0])
            elif rv["k"] in ("ref", "rawptr"):
                nxt = rv["place"]
            elif rv["k"] == "use":
                nxt = place_of(rv["op"])
            pl = nxt
        return out

    def recv_field(self, body, op):
        pl = self.root_place(body, op)
        if pl is None:
            return None
        n = self.vfg.node_of_place(body, pl)
        if n[0] == "F":
            return n
        # captured by a closure / passed as an argument: the field(s) of a crate-local struct whose
        # (lock-stripped) type is the receiver's type and that flow into this node
        want = self._strip_wrappers(self.prog.strip_refs(self._place_ty(body, place_of(op))))
        if self.prog.types[want].get("k") != "adt" or self.prog.types[want]["def"] not in COLLECTION_DEFS:
            return None
        hits = []
        seen = set()
        work = [n]
        while work and len(seen) < 4000:
            x = work.pop()
            if x in seen:
                continue
            seen.add(x)
            if x[0] == "F":
                fty = self._field_ty(x)
                if fty is not None and self.prog.ty_str(self._strip_wrappers(fty)) == self.prog.ty_str(want):
                    hits.append(x)
                continue
            work.extend(self.vfg.redges.get(x, ()))
        if len(hits) == 1:
            return hits[0]
        return None

    def _place_ty(self, body, pl):
        ty = body.locals[pl["l"]]
        for e in pl["p"]:
            if isinstance(e, dict) and "ty" in e:
                ty = e["ty"]
        return ty

    def _field_ty(self, node):
        a = self.prog.adts.get(node[1])
        if a is None:
            return None
        for v in a["variants"]:
            for f in v["fields"]:
                if f["name"] == node[2]:
                    return f["ty"]
        return None

    def _strip_wrappers(self, ix):
        prog = self.prog
        while True:
            ix = prog.strip_refs(ix)
            t = prog.types[ix]
            if t.get("k") == "adt" and effects.norm(t["def"]) in (
                    "parking_lot::lock_api::Mutex", "parking_lot::lock_api::RwLock", "std::sync::Arc",
                    "std::sync::Mutex", "std::sync::RwLock", "std::boxed::Box", "std::rc::Rc",
                    "parking_lot::lock_api::MutexGuard", "parking_lot::lock_api::RwLockReadGuard",
                    "parking_lot::lock_api::RwLockWriteGuard"):
                args = [a for a in t["args"] if isinstance(a, int)]
                if not args:
                    return ix
                ix = args[-1]
                continue
            return ix

    def _collect_containers(self):
        prog = self.prog
        for body in prog.bodies.values():
            for site in body.calls():
                p = site.path
                if p is None or not p.startswith(COLLECTION_PREFIXES):
                    continue
                args = site.term["args"]
                if not args:
                    continue
                f = self.recv_field(body, args[0])
                if f is None:
                    continue
                method = p.split("::")[-1]
                pl = place_of(args[0])
                mutable = False
                if pl is not None and not pl["p"]:
                    t = prog.types[body.locals[pl["l"]]]
                    mutable = t.get("k") == "ref" and t.get("mut")
                    if t.get("k") == "adt":
                        mutable = True      # by-value receiver (into_iter, ...)
                self.container_uses.append(ContainerUse(site, f, method, mutable and method not in READ_METHODS))
            for bb in body.normal_blocks():
                for j, s in enumerate(body.stmts(bb)):
                    if s["k"] != "assign":
                        continue
                    lhs = s["lhs"]
                    if not lhs["p"]:
                        continue
                    if any(isinstance(e, dict) and "f" in e for e in lhs["p"]):
                        root = lhs
                    else:
                        root = self._root_place(body, {"l": lhs["l"], "p": []})
                    n = self.vfg.node_of_place(body, root)
                    if n[0] == "F":
                        self.field_writes.append(FieldWrite(body, bb, j, n, s.get("line", 0), s["rv"]))

    # ------------------------------------------------------------------------------------------
    # anchors by role
    # ------------------------------------------------------------------------------------------
    def _find_anchors(self):
        prog = self.prog
        A = {}
        self.anchors = A
        # owner struct: a local struct with a field Arc<RwLock<S>> / RwLock<S> and a Mutex<W> field
        def lock_inner(ty_ix, kinds):
            hits = prog.find_in_type(ty_ix, lambda t: t.get("k") == "adt" and effects.norm(t["def"]) in kinds)
            res = []
            for h in hits:
                args = [a for a in prog.types[h]["args"] if isinstance(a, int)]
                if args:
                    res.append(args[-1])
            return res
        RW = ("parking_lot::lock_api::RwLock", "std::sync::RwLock")
        MX = ("parking_lot::lock_api::Mutex", "std::sync::Mutex")
        owners = []
        for path, adt in prog.adts.items():
            if adt["kind"] != "Struct":
                continue
            rw = []
            mx = []
            for f in adt["variants"][0]["fields"]:
                t = prog.types[f["ty"]]
                # direct field type or Arc<...> of it; do not look through local structs
                cands = [f["ty"]]
                if t.get("k") == "adt" and t["def"] in ("std::sync::Arc", "std::boxed::Box"):
                    cands = [a for a in t["args"] if isinstance(a, int)][:1]
                for c in cands:
                    ct = prog.types[c]
                    if ct.get("k") == "adt" and effects.norm(ct["def"]) in RW:
                        rw.append((f["name"], [a for a in ct["args"] if isinstance(a, int)][-1]))
                    if ct.get("k") == "adt" and effects.norm(ct["def"]) in MX:
                        mx.append((f["name"], [a for a in ct["args"] if isinstance(a, int)][-1]))
            if rw and mx:
                owners.append((path, rw, mx))
        if len(owners) != 1:
            self.problems.append("anchor: expected exactly one struct holding an RwLock and Mutex fields, found %d"
                                 % len(owners))
            return
        owner, rw, mx = owners[0]
        A["OWNER"] = owner
        state_def, _ = prog.adt_of(rw[0][1])
        A["STATE"] = state_def
        A["STATE_FIELD"] = ("F", owner, rw[0][0])
        A["STATE_TY"] = rw[0][1]
        st = prog.adts.get(state_def)
        if st is None:
            self.problems.append("anchor: the RwLock-guarded state is not a crate-local struct")
            return
        for f in st["variants"][0]["fields"]:
            d, args = prog.adt_of(f["ty"])
            node = ("F", state_def, f["name"])
            if d == "std::collections::BTreeMap":
                A.setdefault("KEYMAP_ALL", []).append(node)
            elif d == "std::collections::HashMap":
                A.setdefault("REFCNT_ALL", []).append(node)
            elif d == "std::option::Option":
                A.setdefault("SNAPVER_ALL", []).append(node)
            elif d in prog.adts:
                A.setdefault("STATS_ALL", []).append(node)
        for k in ("KEYMAP", "REFCNT", "SNAPVER", "STATS"):
            lst = A.get(k + "_ALL", [])
            if len(lst) != 1:
                self.problems.append("anchor: %s field of %s not unique (%d candidates)" % (k, state_def, len(lst)))
            else:
                A[k] = lst[0]
        # item type stored in the key map
        if "KEYMAP" in A:
            for f in st["variants"][0]["fields"]:
                if f["name"] == A["KEYMAP"][2]:
                    _, args = prog.adt_of(f["ty"])
                    if len(args) > 1:
                        A["ITEM"], _ = prog.adt_of(args[1])
        # mutexes of the owner: WAL manager (a local struct with a Drop impl / writer) and intent containers
        A["MUTEX_FIELDS"] = {}
        for name, inner in mx:
            d, args = prog.adt_of(inner)
            A["MUTEX_FIELDS"][name] = inner
            if d in prog.adts:
                A["WALMGR"] = d
                A["WAL_FIELD"] = ("F", owner, name)
                A["WAL_TY"] = inner
            elif d in COLLECTION_DEFS:
                A.setdefault("INTENT_FIELDS", []).append(("F", owner, name))
                A.setdefault("INTENT_TYS", []).append(inner)
        if "WALMGR" not in A:
            self.problems.append("anchor: no Mutex<local struct> (WAL manager) in " + owner)
        if not A.get("INTENT_FIELDS"):
            self.problems.append("anchor: no Mutex<container> (pending intents) in " + owner)
        # hash type = the value type of the key map item / the key of the refcount map
        if "REFCNT" in A:
            for f in st["variants"][0]["fields"]:
                if f["name"] == A["REFCNT"][2]:
                    _, args = prog.adt_of(f["ty"])
                    if args:
                        A["HASH"], _ = prog.adt_of(args[0])
                        A["HASH_TY"] = args[0]

    # ------------------------------------------------------------------------------------------
    # lock classes
    # ------------------------------------------------------------------------------------------
    def lock_class_of_data(self, data_ty_ix):
        """Name of the lock class whose guard protects a value of this type."""
        A = self.anchors
        s = self.prog.ty_str(data_ty_ix)
        if "STATE_TY" in A and s == self.prog.ty_str(A["STATE_TY"]):
            return "STATE"
        if "WAL_TY" in A and s == self.prog.ty_str(A["WAL_TY"]):
            return "WAL"
        for i, t in enumerate(A.get("INTENT_TYS", [])):
            if s == self.prog.ty_str(t):
                f = A["INTENT_FIELDS"][i]
                return "INTENTS" if i == 0 else "INTENTS:" + f[2]
        return "LOCK<" + s + ">"

    # ------------------------------------------------------------------------------------------
    # parameter-relative classes
    # ------------------------------------------------------------------------------------------
    def param_origins(self, body, op):
        """If the labels of this operand come only through parameters of `body`, the set of those
        parameter indices; else None (class is concrete)."""
        n = self.vfg.node_of_operand(body, op)
        if n is None:
            return None
        key = (body.path, n)
        if key in self._sym_cache:
            return self._sym_cache[key]
        params = set()
        concrete = False
        seen = set()
        work = [n]
        while work:
            x = work.pop()
            if x in seen:
                continue
            seen.add(x)
            if x[0] != "L" or x[1] != body.path:
                if self.vfg.labels.get(x):
                    concrete = True
                continue
            if 1 <= x[2] <= body.argc and not body.is_closure:
                if self.vfg.labels.get(x):
                    params.add(x[2])
                continue
            preds = self.vfg.redges.get(x, ())
            if not preds:
                if self.vfg.labels.get(x):
                    concrete = True       # produced by a transfer function (join, ...) or a seed
            work.extend(preds)
        res = frozenset(params) if params and not concrete else None
        self._sym_cache[key] = res
        return res

    def class_of(self, body, op):
        """frozenset of labels, or ('P', frozenset(param indices)) when parameter-relative."""
        po = self.param_origins(body, op)
        if po is not None:
            return ("P", po)
        return frozenset(self.vfg.labels_of_operand(body, op))

    def raw_event(self, eff):
        """(kind, class1, class2) of an fs effect, classes possibly parameter-relative."""
        site = eff.site
        body = site.body
        if site.kind != "call":
            return (eff.kind, frozenset(eff.classes), frozenset())
        spec = effects.FS.get(site.path)
        args = site.term["args"]
        c1 = frozenset(eff.classes)
        c2 = frozenset(eff.classes2)
        if spec is not None and spec[1] is not None and spec[1] < len(args):
            c1 = self.class_of(body, args[spec[1]])
        if eff.kind == "FS_RENAME":
            c2 = self.class_of(body, args[spec[2]])
        return (eff.kind, c1, c2)

    def instantiate(self, ev, site, tgt):
        """Rewrites a callee-relative raw event for the caller at `site`."""
        kind, c1, c2 = ev

        def inst(c):
            if isinstance(c, tuple) and c and c[0] == "P":
                out = set()
                sym = set()
                for i in c[1]:
                    args = site.term.get("args", [])
                    if site.kind != "call" or i - 1 >= len(args):
                        return frozenset(["?"])
                    r = self.class_of(site.body, args[i - 1])
                    if isinstance(r, tuple):
                        sym |= r[1]
                    else:
                        out |= r
                if sym and not out:
                    return ("P", frozenset(sym))
                if sym:
                    return frozenset(out | {"?"})
                return frozenset(out)
            return c
        return (kind, inst(c1), inst(c2))

    @staticmethod
    def is_concrete(ev):
        return not any(isinstance(c, tuple) and c and c[0] == "P" for c in ev[1:] if isinstance(c, tuple))
