"""Runs the rules of one property against /repo's current tree; prints the protocol lines, writes
evidence and replay files."""
import hashlib
import importlib
import json
import os
import sys
import time
import traceback

from . import extract
from .ctx import Ctx
from .rules.base import stable_path

VERIF = extract.VERIF
EVID = os.path.join(VERIF, "evidence")
KNOWN = os.path.join(VERIF, "known_findings.json")

ASSUMPTIONS = [
    "rustc MIR at mir-opt-level=0 is a faithful rendering of the source",
    "the extern effect table (casslint/effects.py) is right about the std/tempfile/parking_lot/blake3/hex "
    "functions the crate calls; an unlisted extern callee on File/Path/temp types fails the check",
    "no unsafe code forges a path, handle or guard (unsafe regions are enumerated)",
    "closed world: the analysed internals are not reachable from outside the crate (effective visibility)",
    "path classes are field-based and context-insensitive except for parameter-relative classes",
]


def load_known():
    try:
        with open(KNOWN) as fh:
            d = json.load(fh)
    except (IOError, ValueError):
        return {}
    out = {}
    for e in d.get("findings", []):
        if e.get("status") == "known":
            out[e["key"]] = e
    return out


def load_meta(prop):
    from . import props
    return props.PROPS[prop]


def write_json(path, obj):
    os.makedirs(os.path.dirname(path), exist_ok=True)
    tmp = path + ".tmp.%d" % os.getpid()
    with open(tmp, "w") as fh:
        json.dump(obj, fh, indent=1, sort_keys=True, default=str)
    os.rename(tmp, path)


def run(prop, tier="quick", replay=None, root=None, quiet=False, shared=None, out=None):
    """shared: optional dict; the self-test passes one to analyse a scratch copy once for all 20 properties
    (the registered checks never do: one process, one property, one fresh context)."""
    t0 = time.time()
    seed = int(os.environ.get("VERIF_SEED", "0") or 0)
    meta = load_meta(prop)
    out = out or sys.stdout
    evid = EVID
    if root is not None and os.path.realpath(root) != os.path.realpath(extract.REPO):
        # analysis of a scratch copy (selftest): never touch the real evidence
        evid = os.path.join(extract.CACHE, "scratch-evidence")
    ev_path = os.path.join(evid, "%s.json" % prop)

    def emit(s):
        if not quiet:
            out.write(s + "\n")

    def fail_closed(what, replay_path):
        emit("VIOLATION property=%s replay=%s" % (prop, replay_path))
        emit("  " + what)
        write_json(ev_path, {
            "property_id": prop, "tier": tier, "seed": seed, "level": meta["level"],
            "coverage": {"explanation": "check failed closed: " + what, "evaluations": 0,
                         "distinct_nontrivial": 0, "obligations": 1, "discharged": 0,
                         "checker_cmd": "./check %s" % prop, "trusted_base": ASSUMPTIONS[:2]},
            "assumptions": ASSUMPTIONS, "wall_s": round(time.time() - t0, 2), "violations": 1})
        return 1

    try:
        facts, info = extract.facts_for(root)
    except extract.ExtractError as e:
        return fail_closed(str(e), e.log or "/verif/.cache/build.log")
    try:
        if shared is not None and shared.get("digest") == info.get("digest") and "ctx" in shared:
            ctx = shared["ctx"]
        else:
            ctx = Ctx(facts, info)
            if shared is not None:
                shared["digest"] = info.get("digest")
                shared["ctx"] = ctx
        ctx.tier = tier
        mod = importlib.import_module("casslint.rules.%s" % prop.lower())
        results = mod.rules(ctx, tier)
        canaries = []
        if hasattr(mod, "canaries"):
            canaries = run_canaries(mod, tier)
    except Exception:
        tb = traceback.format_exc()
        os.makedirs(os.path.join(evid, "violations"), exist_ok=True)
        p = os.path.join(evid, "violations", "%s-internal-error.txt" % prop)
        with open(p, "w") as fh:
            fh.write(tb)
        sys.stderr.write(tb)
        return fail_closed("internal error in the checker (fails closed)", p)

    # model-level problems fail every check closed
    known = load_known()
    violations = []
    known_hits = []
    n_obs = 0
    n_ok = 0
    samples = []
    rule_summ = []
    for pr in ctx.world.problems:
        violations.append(("%s|model|<crate>|%s" % (prop, pr), None, pr, None))
    if ctx.fx.unclassified and meta.get("needs_effect_table", True):
        for s in ctx.fx.unclassified:
            violations.append(("%s|effects|%s|unclassified:%s" % (prop, stable_path(s.body), s.path), None,
                               "unclassified extern effect %s at %s (add it to casslint/effects.py)" % (
                                   s.path, s.loc()), None))
    for r in results:
        bad = [o for o in r.obs if not o.ok]
        good = [o for o in r.obs if o.ok]
        n_obs += len(r.obs)
        n_ok += len(good)
        rule_summ.append({"rule": "%s-%s" % (prop, r.rid), "title": r.title, "instances": len(r.obs),
                          "discharged": len(good), "floor": r.floor, "notes": r.notes[:6]})
        emit("[%s-%s] %s: %d instance(s), %d discharged%s" % (
            prop, r.rid, r.title, len(r.obs), len(good),
            "" if r.floor is None else " (floor %d)" % r.floor))
        for o in good[:40]:
            emit("    ok   %s%s" % (o.msg or o.construct, ""))
        if len(good) > 40:
            emit("    ... %d more" % (len(good) - 40))
        for nt in r.notes:
            emit("    note %s" % nt)
        for o in good[:3]:
            samples.append({"rule": "%s-%s" % (prop, r.rid), "instance": o.construct,
                            "in": stable_path(o.body), "where": o.where, "verdict": "holds", "because": o.msg})
        for o in bad:
            key = o.key(prop, r.rid)
            emit("    FAIL %s  [%s]" % (o.msg, key))
            if key in known:
                known_hits.append((key, o, r))
            else:
                violations.append((key, o, o.msg, r))
    variant = None
    if tier == "thorough":
        # second configuration: the same rules on MIR built without overflow checks (release-like): no verdict may
        # depend on the debug-only Assert terminators
        try:
            facts2, info2 = extract.facts_for(root, extra_flags="-C overflow-checks=off -C debug-assertions=off",
                                              tag="-noovf")
            ctx2 = Ctx(facts2, info2)
            ctx2.tier = tier
            res2 = mod.rules(ctx2, tier)
            nb = 0
            for r2 in res2:
                for o in r2.obs:
                    if not o.ok:
                        key = o.key(prop, r2.rid)
                        if key in known:
                            continue
                        nb += 1
                        violations.append((key + "|cfg:overflow-checks=off", o,
                                           "[overflow-checks=off build] " + o.msg, r2))
            for pr in ctx2.world.problems:
                nb += 1
                violations.append(("%s|model|<crate>|%s|cfg:overflow-checks=off" % (prop, pr), None, pr, None))
            variant = {"config": "-C overflow-checks=off -C debug-assertions=off",
                       "bodies": len(ctx2.prog.bodies), "instances": sum(len(r2.obs) for r2 in res2), "violations": nb}
            n_obs += 1
            n_ok += 1 if nb == 0 else 0
            emit("[%s-V] same rules on the overflow-checks=off build: %d instance(s), %d violation(s)" % (
                prop, variant["instances"], nb))
        except extract.ExtractError as e:
            violations.append(("%s|variant|<crate>|build" % prop, None,
                               "the overflow-checks=off configuration does not build: %s" % e, None))
    wit = []
    if tier == "thorough":
        from . import witness
        try:
            wit = witness.for_property(prop, root, info.get("digest") or "")
        except Exception as e:      # fail closed
            wit = [("witness-run", False, "the witness crate could not be run: %r" % (e,))]
        if wit:
            emit("[%s-W] compile-fail witnesses (rustc decides; nothing is executed): %d" % (prop, len(wit)))
        for name, ok, msg in wit:
            n_obs += 1
            if ok:
                n_ok += 1
                emit("    ok   %s %s" % (name, msg))
                samples.append({"rule": "%s-W" % prop, "instance": name, "in": "witness/src/lib.rs",
                                "where": "witness/src/lib.rs", "verdict": "holds", "because": msg})
            else:
                emit("    FAIL %s %s" % (name, msg))
                violations.append(("%s|W|witness|%s" % (prop, name), None, msg, None))
        if wit:
            rule_summ.append({"rule": "%s-W" % prop, "title": "compile-fail witnesses", "instances": len(wit),
                              "discharged": sum(1 for _, ok, _ in wit if ok), "floor": len(wit), "notes": []})
    for c in canaries:
        n_obs += 1
        if c["fired"]:
            n_ok += 1
        else:
            violations.append(("%s|canary|fixtures|%s" % (prop, c["name"]), None,
                               "rule disarmed: canary %s did not fire on the fixture crate" % c["name"], None))

    for key, o, r in known_hits:
        emit("KNOWN-FINDING: property=%s %s (%s)" % (prop, known[key].get("what", o.msg), key))

    rc = 0
    os.makedirs(os.path.join(evid, "violations"), exist_ok=True)
    if replay:
        # re-evaluate exactly the recorded rule instance on the current tree
        try:
            want = json.load(open(replay)).get("key")
        except (IOError, ValueError):
            want = None
        violations = [v for v in violations if v[0] == want]
        known_hits = [k for k in known_hits if k[0] == want]
        emit("replay of %s: %s" % (want, "still violated" if (violations or known_hits) else "no longer violated"))
    seen_keys = set()
    for key, o, msg, r in violations:
        if key in seen_keys:
            continue
        seen_keys.add(key)
        h = hashlib.sha1(key.encode()).hexdigest()[:10]
        rp = os.path.join(evid, "violations", "%s-%s.json" % (prop, h))
        write_json(rp, {
            "property": prop, "key": key, "message": msg,
            "rule": None if r is None else {"id": "%s-%s" % (prop, r.rid), "title": r.title},
            "scenario": None if o is None else o.scenario,
            "where": None if o is None else o.where,
            "enclosing": None if o is None else stable_path(o.body),
            "witness": None if o is None else o.witness,
            "tree_digest": info.get("digest"),
            "replay": "./check %s --replay %s" % (prop, rp)})
        emit("VIOLATION property=%s replay=%s" % (prop, rp))
        emit("  %s" % msg)
        if o is not None and o.scenario:
            emit("  consequence: %s" % o.scenario)
        rc = 1

    nviol = len(seen_keys)
    cov = {
        "explanation": meta["explanation"],
        "evaluations": n_obs,
        "distinct_nontrivial": len(set((s_["rule"], s_["instance"], s_["in"]) for s_ in samples)) if False else
        len(set((rr.rid, o.construct, stable_path(o.body), o.where) for rr in results for o in rr.obs)),
        "rule": "one evaluation = one rule instance (a site/construct matched by role and judged); distinct = "
                "distinct (rule, construct, enclosing function, location); non-trivial = the rule found a site "
                "playing the role, so it had something to decide",
        "samples": samples[:24],
        "obligations": n_obs,
        "discharged": n_ok + len(known_hits) if False else n_ok,
        "checker_cmd": "cd /verif && ./check %s --tier %s" % (prop, tier),
        "trusted_base": ["rustc nightly MIR (mir-opt-level=0)", "casslint/effects.py extern effect table",
                         "casslint dataflow engines (flow.py, locks.py, vfg.py)"],
        "rules": rule_summ,
        "bodies_analysed": len(ctx.prog.bodies),
        "call_edges": sum(len(ctx.prog.callees_of(b)) for b in ctx.prog.bodies.values()),
        "effect_sites": len(ctx.fx.effects),
        "fact_digest": info.get("digest"),
        "facts_cached": info.get("cached"),
        "known_findings_reported": [k for k, _, _ in known_hits],
        "canaries": canaries,
        "second_configuration": variant,
        "exhaustive": True,
        "not_decided": meta.get("not_decided", ""),
    }
    level = meta["level"]
    if level == "proof" and (n_ok != n_obs):
        # a proof-level claim needs every obligation discharged; report honestly
        pass
    write_json(ev_path, {
        "property_id": prop, "tier": tier, "seed": seed, "level": level, "coverage": cov,
        "assumptions": ASSUMPTIONS + meta.get("assumptions", []),
        "wall_s": round(time.time() - t0, 2), "violations": nviol})
    emit("%s: %d rule instance(s), %d discharged, %d violation(s), %d known finding(s) [%s, %.1fs]" % (
        prop, n_obs, n_ok, nviol, len(known_hits), tier, time.time() - t0))
    return rc


def run_canaries(mod, tier):
    """Runs the property's canary rules on the fixture crate: each must fire."""
    from . import fixtures
    return fixtures.run(mod, tier)


def main(argv):
    import argparse
    ap = argparse.ArgumentParser()
    ap.add_argument("prop")
    ap.add_argument("--tier", default=os.environ.get("VERIF_TIER", "quick"))
    ap.add_argument("--replay", default=None)
    ap.add_argument("--root", default=None)
    a = ap.parse_args(argv)
    tier = a.tier if a.tier in ("quick", "thorough") else "quick"
    return run(a.prop.upper(), tier, a.replay, a.root)


if __name__ == "__main__":
    sys.exit(main(sys.argv[1:]))
