"""Rule plumbing: obligations, results, stable keys."""


def stable_path(body):
    """Def path without line numbers (closures are named after their enclosing function)."""
    if body is None:
        return "<crate>"
    if body.is_closure:
        return (body.root or "?") + "::{closure}"
    return body.path


class Ob(object):
    """One rule instance (obligation): a site or construct the rule had something to say about."""

    def __init__(self, construct, body=None, ok=True, msg="", where=None, witness=None, scenario=None):
        self.construct = construct
        self.body = body
        self.ok = ok
        self.msg = msg
        self.where = where
        self.witness = witness
        self.scenario = scenario

    def key(self, prop, rule):
        return "%s|%s|%s|%s" % (prop, rule, stable_path(self.body), self.construct)


class Rule(object):
    def __init__(self, rid, title, scenario=""):
        self.rid = rid
        self.title = title
        self.scenario = scenario        # the concrete bad outcome if the rule is broken
        self.obs = []
        self.notes = []
        self.floor = None
        self.floor_what = ""

    def ok(self, construct, body=None, msg="", where=None):
        self.obs.append(Ob(construct, body, True, msg, where))

    def bad(self, construct, body=None, msg="", where=None, witness=None):
        self.obs.append(Ob(construct, body, False, msg, where, witness, self.scenario))

    def check(self, cond, construct, body=None, msg_ok="", msg_bad="", where=None, witness=None):
        if cond:
            self.ok(construct, body, msg_ok, where)
        else:
            self.bad(construct, body, msg_bad, where, witness)
        return cond

    def need(self, n, what):
        """Floor: the number of instances counted by hand on the pinned tree."""
        self.floor = n
        self.floor_what = what

    def note(self, s):
        self.notes.append(s)

    def finish(self):
        if self.floor is not None and len(self.obs) < self.floor:
            self.obs.append(Ob("floor", None, False,
                               "rule matched %d instance(s), expected at least %d (%s): an anchor is missing, "
                               "so the rule cannot establish the property" % (len(self.obs), self.floor,
                                                                              self.floor_what),
                               None, None, self.scenario))
        return self


def site_where(site):
    return "%s:%d" % (site.file, site.line)


def site_construct(site, ctx=None):
    """Stable name of a call/drop site: callee (normalized) - no line numbers."""
    if site.kind == "call":
        p = site.path or "<indirect>"
        return p
    return "drop(%s)" % site.body.prog.ty_str(site.term["ty"])


def share_rule(ctx, tier, module, src_rid, new_rid, title, scenario):
    """Rule `src_rid` of another property's module, re-labelled: one structural clause can be a necessary condition of
    two properties (each check reports it under its own key and its own consequence)."""
    shared = dict((x.rid, x) for x in module.rules(ctx, tier))
    x = shared.get(src_rid)
    if x is None:
        return None
    x.rid = new_rid
    x.title = title
    x.scenario = scenario
    for o in x.obs:
        o.scenario = scenario
    return x
