"""C03 Crash at any instant (process-kill model): the write-order protocol."""
from .. import cfgutil
from ..core import Site, term_path
from ..ctx import sem, sem_set
from ..prov import Slicer, fmt_leaf
from ..vfg import place_of
from . import order, c09, c11
from .base import Rule, site_construct, site_where, stable_path

PROP = "C03"


def commit_roots(ctx):
    """Live roots that publish a blob (the consuming commit entry point)."""
    return [r for r in ctx.live_roots()
            if "BLOB_PUBLISH" in sem_set(e for e in ctx.may.all_events(r.path) if ctx._concrete(e))]


def rules(ctx, tier):
    out = []
    must = ctx.must(None)
    live = ctx.live_roots()
    ENTRY = must.entry_sets(live)
    ENTRY_all = must.entry_sets(ctx.api_roots())

    r = Rule("R1", "order of a put/remove: stage flushed -> blob published -> record written+flushed -> index applied "
                   "-> dereferenced blob unlinked",
             "kill between two steps taken in the wrong order: e.g. the old blob is unlinked before the record that "
             "dereferences it is in the log, and replay restores a key whose blob is gone")
    order.require_before(ctx, r, must, ENTRY, "BLOB_PUBLISH", ["STAGE_FLUSH"])
    croots = commit_roots(ctx)
    r.check(len(croots) >= 1, "commit-root", None, "commit entry point(s): %s" % ", ".join(b.path for b in croots),
            "no live API root publishes a blob")
    if croots:
        E_commit = must.entry_sets(croots)
        order.require_before(ctx, r, must, E_commit, "WAL_WRITE", ["PUBLISHED"], tag=":commit")
    publish_body_contract(ctx, r, must)
    order.require_before(ctx, r, must, ENTRY, "INDEX_MUTATE", ["WAL_WRITE", "WAL_FLUSH"])
    for site in c09.deref_unlink_sites(ctx):
        S = must.at_site(ENTRY, site)
        if S is None:
            continue
        names = sem_set(S)
        for req in ("WAL_WRITE", "WAL_FLUSH", "APPLIED"):
            r.check(req in names, "%s@BLOB_UNLINK" % req, site.body,
                    "%s before the unlink at %s" % (req, site_where(site)),
                    "%s is not guaranteed before the blob unlink at %s" % (req, site_where(site)),
                    site_where(site), witness={"must_set": sorted(names)})
    r.need(9, "publish, commit-path log writes, index mutations, dereferencing unlink")
    out.append(r.finish())

    r = Rule("R2", "snapshot before prune",
             "kill between prune and the snapshot rename: acknowledged operations are in neither log nor snapshot")
    order.require_before(ctx, r, must, ENTRY_all, "WAL_PRUNE", ["SNAP_PUBLISH:INDEX"])
    r.need(1, "prune site")
    out.append(r.finish())

    r = Rule("R3", "durable names (index, settings) appear only by rename of a completely written temp file",
             "kill in the middle of an in-place write leaves a half index: every later open fails")
    for e in ctx.fx.effects:
        if not (e.classes & {"INDEX", "SETTINGS"}):
            continue
        if e.kind in ("FS_WRITE", "FS_WRITEFILE", "FS_TRUNCATE", "FS_WRITE_AT", "FS_COPY", "FS_LINK") or \
                (e.kind == "FS_OPEN" and (e.mode or set()) - {"read"}):
            r.bad("inplace:%s:%s" % (e.kind, site_construct(e.site)), e.site.body,
                  "%s touches a durable name in place" % e.describe(), site_where(e.site))
        else:
            r.ok("%s:%s" % (e.kind, site_construct(e.site)), e.site.body, e.describe())
    c09_like_write_before_rename(ctx, r, must)
    # the temp file has a fixed name: a kill between its creation and the rename leaves it behind, so the next writer must
    # be able to start over on top of it (create + truncate) - exclusive creation turns one crash into "every later
    # snapshot fails"
    for e in ctx.fx.of_kind("FS_OPEN"):
        if not any(c.endswith("_TMP") for c in e.classes):
            continue
        m = e.mode or set()
        if m == {"read"}:
            continue
        r.check("create_new" not in m and "create" in m and "truncate" in m, "temp-reopenable", e.site.body,
                "the temp file is opened %s at %s: a leftover from a crash is overwritten" % (sorted(m), site_where(e.site)),
                "the fixed-name temp file is opened %s at %s: a temp file left behind by a crash makes every later "
                "snapshot / settings save fail (open after the crash never succeeds again once there is log to "
                "checkpoint)" % (sorted(m), site_where(e.site)), site_where(e.site))
    r.need(3, "effects on INDEX/SETTINGS + rename protocol")
    out.append(r.finish())

    r = Rule("R4", "one record, one write: a log record reaches the file in a single write call",
             "a record handed to the BufWriter in pieces is split into several write(2) calls once it exceeds the "
             "buffer; a kill between them leaves a header whose payload is short, the reader maps that to an error "
             "and every later open fails")
    writes_per_flush(ctx, r)
    r.need(2, "record-writing bodies (entry, sentinel)")
    out.append(r.finish())

    r = Rule("R6", "no snapshot between an operation's append and its apply (the snapshot's version never runs ahead of its content)",
             "a checkpoint slips between append and apply, persists a snapshot stamped with the new version but without "
             "its effect; after a kill, replay skips that version: an acknowledged operation is gone")
    from .c02 import append_apply_atomic
    append_apply_atomic(ctx, r)
    r.need(3, "append and apply sites on the live path")
    out.append(r.finish())

    r = Rule("R5", "recovery destroys nothing it has not superseded",
             "a truncating create on the live segment at reopen erases acknowledged operations")
    opens = ctx.open_roots()
    reach = ctx.prog.reachable_bodies(opens)
    for e in ctx.fx.effects:
        if e.site.body.path not in reach or e.site.kind != "call":
            continue
        destructive = e.kind in ("FS_UNLINK", "FS_RENAME", "FS_TRUNCATE", "FS_RMDIR", "FS_RMDIR_ALL", "FS_WRITEFILE") or \
            (e.kind == "FS_OPEN" and "truncate" in (e.mode or set()))
        if not destructive:
            continue
        names = sem(ctx.world.raw_event(e)) if ctx._concrete(ctx.world.raw_event(e)) else set()
        if e.kind == "FS_OPEN":
            if e.classes <= {"LOCK", "INDEX_TMP", "SETTINGS_TMP"}:
                r.ok("trunc-open:%s" % "+".join(sorted(e.classes)), e.site.body,
                     "truncating open of %s at %s (scratch file)" % (sorted(e.classes), site_where(e.site)))
            elif e.classes <= {"WAL"}:
                r.check(guarded_by_not_exists(ctx, e.site), "trunc-open:WAL", e.site.body,
                        "the truncating create of a segment at %s happens only if the file does not exist" % site_where(e.site),
                        "a log segment is created with truncation at %s without checking that it does not exist" %
                        site_where(e.site), site_where(e.site))
            else:
                r.bad("trunc-open:%s" % "+".join(sorted(e.classes)), e.site.body,
                      "truncating open of %s during open at %s" % (sorted(e.classes), site_where(e.site)), site_where(e.site))
        elif "WAL_PRUNE" in names or e.classes <= {"DIRSCAN:DB_ROOT", "WAL"} and e.kind == "FS_UNLINK":
            r.ok("prune", e.site.body, "segment prune at %s (ordered after the snapshot by R2)" % site_where(e.site))
        elif e.kind == "FS_RENAME" and e.classes <= {"INDEX_TMP", "SETTINGS_TMP"} and e.classes2 <= {"INDEX", "SETTINGS"}:
            r.ok("publish", e.site.body, "snapshot/settings publish at %s" % site_where(e.site))
        else:
            r.bad("destructive:%s:%s" % (e.kind, "+".join(sorted(e.classes)) or "?"), e.site.body,
                  "%s can run during open" % e.describe(), site_where(e.site))
    r.need(4, "destructive effects reachable from open")
    out.append(r.finish())

    r = Rule("R7", "one call, one record: a mutating entry point runs the logged apply step at most once per call - not in "
                   "a loop, not twice in a row - so the operation is one log record and replay applies all of it or none",
             "a range removal is split into batches, each its own log record: a crash between two batches leaves the "
             "removal half done after reopen")
    one_record_per_call(ctx, r)
    r.need(3, "mutating entry points (commit, remove, remove_range)")
    out.append(r.finish())
    return out


def one_record_per_call(ctx, r):
    from .c01 import mutating_roots
    prog = ctx.prog
    for root in mutating_roots(ctx):
        V = ctx.flat(root, stop=tuple(ctx.apply_roots()))
        steps = [s for s in V.sites(("call",)) if "INDEX_MUTATE" in sem_set(ctx.may.site_events(V.orig_site(s)))
                 and not V.blocks[s.bb].get("cleanup")]
        name = root.path.split("::")[-1]
        if not steps:
            r.bad("apply-step:%s" % name, root, "%s mutates the index but no apply step is visible in its view" % root.path)
            continue
        looped = [s for s in steps if any(s.bb in cfgutil.reach(V, t) for t in V.succs(s.bb))]
        twice = [(a, b) for a in steps for b in steps if a.bb != b.bb and any(b.bb in cfgutil.reach(V, t) for t in V.succs(a.bb))]
        if looped:
            how = "in a loop at " + ", ".join(site_where(s) for s in looped)
        elif twice:
            how = "at %s and then at %s" % (site_where(twice[0][0]), site_where(twice[0][1]))
        else:
            how = ""
        r.check(not looped and not twice, "one-record:%s" % name, root,
                "%s runs the logged apply step once per call (%s)" % (root.path, ", ".join(site_where(s) for s in steps)),
                "%s can run the logged apply step more than once in one call (%s): one API operation becomes several log "
                "records" % (root.path, how), site_where((looped or [twice[0][0] if twice else steps[0]])[0]))


def publish_body_contract(ctx, r, must):
    """PUBLISHED = "the publishing body returned Ok". Every Ok exit of that body lies behind the rename:
    either its Ok edge, or an Err edge followed by a test of the error kind (destination exists)."""
    for e in ctx.fx.of_kind("FS_RENAME"):
        if not (e.classes2 and e.classes2 <= {"CAS_BLOB"}):
            continue
        for (b, rsite) in ctx.result_views(e.site):
            rf = ctx.rf(b)
            oks = rf.ok_edges_of(rsite.bb)
            errs = rf.err_edges_of(rsite.bb)
            for bb, kind in rf.forwarded.items():
                if kind != "ok":
                    continue
                via_ok = bool(oks) and cfgutil.edges_dominate(b, oks, bb)
                via_err = False
                if not via_ok and errs and cfgutil.edges_dominate(b, oks + errs, bb):
                    # the error arm: must pass a comparison of the error kind
                    for sw in b.normal_blocks():
                        c = cfgutil.eq_edges(b, sw)
                        if c is None:
                            continue
                        sl = Slicer(ctx.world, b)
                        la = sl.leaves_of_operand(c[0]) | sl.leaves_of_operand(c[1])
                        if any(x[0] == "call" and x[1] == "std::io::Error::kind" for x in la) and \
                                cfgutil.edge_dominates(b, (sw, c[2]), bb):
                            via_err = True
                r.check(via_ok or via_err, "publish-ok-exit", b,
                        "an Ok return of %s lies behind %s" % (b.path, "the successful rename" if via_ok else
                                                               "a rename that failed with a tested error kind (destination exists)"),
                        "%s can return Ok without the rename having been attempted and inspected" % b.path,
                        "%s:%d" % (b.file, b.blocks[bb]["span"]["line"]))


def c09_like_write_before_rename(ctx, r, must):
    for e in ctx.fx.of_kind("FS_RENAME"):
        raw = ctx.world.raw_event(e)
        _, c1, c2 = raw
        durable = (isinstance(c2, frozenset) and c2 and c2 <= frozenset(["INDEX", "SETTINGS"])) \
            or (isinstance(c2, tuple) and c2[0] == "P")
        if not durable:
            continue
        S = must.at_site({e.site.body.path: frozenset()}, e.site)
        if S is None:
            continue
        have_w = any(x[0] == "FS_WRITE" and x[1] == c1 for x in S)
        r.check(have_w, "write-before-rename", e.site.body,
                "temp file completely written before the rename at %s" % site_where(e.site),
                "the rename at %s is not preceded by a successful write of its source" % site_where(e.site),
                site_where(e.site))


def guarded_by_not_exists(ctx, site):
    """Judged where the open is seen together with its guard: in its own body, or - when the open sits in a closure or
    a helper that is handed the path - in the flat view of the function the closure / helper belongs to."""
    if _guarded_in(ctx, site.body, site):
        return True
    # every function on the way up to the scope root (a view from far above may not reach down to the open)
    roots = []
    for lim in range(1, 7):
        rt = ctx.scope_root(site.body, limit=lim)
        if rt not in roots:
            roots.append(rt)
    if site.body.is_closure:
        # a closure handed to a generic helper: the view starts at the function that writes the closure
        from ..prov import _closure_sites
        for (pb, _bb, _rv) in _closure_sites(ctx.prog, site.body.path):
            roots.append(pb)
            roots.append(ctx.scope_root(pb))
    for root in roots:
        V = ctx.flat(root)
        occ = [fs for fs in ctx.flat_sites_of(V, site) if fs.kind == "call" and not V.blocks[fs.bb].get("cleanup")]
        if occ and all(_guarded_in(ctx, V, fs) for fs in occ):
            return True
    return False


def _guarded_in(ctx, b, site):
    sl = Slicer(ctx.world, b)
    path_leaves = sl.leaves_of_operand(site.term["args"][0])
    for bb in b.normal_blocks():
        c = cfgutil.switch_condition(b, bb)
        if not c or c[0] != "call" or not c[1].endswith("Path::exists"):
            continue
        t = c[2]
        same = bool(sl.leaves_of_operand(t["args"][0]) & path_leaves)
        tt, ff = cfgutil.true_false_edges(b, bb)
        edge = tt if c[3] else ff        # negated => the true edge of the switch means "does not exist"
        if same and edge is not None and cfgutil.edge_dominates(b, (bb, edge), site.bb):
            return True
    return False


def writes_per_flush(ctx, r):
    """Forward max-count dataflow per body: number of write calls on a WAL handle since the last flush
    on it (saturating at 3). A body whose count exceeds 1 hands a record over in pieces."""
    prog = ctx.prog

    def site_kind(site):
        evs = ctx.raw_events_at(site)
        names = sem_set(e for e in evs if ctx._concrete(e))
        return names

    summaries = {}

    def analyse(b, depth=0):
        if b.path in summaries:
            return summaries[b.path]
        summaries[b.path] = (0, None)
        cnt = {0: 0}
        worst = (0, None)
        work = [0]
        while work:
            x = work.pop()
            cur = cnt[x]
            t = b.blocks[x]["term"]
            new = cur
            if t["k"] in ("call", "drop"):
                s = Site(b, x, t)
                names = site_kind(s)
                if "WAL_FLUSH" in names:
                    new = 0
                elif "WAL_WRITE" in names and t["k"] == "call":
                    new = min(cur + 1, 3)
                    if new > worst[0]:
                        worst = (new, s)
                else:
                    for tgt, how in (prog.call_targets(s) if t["k"] == "call" else []):
                        if how == "extern-cb" or depth > 4:
                            continue
                        sub, _ = analyse(tgt, depth + 1)
                        ev = sem_set(e for e in ctx.may.all_events(tgt.path) if ctx._concrete(e))
                        if "WAL_FLUSH" in ev and "WAL_WRITE" not in ev:
                            new = 0
                        elif "WAL_WRITE" in ev:
                            # callee's unflushed tail adds to ours unless it flushes before writing
                            new = min(cur + sub, 3) if "WAL_FLUSH" not in ev else sub
            for s2 in b.succs(x):
                if s2 not in cnt or cnt[s2] < new:
                    cnt[s2] = new
                    work.append(s2)
        tail = 0
        for rb in b.return_blocks():
            if rb in cnt:
                tail = max(tail, cnt[rb])
        summaries[b.path] = (tail, worst)
        return summaries[b.path]

    n = 0
    for b in prog.bodies.values():
        direct = [s for s in b.calls() if "WAL_WRITE" in site_kind(s)]
        if not direct:
            continue
        n += 1
        tail, worst = analyse(b)
        mx = worst[0] if worst else 0
        r.check(mx <= 1, "writes-per-record", b,
                "%s: at most one write call reaches the log between two flushes" % b.path,
                "%s hands a record to the log in %s%d write calls before the flush (second piece at %s)" % (
                    b.path, ">=" if mx >= 3 else "", mx, site_where(worst[1]) if worst and worst[1] else "?"),
                site_where(worst[1]) if worst and worst[1] else None,
                witness={"max_writes_between_flushes": mx})
    return n
