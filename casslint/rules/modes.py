"""SyncMode specialisation (DESIGN 2.2 D): the sync routine switches on the variant of an
`Option<Sender<File>>` field; in SyncMode::Sync the constructor stores `None` there."""
from ..core import term_path
from ..vfg import place_of
from .base import Rule


def _is_sender_of_file(prog, ty):
    s = prog.ty_str(ty)
    return s.startswith("std::sync::mpsc::Sender<") and "std::fs::File" in s


def _is_borrowed_channel(prog, ty):
    s = prog.ty_str(prog.strip_refs(ty)).replace(" ", "")
    return s.startswith("std::option::Option<&") and "std::sync::mpsc::Sender<" in s and "std::fs::File" in s


def carrier_enums(ctx):
    """Crate-local enums that say the same as Option<Sender<File>>: exactly one variant holds the sender (and nothing
    else), every other variant has no fields. enum path -> index of the channel variant."""
    prog = ctx.prog
    out = {}
    for path, adt in prog.adts.items():
        if adt["kind"] != "Enum":
            continue
        ch = [i for i, v in enumerate(adt["variants"])
              if len(v["fields"]) == 1 and _is_sender_of_file(prog, v["fields"][0]["ty"])]
        rest = [i for i, v in enumerate(adt["variants"]) if i not in ch]
        if len(ch) == 1 and rest and all(not adt["variants"][i]["fields"] for i in rest):
            out[path] = ch[0]
    return out


def channel_field(ctx):
    """The field of type Option<mpsc::Sender<File>>, or of a crate-local enum of the same shape (by type)."""
    prog = ctx.prog
    hits = []
    enums = carrier_enums(ctx)
    for path, adt in prog.adts.items():
        if adt["kind"] != "Struct":
            continue
        for f in adt["variants"][0]["fields"]:
            s = prog.ty_str(f["ty"])
            if s.startswith("std::option::Option<std::sync::mpsc::Sender<") and "std::fs::File" in s:
                hits.append(("F", path, f["name"]))
            elif prog.adt_of(f["ty"])[0] in enums:
                hits.append(("F", path, f["name"]))
    return hits


def carrier_of(ctx, field):
    """(enum path or None for Option, index of the channel variant) of the channel field."""
    prog = ctx.prog
    for f in prog.adts[field[1]]["variants"][0]["fields"]:
        if f["name"] == field[2]:
            d = prog.adt_of(f["ty"])[0]
            enums = carrier_enums(ctx)
            if d in enums:
                return d, enums[d]
    return None, 1


def _switches_on_field(ctx, field):
    """(body, bb, channel_target, other_target) for every switch on discriminant(place.field) - or, when the channel
    is a crate-local enum, on the discriminant of any place of that type (its own methods switch on `self`)."""
    out = []
    enum, chv = carrier_of(ctx, field)
    prog = ctx.prog
    for b in prog.bodies.values():
        for bb in b.normal_blocks():
            t = b.blocks[bb]["term"]
            if t["k"] != "switch":
                continue
            pl = place_of(t["discr"])
            if pl is None or pl["p"]:
                continue
            src = None
            for s in b.stmts(bb):
                if s["k"] == "assign" and s["lhs"]["l"] == pl["l"] and s["rv"]["k"] == "discr":
                    src = s["rv"]["place"]
            if src is None:
                continue
            root = ctx.world._root_place(b, src)
            n = ctx.world.vfg.node_of_place(b, root)
            hit = n == field
            if not hit and enum is not None:
                pty = ctx.world._place_ty(b, src)
                hit = pty is not None and prog.adt_of(pty)[0] == enum
            if not hit and enum is None:
                # the channel handed on as `Option<&Sender<File>>` (the field's `as_ref()`), tested somewhere else
                pty = ctx.world._place_ty(b, src)
                hit = pty is not None and _is_borrowed_channel(prog, pty)
            if hit:
                listed = dict((v, x) for v, x in t["targets"])
                some_t = listed.get(chv)
                others = [x for v, x in t["targets"] if v != chv]
                none_t = others[0] if others else (t["otherwise"] if chv in listed else None)
                if some_t is None and others:
                    some_t = t["otherwise"]
                out.append((b, bb, some_t, none_t))
    return out


def sync_mode_pruner(ctx):
    fields = channel_field(ctx)
    pruned = {}
    if len(fields) == 1:
        for (b, bb, some_t, none_t) in _switches_on_field(ctx, fields[0]):
            if some_t is not None:
                pruned.setdefault(b.path, set()).add((bb, some_t))
    return lambda body: pruned.get(body.path, ())


def rule_mode_premise(ctx, rid="R0"):
    """The constructor stores None in the channel field exactly in the SyncMode::Sync arm."""
    r = Rule(rid, "mode premise: the sync channel is None exactly in SyncMode::Sync",
             "if Sync mode got a channel, staged blobs would be synced by the background thread with no "
             "ordering: power loss after the rename leaves a named blob with lost bytes")
    prog = ctx.prog
    fields = channel_field(ctx)
    if len(fields) != 1:
        r.bad("channel-field", None, "expected exactly one Option<Sender<File>> (or equivalent two-state enum) field, found %d" % len(fields))
        return r.finish()
    field = fields[0]
    c_enum, c_chv = carrier_of(ctx, field)
    # aggregate construction sites of the owner struct
    found = 0
    ctors = [b0 for b0 in prog.bodies.values()
             if any(s["k"] == "assign" and s["rv"]["k"] == "agg" and s["rv"].get("def") == field[1]
                    for bb in b0.normal_blocks() for s in b0.stmts(bb))]
    for b0 in ctors:
        # the constructor with its private helpers inlined (the mode switch may live in a helper)
        b = ctx.flat(b0)
        for bb in b.normal_blocks():
            if b.origin_key(bb)[0] != b0.path:
                continue
            for s in b.stmts(bb):
                if s["k"] != "assign" or s["rv"]["k"] != "agg" or s["rv"].get("def") != field[1]:
                    continue
                rv = s["rv"]
                idx = rv["fields"].index(field[2])
                pl = place_of(rv["ops"][idx])
                if pl is None or pl["p"]:
                    r.bad("ctor-operand", b, "channel field is not initialised from a local")
                    continue
                found += 1
                x = pl["l"]
                # follow single moves
                defs = b.assignments().get(x, [])
                while len(defs) == 1 and defs[0][1] != "term" and defs[0][2]["k"] == "use" \
                        and place_of(defs[0][2]["op"]) is not None and not place_of(defs[0][2]["op"])["p"]:
                    x = place_of(defs[0][2]["op"])["l"]
                    defs = b.assignments().get(x, [])
                # the switch on SyncMode
                sw = None
                for bb2 in b.normal_blocks():
                    t = b.blocks[bb2]["term"]
                    if t["k"] != "switch":
                        continue
                    dpl = place_of(t["discr"])
                    for s2 in b.stmts(bb2):
                        if s2["k"] == "assign" and dpl and s2["lhs"]["l"] == dpl["l"] and s2["rv"]["k"] == "discr":
                            pty = ctx.world._place_ty(b, s2["rv"]["place"])
                            d, _ = prog.adt_of(pty)
                            a = prog.adts.get(d)
                            if a and a["kind"] == "Enum" and [v["name"] for v in a["variants"]] == ["Sync", "Async"]:
                                sw = (bb2, t)
                if sw is None:
                    r.bad("mode-switch", b, "no switch on the SyncMode variant in the constructor")
                    continue
                bb2, t = sw
                listed = dict((v, y) for v, y in t["targets"])
                sync_t = listed.get(0)
                async_t = listed.get(1, t["otherwise"])
                if sync_t is None:
                    sync_t = t["otherwise"]
                ok = True
                n_none = 0
                for (dbb, j, rv2) in defs:
                    if c_enum is None:
                        is_none = j != "term" and rv2["k"] == "agg" and rv2.get("vn") == "None"
                    else:
                        is_none = j != "term" and rv2["k"] == "agg" and rv2.get("def") == c_enum \
                            and rv2.get("vn") != prog.adts[c_enum]["variants"][c_chv]["name"]
                    under_sync = b.dominates(sync_t, dbb) and not b.dominates(async_t, dbb)
                    under_async = b.dominates(async_t, dbb) and not b.dominates(sync_t, dbb)
                    if is_none:
                        n_none += 1
                    if is_none != under_sync or (not is_none and not under_async):
                        ok = False
                r.check(ok and n_none >= 1, "ctor:%s" % field[2], b,
                        "None stored in the Sync arm only (%d assignment(s) checked)" % len(defs),
                        "the value stored in %s is not `None` exactly in the SyncMode::Sync arm" % field[2],
                        "%s:%d" % (b.file, s.get("line", b.line)))
    if found == 0:
        r.bad("ctor", None, "no construction site of %s found" % field[1])
    # a borrowed view of the channel (`Option<&Sender<File>>`) is only ever made from the field (`as_ref()`), never built
    if c_enum is None:
        for b0 in prog.bodies.values():
            for bb in b0.normal_blocks():
                for s in b0.stmts(bb):
                    if s["k"] == "assign" and s["rv"]["k"] == "agg" and s["rv"].get("vn") == "Some" and not s["lhs"]["p"] \
                            and _is_borrowed_channel(prog, b0.locals[s["lhs"]["l"]]):
                        r.bad("borrowed-channel-built", b0,
                              "a `Some(&sender)` is built at %s:%d: the mode dispatch no longer depends on the field alone" % (
                                  b0.file, s.get("line", b0.line)))
    # every switch on the field has a Some edge to prune
    sws = _switches_on_field(ctx, field)
    r.check(len(sws) >= 1, "mode-dispatch", None, "%d switch(es) on the channel field" % len(sws),
            "no code dispatches on the channel field: cannot specialise to Sync mode")
    return r.finish()
