"""C17 Range reads equal slices for all bounds: bounds, guards, coupling of the accumulators."""
from .. import cfgutil, effects
from ..core import Site, term_path, FN_TRAIT_CALLS
from ..ctx import sem, sem_set
from ..prov import Slicer, fmt_leaf, binops_in, root_local
from ..vfg import place_of
from .base import Rule, site_construct, site_where, stable_path
from .c05 import read_roots

PROP = "C17"

SUB_OPS = ("SubWithOverflow", "Sub", "SubUnchecked")
ADD_OPS = ("AddWithOverflow", "Add", "AddUnchecked")


def item_size_field(ctx):
    item = ctx.anchors.get("ITEM")
    for f in ctx.prog.adts[item]["variants"][0]["fields"]:
        if ctx.prog.ty_str(f["ty"]) == "u64":
            return f["name"]
    return None


def range_bodies(ctx):
    """Bodies reachable from the read API that read a blob at an offset (FS_READ with an offset: read_at)."""
    out = []
    for e in ctx.fx.of_kind("FS_READ"):
        if "CAS_BLOB" in e.classes and (e.site.path or "").endswith("read_at"):
            out.append(e.site)
    return out


def range_views(ctx, rsites):
    """For every positional read of a blob: (flat view, the read site in it, root body).  The view starts at the
    outermost function that has a single call chain down to the read (today: the closure of get_range) and has the
    crate-private functions on the way inlined, so that the bounds checks, the clamp, the allocation and the read
    loop are judged in one control-flow graph wherever the function boundaries are drawn."""
    out = []
    for site in rsites:
        root = ctx.scope_root(site.body)
        V = ctx.flat(root)
        for fs in ctx.flat_sites_of(V, site):
            out.append((V, fs, root))
    return out


def implies_ge(op, a_is_first, edge_true):
    """Does `first op second` taking this edge imply  A >= B  where A is first if a_is_first else second?"""
    # normalise to relation between A and B
    rel = {"Gt": ">", "Ge": ">=", "Lt": "<", "Le": "<=", "Eq": "==", "Ne": "!="}[op]
    if not a_is_first:
        rel = {">": "<", ">=": "<=", "<": ">", "<=": ">=", "==": "==", "!=": "!="}[rel]
    if not edge_true:
        rel = {">": "<=", ">=": "<", "<": ">=", "<=": ">", "==": "!=", "!=": "=="}[rel]
    return rel in (">", ">=", "==")


def sub_guarded(ctx, b, bb, a_op, b_op):
    """Is the subtraction a - b in block bb dominated by a comparison edge that implies a >= b (same locals,
    not reassigned in between)?"""
    ra = root_local(b, a_op, fields=True)
    rb = root_local(b, b_op, fields=True)
    if ra is None or rb is None:
        # constant operand: a - const or const - b
        return False, "constant operand"
    for sw in b.normal_blocks():
        c = cfgutil.cmp_true_edge(b, sw)
        if c is None:
            continue
        op, x, y, t_true, t_false = c
        rx = root_local(b, x, fields=True)
        ry = root_local(b, y, fields=True)
        for (edge_t, is_true) in ((t_true, True), (t_false, False)):
            if edge_t is None or not cfgutil.edge_dominates(b, (sw, edge_t), bb):
                continue
            if rx == ra and ry == rb and implies_ge(op, True, is_true):
                if not _reassigned_between(b, edge_t, bb, [ra, rb], sw):
                    return True, "%s:%d `%s` (%s edge)" % (b.file, b.blocks[sw]["span"]["line"], op, "true" if is_true else "false")
            if rx == rb and ry == ra and implies_ge(op, False, is_true):
                if not _reassigned_between(b, edge_t, bb, [ra, rb], sw):
                    return True, "%s:%d `%s` (%s edge)" % (b.file, b.blocks[sw]["span"]["line"], op, "true" if is_true else "false")
    return False, "no dominating comparison of the same two values"


def _reassigned_between(b, start, end, locals_, sw=None):
    """Is one of the locals assigned on a path from the comparison edge to the subtraction that does not go
    through the comparison again?"""
    avoid = [sw] if sw is not None else []
    fwd = cfgutil.reach(b, start, removed_blocks=avoid)
    back = set()
    work = [end]
    while work:
        x = work.pop()
        if x in back or x in avoid:
            continue
        back.add(x)
        work.extend(b.preds(x))
    region = fwd & back
    locs = set(l for l in locals_ if isinstance(l, int))
    places = set((l[1], l[2]) for l in locals_ if isinstance(l, tuple) and l and l[0] == "place")
    for x in region:
        if x == end:
            # statements before the subtraction in the same block are copies; ignore
            continue
        for s in b.stmts(x):
            if s["k"] == "assign" and not s["lhs"]["p"] and s["lhs"]["l"] in locs and x != start:
                return True
            if s["k"] == "assign" and s["lhs"]["p"] and places and x != start and \
                    cfgutil.canon_place(b, s["lhs"]) in places:
                return True
        t = b.blocks[x]["term"]
        if places and t["k"] == "call" and x != start:
            # a call that is handed `&mut` to the struct may change the field
            for a in t["args"]:
                pl = place_of(a)
                if pl is not None and not pl["p"]:
                    ty = b.prog.types[b.locals[pl["l"]]]
                    if ty.get("k") == "ref" and ty.get("mut"):
                        c = cfgutil.canon_of_borrow(b, a)
                        if c is not None and any(c[0] == pl2[0] and pl2[1][:len(c[1])] == c[1] for pl2 in places):
                            return True
    return False


def _can_reach(body, target):
    seen = set()
    work = [target]
    while work:
        x = work.pop()
        if x in seen:
            continue
        seen.add(x)
        work.extend(body.preds(x))
    return seen


def rules(ctx, tier):
    out = []
    prog = ctx.prog
    rroots = read_roots(ctx)
    reach = prog.reachable_bodies(rroots)
    size_f = item_size_field(ctx)
    rsites = range_bodies(ctx)

    r = Rule("R1", "allocation <= blob length: every sized allocation on the read path is `end - start` with `end` clamped "
                   "to the stored size (and `start < size`), or the stored size itself",
             "get_range(key, 0, u64::MAX) on a 10-byte blob asks the allocator for 16 EiB")
    n = 0
    views = range_views(ctx, rsites)
    for p in sorted(reach):
        b = prog.bodies[p]
        for site in b.calls():
            idx = effects.ALLOC_SIZED.get(site.path or "")
            if idx is None or idx >= len(site.term["args"]):
                continue
            if site.span.get("exp") and "tracing" in (site.span.get("outer") or ""):
                continue
            if "format" in (site.span.get("outer") or "") or "fmt" in (site.path or ""):
                continue
            n += 1
            # judge the allocation in the flat view of the range path it belongs to (clamp, guard and allocation may
            # sit in different functions), else in the flat view of its own scope
            F = None
            for (V, fs, root) in views:
                if ctx.flat_sites_of(V, site):
                    F = V
            if F is None:
                F = ctx.flat(ctx.scope_root(b))
            occ = ctx.flat_sites_of(F, site) or [site]
            for fsite in occ:
                alloc_bounded(ctx, r, fsite.body, fsite, fsite.term["args"][idx], size_f, b)
    r.need(2, "sized allocations on the read path")
    out.append(r.finish())

    r = Rule("R2", "every subtraction on the range path is guarded by a comparison of the same two values",
             "start > end (or a stale accumulator) underflows: panic in debug, a huge length in release")
    # judged in the range views where the function is part of one (the guard may be a loop condition of the caller,
    # the operands fields of a progress struct updated by `&mut self` helpers), otherwise in its own body
    judged = {}
    for (V, fs, root) in views:
        for vbb in V.normal_blocks():
            ok_key = V.origin_key(vbb)
            for (lhs, op, a, bo) in binops_in(V, vbb):
                if op not in SUB_OPS:
                    continue
                sp = V.blocks[vbb]["span"]
                if sp.get("exp") and "tracing" in (sp.get("outer") or ""):
                    continue
                ok, why = sub_guarded(ctx, V, vbb, a, bo)
                prev = judged.get(ok_key)
                judged[ok_key] = (ok and (prev[0] if prev else True), why if not ok or prev is None else prev[1])
    for p in sorted(reach):
        b = prog.bodies[p]
        for s_ in b.calls():
            if (s_.path or "").split("::")[-1] in ("checked_sub", "saturating_sub") and (s_.path or "").startswith("core::num"):
                r.ok("sub:%s" % b.path.split("::")[-1], b, "subtraction at %s cannot underflow (%s)" % (
                    site_where(s_), (s_.path or "").split("::")[-1]))
        for bb in b.normal_blocks():
            for (lhs, op, a, bo) in binops_in(b, bb):
                if op not in SUB_OPS:
                    continue
                if b.blocks[bb]["span"].get("exp") and "tracing" in (b.blocks[bb]["span"].get("outer") or ""):
                    continue
                if (p, bb) in judged:
                    ok, why = judged[(p, bb)]
                else:
                    ok, why = sub_guarded(ctx, b, bb, a, bo)
                r.check(ok, "sub:%s" % b.path.split("::")[-1], b,
                        "subtraction at %s:%d guarded by %s" % (b.file, b.blocks[bb]["span"]["line"], why),
                        "subtraction at %s:%d is not guarded: %s" % (b.file, b.blocks[bb]["span"]["line"], why),
                        "%s:%d" % (b.file, b.blocks[bb]["span"]["line"]))
    r.need(2, "end-start and remaining = len - filled")
    out.append(r.finish())

    r = Rule("R3", "reject polarity: the invalid-range error is returned exactly when start > end; start >= size yields "
                   "the empty result before the clamp",
             "a valid request is rejected, or an inverted range is served")
    reject_polarity(ctx, r, views, size_f)
    r.need(2, "error arm, start<size before the read")
    out.append(r.finish())

    r = Rule("R4", "the accumulators advance together: offset, filled length and set_len all move by the bytes just read",
             "bytes are skipped or duplicated when a read returns fewer bytes than asked")
    for (V, fsite, root) in views:
        accumulators(ctx, r, fsite)
    r.need(5, "three accumulators, offset argument, slice bound")
    out.append(r.finish())

    r = Rule("R5", "get_size uses metadata only; get_reader wraps the descriptor opened on the looked-up hash",
             "get_size touches the file system (and can fail); get_reader streams another file")
    from ..flat import view_events
    for b in ctx.live_roots():
        # the events of this entry point in its own binding context (a lookup helper shared with get/get_range may be
        # generic over what it does with the item)
        names = set()
        evs = set()
        if prog.ty_str(b.locals[0]).startswith("std::result::Result<std::option::Option<u64>"):
            evs = view_events(ctx, ctx.flat(b))
            names = sem_set(e for e in evs if ctx._concrete(e))
        if "INDEX_READ" in names and "INDEX_MUTATE" not in names:
            fx = sorted(set(e[0] for e in evs if e[0].startswith(("FS_", "FLOCK")) and e[0] != "FS_CLOSE"))
            r.check(not fx, "size-no-io:%s" % b.path.split("::")[-1], b, "%s has no file-system effect" % b.path,
                    "%s may %s" % (b.path, "; ".join(fx[:3])))
        if "BufReader" in prog.ty_str(b.locals[0]):
            # the reader is built from the file handed in by the lookup body
            ok = False
            for cd in prog.closure_param_bindings_of_root(b) if hasattr(prog, "closure_param_bindings_of_root") else []:
                pass
            for s in b.calls():
                for a in s.term["args"]:
                    pl = place_of(a)
                    if pl is None or pl["p"]:
                        continue
                    cd = prog.closure_def_of_type(b.locals[pl["l"]])
                    cb = prog.bodies.get(cd) if cd else None
                    if cb is None:
                        continue
                    sl = Slicer(ctx.world, cb)
                    for bb in cb.normal_blocks():
                        for st in cb.stmts(bb):
                            if st["k"] == "assign" and st["lhs"]["l"] == 0 and st["rv"]["k"] == "agg" and st["rv"].get("vn") == "Ok":
                                lv = sl.leaves_of_operand(st["rv"]["ops"][0])
                                for l in lv:
                                    if l[0] == "call" and l[1] == "std::io::BufReader::new":
                                        t = cb.blocks[l[2]]["term"]
                                        inner = sl.leaves_of_operand(t["args"][0])
                                        ok = bool(inner) and all(x[0] == "param" for x in inner)
            r.check(ok, "reader-wraps-opened-file:%s" % b.path.split("::")[-1], b,
                    "%s wraps the file handed over by the lookup (opened under the guard)" % b.path,
                    "%s does not wrap the descriptor opened for the looked-up hash" % b.path)
    r.need(2, "get_size, get_reader")
    out.append(r.finish())

    # a range of the content can only equal the slice if the file holds the content: every write call sends the same
    # bytes, once and in call order, to counter, hasher and file
    from . import c18
    from .base import share_rule
    x = share_rule(ctx, tier, c18, "R1", "R6",
                   "the stored file is the streamed content: each write call hands exactly its data parameter, once, "
                   "through the one buffered writer, to the file (shared with C18-R1)",
                   "a large chunk is written around the buffer that still holds earlier small chunks: size and hash are "
                   "right, but the bytes are stored out of order - get_range(0, n) returns bytes of a later chunk")
    if x is not None:
        out.append(x)
    x = share_rule(ctx, tier, c18, "R5", "R7",
                   "what a read slices is the committed content: the publish step returns Ok only behind the rename of this "
                   "transaction's staging file (or a tested 'destination exists') (shared with C18-R5 / C03-R1)",
                   "the publish step skips the rename when a file with that name exists: a short file left by a crash is "
                   "kept, the key is committed with length L, and get_range(L-10, L) returns nothing")
    if x is not None:
        out.append(x)
    return out


def alloc_bounded(ctx, r, b, site, size_op, size_f, key_body=None):
    """b is a flat view; key_body the original function the allocation is written in (for stable keys)."""
    prog = ctx.prog
    kb = key_body or b
    sl = Slicer(ctx.world, b)
    lv = sl.leaves_of_operand(size_op)
    where = site_where(site)
    plv = set(l for l in lv if l[0] != "const")
    # (a) the stored size itself
    if plv and _is_size(plv, size_f):
        r.ok("alloc:size-hint:%s" % kb.path.split("::")[-1], kb, "allocation at %s is the stored blob size" % where)
        return
    # (b) size = end - start, start <= end, end clamped to the stored size, start < size
    csubs = [l for l in lv if l[0] == "call" and l[1].split("::")[-1] in ("checked_sub",)]
    if len(lv) == 1 and csubs:
        # `end.checked_sub(start).ok_or(err)?`: end-start, and start<=end by construction
        t_ = b.blocks[csubs[0][2]]["term"]
        a, bo = t_["args"][0], t_["args"][1]
        ok_end = clamped_to_size(ctx, b, sl, a, size_f)
        ok_start = start_below_size(ctx, b, sl, bo, site.bb, size_f)
        r.check(ok_end and ok_start, "alloc:end-minus-start:%s" % kb.path.split("::")[-1], kb,
                "allocation at %s is end-start (checked), end clamped to the stored size and start<size" % where,
                "allocation at %s = end-start is not bounded by the blob size (end clamped to the stored size: %s; "
                "start<size before it: %s)" % (where, ok_end, ok_start), where)
        return
    subs = [l for l in lv if l[0] == "binop" and l[1] in SUB_OPS]
    if len(lv) == 1 and subs:
        bb = subs[0][2]
        ops = [x for x in binops_in(b, bb) if x[1] in SUB_OPS]
        if ops:
            _, _, a, bo = ops[0]
            ok_guard, why = sub_guarded(ctx, b, bb, a, bo)
            ok_end = clamped_to_size(ctx, b, sl, a, size_f)
            ok_start = start_below_size(ctx, b, sl, bo, site.bb, size_f)
            r.check(ok_guard and ok_end and ok_start, "alloc:end-minus-start:%s" % kb.path.split("::")[-1], kb,
                    "allocation at %s is end-start with start<=end (%s), end clamped to the stored size and start<size" % (where, why),
                    "allocation at %s = end-start is not bounded by the blob size (start<=end: %s; end clamped to the "
                    "stored size: %s; start<size before it: %s)" % (where, ok_guard, ok_end, ok_start), where)
            return
    if plv and len(plv) == 1 and list(plv)[0][0] == "param" and not list(plv)[0][2]:
        r.bad("alloc:size-hint:%s" % kb.path.split("::")[-1], kb,
              "allocation at %s takes parameter #%d, which is not bound to the stored size on this path" % (
                  where, list(plv)[0][1]), where)
        return
    consts = lv and all(l[0] == "const" for l in lv)
    r.check(bool(consts), "alloc:%s" % (site.path or "?"), kb, "constant-size allocation at %s" % where,
            "allocation at %s has a size of origin %s that is not shown to be bounded by the blob size" % (
                where, sorted(fmt_leaf(l) for l in lv)), where)


def start_below_size(ctx, b, sl, start_op, at_bb, size_f):
    """Is block at_bb dominated by a comparison edge on which start < size?"""
    start_l = sl.leaves_of_operand(start_op)
    if not start_l:
        return False
    for sw in b.normal_blocks():
        c = cfgutil.cmp_true_edge(b, sw)
        if c is None:
            continue
        op, x, y, t_true, t_false = c
        lx, ly = sl.leaves_of_operand(x), sl.leaves_of_operand(y)
        x_start, y_start = bool(lx) and lx <= start_l, bool(ly) and ly <= start_l
        x_size, y_size = _is_size(lx, size_f), _is_size(ly, size_f)
        for (edge_t, is_true) in ((t_true, True), (t_false, False)):
            if edge_t is None or not cfgutil.edge_dominates(b, (sw, edge_t), at_bb):
                continue
            if x_start and y_size and ((op == "Lt" and is_true) or (op == "Ge" and not is_true)):
                return True
            if y_start and x_size and ((op == "Gt" and is_true) or (op == "Le" and not is_true)):
                return True
    return False


def _is_size(lv, size_f):
    return bool(lv) and all(y[0] == "param" and y[2] and y[2][-1] == size_f for y in lv)


def clamped_to_size(ctx, cb, csl, op, size_f):
    """Accepted idioms for `end` clamped against the stored size:
       min(end, size) / Ord::min / clamp(_, _, size); or a conditional assignment where every value other
       than the size itself is assigned under a comparison edge that implies value <= size."""
    lv = csl.leaves_of_operand(op)
    for l in lv:
        if l[0] == "call" and l[1] in ("std::cmp::min", "std::cmp::Ord::min", "std::cmp::Ord::clamp"):
            t = cb.blocks[l[2]]["term"]
            if any(_is_size(csl.leaves_of_operand(x), size_f) for x in t["args"]):
                if len(lv) == 1:
                    return True
    # conditional assignment
    pl = place_of(op)
    if pl is None or pl["p"]:
        return False
    l0 = pl["l"]
    for _ in range(6):
        defs = cb.assignments().get(l0, [])
        if len(defs) == 1 and defs[0][1] != "term" and defs[0][2]["k"] == "use" and place_of(defs[0][2]["op"]) \
                and not place_of(defs[0][2]["op"])["p"]:
            l0 = place_of(defs[0][2]["op"])["l"]
            continue
        break
    defs = cb.assignments().get(l0, [])
    if len(defs) < 2:
        return False
    for (dbb, j, rv) in defs:
        if j == "term" or rv["k"] != "use":
            return False
        vl = csl.leaves_of_operand(rv["op"])
        if _is_size(vl, size_f):
            continue
        # value != size: must sit under an edge implying value <= size
        ok = False
        for sw in cb.normal_blocks():
            c = cfgutil.cmp_true_edge(cb, sw)
            if c is None:
                continue
            op_, x, y, t_true, t_false = c
            lx, ly = csl.leaves_of_operand(x), csl.leaves_of_operand(y)
            for (edge_t, is_true) in ((t_true, True), (t_false, False)):
                if edge_t is None or not cfgutil.edge_dominates(cb, (sw, edge_t), dbb):
                    continue
                if lx == vl and _is_size(ly, size_f) and implies_ge(op_, False, is_true):
                    ok = True        # size >= value
                if ly == vl and _is_size(lx, size_f) and implies_ge(op_, True, is_true):
                    ok = True
        if not ok:
            return False
    return True


def reject_polarity(ctx, r, views, size_f):
    prog = ctx.prog
    for (b, fsite, root) in views:
        ob = b.origin_body(fsite.bb)
        sl = Slicer(ctx.world, b)
        # Err values built on the way (not by map_err closures: those wrap an io::Error): only on `start > end`
        subs = [(bb2, o) for bb2 in b.normal_blocks() for o in binops_in(b, bb2) if o[1] in SUB_OPS]
        for bb in b.normal_blocks():
            for s in b.stmts(bb):
                if not (s["k"] == "assign" and not s["lhs"]["p"] and s["rv"]["k"] == "agg" and s["rv"].get("vn") == "Err"
                        and s["rv"].get("def") == "std::result::Result"):
                    continue
                if not (bb in _can_reach(b, fsite.bb) or fsite.bb in cfgutil.reach(b, bb) or True):
                    continue
                # an error passed on (`match read_at(..) { Err(e) => return Err(Wrapped(e)) }`): built behind the Err edge
                # of a failed call - not a rejection of the request
                rfb = ctx.rf(b)
                if any(cfgutil.edges_dominate(b, rfb.err_edges_of(cs_.bb), bb) for cs_ in b.calls() if rfb.err_edges_of(cs_.bb)):
                    continue
                ok = False
                # `end.checked_sub(start).ok_or(RangeError)`: the error is what the `None` of the checked subtraction -
                # start > end - is turned into
                errl = s["lhs"]["l"]
                for s2 in b.calls():
                    if (s2.path or "").split("::")[-1] in ("ok_or", "ok_or_else") and len(s2.term["args"]) == 2:
                        al = sl.leaves_of_operand(s2.term["args"][1])
                        recv = sl.leaves_of_operand(s2.term["args"][0])
                        built_here = any(x[0] == "agg" and x[2] == bb for x in al) or (
                            place_of(s2.term["args"][1]) is not None and _flows_to(b, errl, place_of(s2.term["args"][1])["l"]))
                        if built_here and recv and all(x[0] == "call" and x[1].split("::")[-1] == "checked_sub" for x in recv):
                            ok = True
                for sw in b.normal_blocks():
                    c = cfgutil.cmp_true_edge(b, sw)
                    if c is None or c[0] not in ("Gt", "Lt"):
                        continue
                    op, x, y, t_true, t_false = c
                    if t_true is None or not cfgutil.edge_dominates(b, (sw, t_true), bb):
                        continue
                    lx, ly = sl.leaves_of_operand(x), sl.leaves_of_operand(y)
                    start_end = (lx, ly) if op == "Gt" else (ly, lx)
                    if any(sl.leaves_of_operand(o[2]) == start_end[1] and sl.leaves_of_operand(o[3]) == start_end[0]
                           for _, o in subs):
                        ok = True
                kb = b.origin_body(bb)
                r.check(ok, "invalid-range-iff-start-gt-end", kb,
                        "the range error at %s:%d is returned only on `start > end`" % (kb.file, s.get("line", 0)),
                        "the range error at %s:%d is not tied to `start > end` of the values that are subtracted" % (
                            kb.file, s.get("line", 0)), "%s:%d" % (kb.file, s.get("line", 0)))
        # the rejection written as `end.checked_sub(start).ok_or(RangeError)?`
        for s2 in b.calls():
            if (s2.path or "").split("::")[-1] in ("ok_or", "ok_or_else") and len(s2.term["args"]) == 2:
                recv = sl.leaves_of_operand(s2.term["args"][0])
                if recv and all(x[0] == "call" and x[1].split("::")[-1] == "checked_sub" for x in recv):
                    kb = b.origin_body(s2.bb)
                    r.ok("invalid-range-iff-start-gt-end", kb,
                         "the range error at %s is what `end.checked_sub(start)` = None (start > end) is turned into" % site_where(s2))
        # the read happens only below the stored size; at or above it the result is produced without reading
        off = fsite.term["args"][2] if len(fsite.term["args"]) > 2 else None
        ok = False
        if off is not None:
            reads = [s2.bb for s2 in b.sites() if any(e.kind == "FS_READ" for e in ctx.effects_at(s2))]
            for sw in b.normal_blocks():
                c = cfgutil.cmp_true_edge(b, sw)
                if c is None or c[0] not in ("Ge", "Lt", "Gt", "Le"):
                    continue
                op, x, y, t_true, t_false = c
                lx, ly = sl.leaves_of_operand(x), sl.leaves_of_operand(y)
                if _is_size(ly, size_f) and op in ("Ge", "Lt"):
                    below = t_false if op == "Ge" else t_true
                    above = t_true if op == "Ge" else t_false
                elif _is_size(lx, size_f) and op in ("Le", "Gt"):
                    below = t_false if op == "Le" else t_true
                    above = t_true if op == "Le" else t_false
                else:
                    continue
                if below is None or above is None or not cfgutil.edge_dominates(b, (sw, below), fsite.bb):
                    continue
                beyond = cfgutil.reach(b, above, removed_edges=[(sw, below)])
                if not (set(reads) & beyond):
                    ok = True
        r.check(ok, "range-read-only-below-size", ob,
                "the range read at %s happens only when start < size; start >= size produces its result without reading" % site_where(fsite),
                "the range read at %s is not preceded by the `start >= size` early exit" % site_where(fsite), site_where(fsite))


def _place_defs(prog, b, key):
    """Definitions of a struct field identified by its canonical place (local, field names): direct assignments to the
    field, and the field's operand in an aggregate that initialises the whole struct.  Same shape as
    Body.assignments() entries: (bb, index, rvalue)."""
    out = []
    l0, names = key
    for bb in b.normal_blocks():
        for j, st in enumerate(b.stmts(bb)):
            if st["k"] != "assign":
                continue
            lhs = st["lhs"]
            if lhs["p"] and cfgutil.canon_place(b, lhs) == key:
                out.append((bb, j, st["rv"]))
            elif st["rv"]["k"] == "agg" and st["rv"].get("ak") == "adt" and len(names) >= 1 and \
                    names[-1] in (st["rv"].get("fields") or []):
                # `fill = RangeFill { .., next_offset: start }` (possibly in an inlined constructor and moved out)
                who = cfgutil.canon_place(b, lhs) if lhs["p"] else (lhs["l"], ())
                if _flows_to(b, who[0], l0) and who[1] == names[:-1]:
                    idx = st["rv"]["fields"].index(names[-1])
                    out.append((bb, j, {"k": "use", "op": st["rv"]["ops"][idx]}))
    return out


def _flows_to(b, src, dst, depth=0):
    """Is local `src` moved (whole) into local `dst` (through returns of inlined constructors)?"""
    if src == dst:
        return True
    if depth > 6:
        return False
    for l, defs in b.assignments().items():
        for (bb, j, rv) in defs:
            if j != "term" and rv["k"] == "use":
                pl = place_of(rv["op"])
                if pl is not None and not pl["p"] and pl["l"] == src and l != src:
                    if _flows_to(b, l, dst, depth + 1):
                        return True
    return False


def accumulators(ctx, r, site):
    """site: the positional read in the loop."""
    b = site.body
    kb = b.origin_body(site.bb) if getattr(b, "is_flat", False) else b
    prog = ctx.prog
    sl = Slicer(ctx.world, b)
    # n = bytes read: the Ok payload of the read
    n_locals = set()
    dest = site.term["dest"]["l"]
    # locals that copy the Continue/Ok payload
    for l, defs in b.assignments().items():
        for (bb, j, rv) in defs:
            if j != "term" and rv["k"] == "use":
                lv = sl.leaves_of_operand(rv["op"])
                if any(x[0] == "call" and x[2] == site.bb for x in lv) and prog.ty_str(b.locals[l]) == "usize":
                    n_locals.add(l)
    r.check(bool(n_locals), "bytes-read", kb, "bytes-read value found", "cannot find the bytes-read value of the read at %s" % site_where(site))
    loop_hdrs = [h for h in b.normal_blocks() if any(b.dominates(h, p) for p in b.preds(h)) and site.bb in cfgutil.natural_loop(b, h)]
    loop = set().union(*[cfgutil.natural_loop(b, h) for h in loop_hdrs]) if loop_hdrs else set()
    adds = []
    for bb in sorted(loop):
        for (lhs, op, a, bo) in binops_in(b, bb):
            if op in ADD_OPS:
                adds.append((bb, lhs, a, bo))
    by_n = []
    for (bb, lhs, a, bo) in adds:
        ra, rb = root_local(b, a), root_local(b, bo)
        if ra in n_locals or rb in n_locals:
            by_n.append((bb, lhs, a, bo, rb if ra in n_locals else ra))
    r.check(len(by_n) >= 3, "advance-by-bytes-read", kb,
            "%d accumulator updates in the loop add the bytes just read (%s)" % (
                len(by_n), ", ".join("%s:%d" % (b.file, b.blocks[x[0]]["span"]["line"]) for x in by_n)),
            "only %d accumulator update(s) in the read loop add the bytes-read value (expected offset, filled, len)" % len(by_n))
    for (bb, lhs, a, bo) in adds:
        ra, rb = root_local(b, a), root_local(b, bo)
        if not (ra in n_locals or rb in n_locals):
            r.bad("advance-by-other", kb, "an accumulator in the read loop at %s:%d advances by something other than the bytes read" % (
                b.file, b.blocks[bb]["span"]["line"]), "%s:%d" % (b.file, b.blocks[bb]["span"]["line"]))
    # offset argument of the read = an accumulator initialised from a parameter and advanced only by n
    off = site.term["args"][2] if len(site.term["args"]) > 2 else None
    if off is not None:
        ro = root_local(b, off, fields=True)
        if isinstance(ro, tuple) and ro and ro[0] == "place":
            defs = _place_defs(prog, b, (ro[1], ro[2]))     # the offset lives in a field of a progress struct
        else:
            defs = b.assignments().get(ro, []) if isinstance(ro, int) else []
        init_param = False
        adv = False
        other = False
        for (dbb, j, rv) in defs:
            if j == "term":
                other = True
            elif rv["k"] == "use":
                lv = sl.leaves_of_operand(rv["op"])
                if any(x[0] == "binop" and x[1] in ADD_OPS for x in lv):
                    adv = True
                elif lv and dbb not in loop and not any(x[0] == "call" and x[2] == site.bb for x in lv):
                    init_param = True       # the start offset, set once before the loop
                else:
                    other = True
            elif rv["k"] == "binop":
                # unchecked build: `off = Add(off, n)` without the overflow-check tuple
                if rv["op"] in ADD_OPS:
                    adv = True
                else:
                    other = True
            else:
                other = True
        r.check(init_param and adv and not other, "offset-accumulator", kb,
                "the read offset starts at the start parameter and only advances by the bytes read",
                "the offset passed to the read at %s is not `start` advanced by the bytes read" % site_where(site), site_where(site))
    # slice bound: from_raw_parts(ptr, remaining), remaining = min(spare.len(), want - filled)
    buf = site.term["args"][1]
    lv = sl.leaves_of_operand(buf)
    ok = False
    for l in lv:
        if l[0] == "call" and l[1].endswith("from_raw_parts_mut"):
            t = b.blocks[l[2]]["term"]
            ln = sl.leaves_of_operand(t["args"][1])
            ptr = sl.leaves_of_operand(t["args"][0])
            from_spare = any(y[0] == "call" and "spare_capacity_mut" in y[1] for y in ptr) or \
                any(y[0] == "call" and y[1].endswith("as_mut_ptr") for y in ptr)

            def is_spare_len(y):
                return y[0] == "call" and y[1].endswith("::len")

            def is_remaining(y):
                return y[0] == "binop" and y[1] in SUB_OPS
            for x in ln:
                if x[0] == "call" and x[1] in ("std::cmp::min", "std::cmp::Ord::min"):
                    t2 = b.blocks[x[2]]["term"]
                    la = [sl.leaves_of_operand(z) for z in t2["args"]]
                    has_spare = any(any(is_spare_len(y) for y in al) for al in la)
                    has_rem = any(any(is_remaining(y) for y in al) for al in la)
                    ok = has_spare and has_rem and from_spare
            if not ok and ln and all(is_spare_len(y) or is_remaining(y) for y in ln) and \
                    any(is_spare_len(y) for y in ln) and any(is_remaining(y) for y in ln):
                # `if spare.len() < remaining { spare.len() } else { remaining }`: each value is taken on the edge of a
                # comparison of exactly these two on which it is the smaller one
                pl = place_of(t["args"][1])
                l0 = root_local(b, t["args"][1])
                defs = b.assignments().get(l0, []) if isinstance(l0, int) else []
                good = len(defs) >= 2
                for (dbb, j, rv) in defs:
                    if j == "term":
                        vl = {("call", term_path(rv) or "?", dbb, ())}
                    elif rv["k"] == "use":
                        vl = sl.leaves_of_operand(rv["op"])
                    else:
                        good = False
                        continue
                    fine = False
                    for sw in b.normal_blocks():
                        c = cfgutil.cmp_true_edge(b, sw)
                        if c is None or c[0] not in ("Lt", "Le", "Gt", "Ge"):
                            continue
                        op_, p_, q_, t_true, t_false = c
                        lp, lq = sl.leaves_of_operand(p_), sl.leaves_of_operand(q_)
                        if not ((all(map(is_spare_len, lp)) and all(map(is_remaining, lq))) or
                                (all(map(is_remaining, lp)) and all(map(is_spare_len, lq)))) or not lp or not lq:
                            continue
                        for (edge_t, is_true) in ((t_true, True), (t_false, False)):
                            if edge_t is None or not cfgutil.edge_dominates(b, (sw, edge_t), dbb):
                                continue
                            # on this edge: is the assigned value <= the other one?
                            def kind(ls):
                                return "spare" if ls and all(map(is_spare_len, ls)) else (
                                    "rem" if ls and all(map(is_remaining, ls)) else None)
                            if kind(vl) is not None and kind(vl) == kind(lp) and implies_ge(op_, False, is_true):
                                fine = True       # q >= p
                            if kind(vl) is not None and kind(vl) == kind(lq) and implies_ge(op_, True, is_true):
                                fine = True       # p >= q
                    good = good and fine
                ok = good and from_spare
    r.check(ok, "slice-bound", kb,
            "the read target is the spare capacity, at most min(spare, remaining) bytes",
            "the slice handed to the read at %s is not bounded by min(spare capacity, remaining)" % site_where(site), site_where(site))
    # set_len argument = len + n
    for s in b.calls():
        if (s.path or "").endswith("Vec::set_len"):
            lv = sl.leaves_of_operand(s.term["args"][1])
            good = False
            for x in lv:
                if x[0] == "binop" and x[1] in ADD_OPS:
                    for (lhs, op, a, bo) in binops_in(b, x[2]):
                        if op in ADD_OPS:
                            ra, rb = root_local(b, a), root_local(b, bo)
                            la = sl.leaves_of_operand(a) | sl.leaves_of_operand(bo)
                            if (ra in n_locals or rb in n_locals) and any(y[0] == "call" and y[1].endswith("Vec::len") for y in la):
                                good = True
            r.check(good, "set-len", kb, "set_len(len + bytes_read) at %s" % site_where(s),
                    "set_len at %s is not len() + bytes_read" % site_where(s), site_where(s))
