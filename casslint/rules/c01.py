"""C01 Ordered-map semantics for every sequential history: the store is wired as a refinement of BTreeMap."""
from .. import cfgutil, vfg as vfgmod
from ..core import Site, term_path, FN_TRAIT_CALLS
from ..ctx import sem, sem_set, ANCHOR_FIELDS
from ..prov import Slicer, fmt_leaf
from ..vfg import place_of
from .base import Rule, site_construct, site_where, stable_path
from .c13 import txn_type
from .c05 import read_roots

PROP = "C01"


def mutating_roots(ctx):
    return [r for r in ctx.live_roots() if "INDEX_MUTATE" in sem_set(ctx.may.all_events(r.path))
            and "SNAP_PUBLISH:INDEX" in sem_set(e for e in ctx.may.all_events(r.path) if ctx._concrete(e))
            and "WAL_WRITE" in sem_set(e for e in ctx.may.all_events(r.path) if ctx._concrete(e))]


def rules(ctx, tier):
    out = []
    prog = ctx.prog
    must = ctx.must(None)
    A = ctx.anchors

    r = Rule("R1", "ack => applied, and the reported result matches: an Ok return that reports a change lies behind the "
                   "apply step; an Ok return that reports 'nothing done' is mutation-free",
             "finish()/remove() returns Ok and a following get still shows the old value (or remove reports false "
             "after removing)")
    mroots = mutating_roots(ctx)
    r.check(len(mroots) >= 3, "mutators", None, "mutating entry points: %s" % ", ".join(b.path.split("::")[-1] for b in mroots),
            "expected at least 3 mutating entry points (commit, remove, remove_range), found %d" % len(mroots))
    for root in mroots:
        ack_applied(ctx, r, must, root)
    r.need(6, "Ok exits of the mutating entry points")
    out.append(r.finish())

    r = Rule("R2", "the operation is applied as the map operation it denotes: put inserts (key, {hash,size}) of the op, "
                   "remove removes every key of the op; the op carries the transaction's key, hash and size",
             "size taken from the wrong field (get_size != length), or the wrong key/hash stored")
    apply_denotes(ctx, r)
    txn_flow(ctx, r)
    r.need(7, "insert args x3, remove loop, key/hash/size flow x3")
    out.append(r.finish())

    r = Rule("R3", "reads resolve through the same map: the blob that is opened and the size that is returned come, by a "
                   "copy-only chain, from BTreeMap::get(key_to_hash, key); 'absent' only when the lookup says so",
             "a read returns the bytes of another key, or an I/O error is turned into 'absent'")
    reads_resolve(ctx, r)
    r.need(6, "lookup body, reading closures, blob opener")
    out.append(r.finish())

    r = Rule("R8", "present/absent at the API surface is the lookup's verdict: a read entry point returns Ok(Some(..)) only "
                   "behind the found-edge of the key-map lookup and Ok(None) only behind its not-found edge",
             "a read of an absent key answers with a value (an early return in front of the lookup), or a present key "
             "is reported absent")
    surface_agrees(ctx, r)
    r.need(4, "Option-returning read entry points")
    out.append(r.finish())

    r = Rule("R4", "iteration is the map's: the read view hands out the BTreeMap's own iterators and reads only the "
                   "guarded state",
             "keys are returned in another order, or from a second copy that is out of date")
    view_methods(ctx, r)
    r.need(6, "read-view accessors")
    out.append(r.finish())

    r = Rule("R6", "closed world: nothing reachable from outside the crate can mutate the key map except through the "
                   "logged path; the read view gives no mutable access",
             "a caller changes the index behind the log's back")
    st = A.get("STATE")
    r.check(st in prog.adts and not prog.adts[st]["reachable"], "state-private", None,
            "%s is not nameable from outside the crate" % st, "%s is reachable from outside the crate" % st)
    for b in ctx.api_roots():
        t = prog.types[b.locals[0]]
        if t.get("k") == "ref" and t.get("mut"):
            inner = prog.ty_str(t["in"])
            if any(x in inner for x in ("BTreeMap", "IndexState", "HashMap")):
                r.bad("mut-ref:%s" % b.path.split("::")[-1], b, "%s returns %s" % (b.path, prog.ty_str(b.locals[0])))
        # &mut self access to the state through a public method
    mut_roots = [b for b in ctx.api_roots() if "INDEX_MUTATE" in sem_set(ctx.may.all_events(b.path))]
    logged = set(x.path for x in mroots) | set(x.path for x in ctx.open_roots())
    for b in mut_roots:
        is_drop_or_derive = b.raw.get("impl_trait") in ("std::clone::Clone", "std::default::Default", "std::fmt::Debug")
        r.check(b.path in logged or is_drop_or_derive, "mutator:%s" % b.path.split("::")[-1], b,
                "%s mutates the key map only through the logged path / replay" % b.path,
                "%s can mutate the key map and is externally reachable, but is not one of the logged entry points" % b.path)
    r.need(4, "state privacy + the mutating roots")
    out.append(r.finish())

    # a put of any content must be able to publish: the directory layout the publish step relies on (pre-created or
    # created on demand, as remembered in the settings) is never undone by another operation
    from . import c19
    shared = dict((x.rid, x) for x in c19.rules(ctx, tier))
    x = shared.get("R6")
    if x is not None:
        x.rid = "R7"
        x.title = "a put can always publish: no operation removes or renames a directory under cas/ (shared with C19-R6)"
        x.scenario = ("a remove deletes the emptied shard directory; with a pre-created tree the next put of content hashing "
                      "into it fails with NotFound: a put that the map semantics say succeeds returns an error")
        for o in x.obs:
            o.scenario = x.scenario
        out.append(x)
    # "streamed puts with any chunking": whatever the sizes of the chunks, the bytes reach the file in the order they
    # were hashed and counted
    from . import c18
    from .base import share_rule
    x = share_rule(ctx, tier, c18, "R1", "R9",
                   "a streamed put stores its chunks in order: every write call hands exactly its data, once, through the "
                   "one buffered writer (shared with C18-R1)",
                   "a large chunk is written around the buffer that still holds an earlier small chunk: hash and size are "
                   "those of header-then-body, the file holds body-then-header, and get returns bytes that were never put")
    if x is not None:
        out.append(x)
    return out


def _ok_exits(ctx, must, body, depth=0):
    """[(must set, may set, reported value leaves, where, body of the leaves)] of the Ok exits of a body, relative to its
    entry.  An exit that forwards the whole Result of a crate-private helper with the same return type is replaced by
    that helper's own Ok exits (`remove_keys(keys)` answers Ok(0) when there is nothing to do and Ok(n) after the apply:
    two exits, judged one by one)."""
    prog = ctx.prog
    must.summarize(body)
    rf = must.rf(body)
    IN = must.rel_in[body.path]
    mayIN = ctx.may.solve_body(body)
    sl = Slicer(ctx.world, body)
    out = []
    for bb, kind in sorted(rf.forwarded.items()):
        if kind == "err" or bb not in IN or IN[bb] is None:
            continue
        S = set(IN[bb])
        M = set(mayIN.get(bb, ()))
        val = None
        where = "%s:%d" % (body.file, body.blocks[bb]["span"]["line"])
        if isinstance(kind, tuple):
            o = kind[1]
            site = Site(body, o, body.blocks[o]["term"])
            tgt = prog.local_target(site)
            same_ty = tgt is not None and prog.ty_str(tgt.locals[0]) == prog.ty_str(body.locals[0])
            mapped = None
            if tgt is not None and not same_ty and bb != o:
                mapped = _ok_mapper(ctx, body, bb)      # `helper(..).map(|n| n != 0)`: the Ok value goes through a closure
            if tgt is not None and depth < 2 and not tgt.reachable and not tgt.is_closure and \
                    (same_ty or mapped is not None) and o in IN and IN[o] is not None:
                S0 = set(IN[o])
                M0 = set(mayIN.get(o, ()))
                for (S2, M2, val2, where2, b2) in _ok_exits(ctx, must, tgt, depth + 1):
                    S2i = set(x for x in (ctx._subst(e, site, tgt) for e in S2) if x is not None)
                    M2i = set(x for x in (ctx._subst(e, site, tgt) for e in M2) if x is not None)
                    if mapped is not None:
                        v3 = mapped(val2)
                        out.append((S0 | S2i, M0 | M2i, v3, where, body if v3 is not None else b2))
                    else:
                        out.append((S0 | S2i, M0 | M2i, val2, where2, b2))
                continue
            cs = must._callee_summaries(site)
            if cs:
                S |= set(cs[1])
            M |= set(ctx.may.site_events(site))
            rts = prog.ty_str(body.locals[0])
            if rts.startswith(("std::result::Result<usize", "std::result::Result<u64", "std::result::Result<bool")):
                # the whole Result is forwarded from a callee: what it reports is what the callee returns on Ok
                from ..prov import expand_down
                dsl = Slicer(ctx.world, body, skip_err=True)
                val = expand_down(ctx.world, body, dsl.leaves_of_place(site.term["dest"]))
                val = set(x for x in val if not (x[0] == "call" and (x[1] or "").endswith("from_residual")))
        else:
            for s in body.stmts(bb):
                if s["k"] == "assign" and s["lhs"]["l"] == 0 and s["rv"]["k"] == "agg" and s["rv"]["ops"]:
                    val = sl.leaves_of_operand(s["rv"]["ops"][0])
        out.append((S, M, val, where, body))
    return out


def _ok_mapper(ctx, body, bb):
    """`result.map(closure)` as the forwarding step: a function from the leaves of the helper's Ok value to the leaves
    of the mapped value - decided when the closure compares its argument with a constant and the value is a constant
    (`|n| n != 0` on `Ok(0)` is `false`); None (unknown, nothing is claimed about the reported value) otherwise.
    Returns None if the block is not such a `map`."""
    prog = ctx.prog
    t = body.blocks[bb]["term"]
    if t["k"] != "call" or term_path(t) != "std::result::Result::map" or len(t["args"]) < 2:
        return None
    pl = place_of(t["args"][1])
    cd = prog.closure_def_of_type(body.locals[pl["l"]]) if pl is not None and not pl["p"] else None
    cb = prog.bodies.get(cd) if cd else None
    if cb is None:
        return None
    cmpop = None
    for x in cb.normal_blocks():
        for st in cb.stmts(x):
            if st["k"] == "assign" and st["rv"]["k"] == "binop" and st["rv"]["op"] in ("Eq", "Ne", "Gt", "Lt", "Ge", "Le"):
                a, b_ = st["rv"]["a"], st["rv"]["b"]
                ca = a.get("const", {}).get("v") if "const" in a else None
                cbv = b_.get("const", {}).get("v") if "const" in b_ else None
                if isinstance(cbv, int) and ca is None:
                    cmpop = (st["rv"]["op"], cbv)

    def mapper(val):
        if cmpop is None or not val:
            return None
        consts = [l[1] for l in val if l[0] == "const"]
        if len(consts) != len(val) or not all(isinstance(c, int) for c in consts) or len(set(consts)) != 1:
            return None
        v = consts[0]
        op, k = cmpop
        res = {"Eq": v == k, "Ne": v != k, "Gt": v > k, "Lt": v < k, "Ge": v >= k, "Le": v <= k}[op]
        return {("const", 1 if res else 0, ())}
    return mapper


def ack_applied(ctx, r, must, root):
    prog = ctx.prog
    sl = Slicer(ctx.world, root)
    n = 0
    for (S, M, val, where, vb) in _ok_exits(ctx, must, root):
        if vb is not root and val:
            # leaves of a helper's exit value, seen from the entry point: parameters become the call's arguments
            from ..prov import _tag
            val = set(_tag(l, vb) for l in val)
        names = sem_set(S)
        mnames = sem_set(e for e in M if ctx._concrete(e))
        applied = "APPLIED" in names
        clean = not (mnames & {"INDEX_MUTATE", "WAL_WRITE", "BLOB_UNLINK"})
        n += 1
        # an entry point that reports nothing (`Result<()>`: a put) cannot say "nothing was done": its Ok means applied
        unit = prog.ty_str(root.locals[0]).startswith("std::result::Result<(),")
        r.check(applied or (clean and not unit), "ok-exit:%s" % root.path.split("::")[-1], root,
                "Ok exit of %s at %s: %s" % (root.path, where, "applied" if applied else "nothing touched"),
                ("Ok exit of %s at %s is reached without the operation having been applied: the call reports success "
                 "and has no way to say that nothing was done" % (root.path, where)) if (clean and unit and not applied) else
                ("Ok exit of %s at %s is reached on paths where the op may have been logged/applied but is not "
                 "guaranteed to be" % (root.path, where)), where)
        # reported value
        if val:
            consts = [l[1] for l in val if l[0] == "const"]
            if consts and all(isinstance(c, int) for c in consts) and len(val) == len(consts):
                v = consts[0]
                if prog.ty_str(root.locals[0]).startswith("std::result::Result<bool"):
                    r.check((v == 1 and applied) or (v == 0 and clean), "reported:%s:%s" % (
                        root.path.split("::")[-1], "true" if v else "false"), root,
                            "%s reports %s exactly when %s" % (root.path, bool(v), "applied" if v else "nothing was done"),
                            "%s reports %s at %s although the op was %s" % (
                                root.path, bool(v), where, "not applied" if v else "(possibly) applied"), where)
                elif v == 0 and "usize" in prog.ty_str(root.locals[0]):
                    r.check(clean, "reported:%s:zero" % root.path.split("::")[-1], root,
                            "%s reports 0 only when nothing was done" % root.path,
                            "%s reports 0 at %s although something may have been removed" % (root.path, where), where)
            elif any(l[0] == "call" and l[1].endswith("Vec::len") for l in val):
                # the count is the length of the vector handed to the apply call
                lens = [l for l in val if l[0] == "call" and l[1].endswith("Vec::len")]
                # the `len` call may sit in a private helper that gets the list as a parameter and hands it to the apply
                # call (`remove_keys(keys, ..)`): aliases and the hand-over are then judged in the helper, the origin of
                # the list in the entry point
                hb = prog.bodies[lens[0][2][0]] if isinstance(lens[0][2], tuple) else root
                hbb = lens[0][2][1] if isinstance(lens[0][2], tuple) else lens[0][2]
                t = hb.blocks[hbb]["term"]
                V = ctx.world.borrowed_local(hb, t["args"][0])
                alias = {V}
                changed = True
                while changed:
                    changed = False
                    for l2, defs in hb.assignments().items():
                        for (dbb, j, rv) in defs:
                            if j != "term" and rv["k"] == "use":
                                pl = place_of(rv["op"])
                                if pl is not None and not pl["p"] and pl["l"] in alias and l2 not in alias:
                                    alias.add(l2)
                                    changed = True
                                if pl is not None and not pl["p"] and l2 in alias and pl["l"] not in alias:
                                    alias.add(pl["l"])
                                    changed = True
                handed = False
                for s in hb.calls():
                    if "INDEX_MUTATE" in sem_set(ctx.may.site_events(s)):
                        for a in s.term["args"]:
                            pl = a.get("move")
                            if pl is not None and not pl["p"] and pl["l"] in alias:
                                handed = True
                is_read = lambda evs: "INDEX_READ" in sem_set(evs)
                if hb is not root:
                    collected = False
                    pars = [l_ for l_ in alias if 1 <= l_ <= hb.argc]
                    for cs_ in root.calls():
                        tg_ = prog.local_target(cs_)
                        if tg_ is not None and tg_.path == hb.path and pars:
                            collected = all(p_ - 1 < len(cs_.term["args"]) and derives_from(
                                ctx, root, sl, cs_.term["args"][p_ - 1], is_read) for p_ in pars)
                else:
                    collected = derives_from(ctx, root, sl, {"move": {"l": V, "p": []}}, is_read)
                if not collected and hb is root:
                    # filled by a loop: every push into the list takes a value read from the index
                    fills = [s for s in root.calls() if (s.path or "").split("::")[-1] in ("push", "extend", "insert", "append",
                                                                                           "extend_from_slice")
                             and s.term["args"] and ctx.world.borrowed_local(root, s.term["args"][0]) in alias]
                    collected = bool(fills) and all(
                        len(s.term["args"]) > 1 and derives_from(ctx, root, sl, s.term["args"][1], is_read) for s in fills)
                r.check(handed and collected and applied and len(val) == len(lens),
                        "reported:%s:count" % root.path.split("::")[-1], root,
                        "%s reports the length of the very key list it collected from the index range and handed "
                        "to the remove op" % root.path,
                        "%s reports a count that is not the length of the list it removes (handed: %s, collected from "
                        "the index: %s)" % (root.path, handed, collected), where)
            elif ("usize" in prog.ty_str(root.locals[0]) or "u64" in prog.ty_str(root.locals[0])) and \
                    counter_in_apply_body(ctx, r, root, val, where):
                pass
            elif "usize" in prog.ty_str(root.locals[0]) or "u64" in prog.ty_str(root.locals[0]):
                r.bad("reported:%s:count" % root.path.split("::")[-1], root,
                      "%s reports a count with origins %s at %s (expected: the length of the key list handed to the "
                      "remove op)" % (root.path, sorted(fmt_leaf(l) for l in val), where), where)
    r.check(n >= 1, "exits:%s" % root.path.split("::")[-1], root, "%d Ok exit(s) of %s judged" % (n, root.path),
            "no Ok exit found in %s" % root.path)


def counter_in_apply_body(ctx, r, root, val, where):
    """The reported count is a local counter of the apply body (plus constants): judged by path enumeration - on
    every Ok path it is advanced exactly once per mapping removed.  Returns False if the value is something else."""
    from .. import balance
    from ..prov import root_local
    prog = ctx.prog
    roles = ctx.apply_family()
    locs = {}
    for l in val:
        if l[0] == "const":
            continue
        if l[0] == "binop" and isinstance(l[2], tuple) and l[2][0] in roles and l[1].startswith("Add"):
            ab_body = prog.bodies[l[2][0]]
            for (lhs, op, a, bo) in balance.binops_in(ab_body, l[2][1]):
                c = root_local(ab_body, a)
                if op.startswith("Add") and isinstance(c, int):
                    locs.setdefault(l[2][0], set()).add(c)
            continue
        return False
    if not locs:
        return False
    for p, cs in sorted(locs.items()):
        b = prog.bodies[p]
        ab = balance.ApplyBody(ctx, b)
        ab.count_locals = cs
        seen = set()
        n = 0
        for kind, st in ab.paths(unroll=1 if getattr(ctx, "tier", "quick") == "quick" else 2):
            if kind != "return":
                continue
            js = balance.judge_path(ab, st)
            if js is None:
                continue
            for (ok, construct, msg) in js:
                if construct != "count" or (ok, msg) in seen:
                    continue
                seen.add((ok, msg))
                n += 1
                r.check(ok, "reported:%s:count" % root.path.split("::")[-1], b,
                        "%s reports a counter of %s; %s" % (root.path.split("::")[-1], p.split("::")[-1], msg),
                        "%s reports a counter kept by %s, but on %s: the count is not the number of keys removed" % (
                            root.path, p, msg.replace("path [", "path [")), "%s:%d" % (b.file, b.line))
        if n == 0:
            r.bad("reported:%s:count" % root.path.split("::")[-1], b,
                  "%s reports a counter of %s that no enumerated Ok path advances" % (root.path, p), where)
    return True


def leaf_role(ctx, body, l):
    """Role of the field a parameter leaf ends in, by the field's TYPE (never by its name): "hash" (the hash type),
    "size" (u64/usize), "key" (anything else: the generic key, or a list of keys); None if the leaf is not a field of a
    parameter."""
    prog = ctx.prog
    if l[0] not in ("param", "xparam") or not l[2]:
        return None
    from .c06 import leaf_root_adt
    d = leaf_root_adt(prog, body, l)
    fname = l[2][-1]
    if fname.startswith("#"):
        return None
    if len(l[2]) > 1:
        return None
    tys = set()
    for v in (prog.adts.get(d) or {}).get("variants", []):
        for f in v["fields"]:
            if f["name"] == fname:
                tys.add(f["ty"])
    if not tys:
        return None
    roles = set()
    for ty in tys:
        if prog.adt_of(ty)[0] == ctx.anchors.get("HASH"):
            roles.add("hash")
        elif prog.ty_str(ty) in ("u64", "usize"):
            roles.add("size")
        else:
            roles.add("key")
    return roles.pop() if len(roles) == 1 else None


def _option_shape(V, op, depth=0):
    """{"Some"} / {"None"} / mixed / empty: the variants of the Option aggregates an operand is copied from (empty when
    it comes from anything else, e.g. a call)."""
    pl = place_of(op)
    if pl is None or pl["p"] or depth > 8:
        return set()
    out = set()
    defs = V.assignments().get(pl["l"], [])
    if not defs:
        return set()
    for (dbb, j, rv) in defs:
        if j == "term":
            return set()
        if rv["k"] == "agg" and rv.get("def") == "std::option::Option":
            out.add(rv.get("vn"))
        elif rv["k"] == "use":
            sub = _option_shape(V, rv["op"], depth + 1)
            if not sub:
                return set()
            out |= sub
        else:
            return set()
    return out


def surface_agrees(ctx, r):
    """On the flat view of each read entry point that returns Result<Option<_>>: every exit that definitely builds
    Ok(Some(..)) is dominated by the Some edge of a test of the key-map lookup, every exit that definitely builds
    Ok(None) by its None edge.  Exits whose shape is not a plain aggregate (e.g. `result.map(Some)`) are left to R3."""
    prog = ctx.prog
    rroots = read_roots(ctx) + [b for b in ctx.live_roots() if b.path.endswith("get_size")]
    get_keys = set(cu.site.key() for cu in ctx.world.container_uses
                   if ANCHOR_FIELDS.get(cu.field) == "KEYMAP" and cu.method in ("get", "get_key_value", "contains_key"))
    seen = set()
    for root in rroots:
        if root.path in seen:
            continue
        seen.add(root.path)
        if not prog.ty_str(root.locals[0]).startswith("std::result::Result<std::option::Option<"):
            continue
        V = ctx.flat(root)
        sl = Slicer(ctx.world, V)
        accessor_bodies = set(k[0] for k in get_keys)
        gets = [s.bb for s in V.sites(("call",)) if s.key() in get_keys or (
            prog.local_target(s) is not None and prog.local_target(s).path in accessor_bodies)]
        name = root.path.split("::")[-1]
        if not gets:
            r.bad("surface-lookup:%s" % name, root, "%s returns an Option but no key-map lookup is visible in it" % root.path)
            continue
        # edges of tests on the lookup result
        some_edges, none_edges = [], []
        for sw in V.normal_blocks():
            c = cfgutil.switch_condition(V, sw)
            if not c or c[0] != "discr":
                continue
            src = sl.leaves_of_place(c[1])
            if not src or not all(l[0] == "call" and l[2] in gets for l in src):
                continue
            e = cfgutil.switch_edges(V, sw)
            listed = [v for v in e if v != "otherwise"]
            # `lookup?` tests ControlFlow<Option<Infallible>, T>: Continue (0) is "found"; a `match` on the Option itself
            # has Some = 1
            dty = prog.types[ctx.world._place_ty(V, c[1])]
            found_val = 0 if dty.get("def") == "std::ops::ControlFlow" else 1
            for v, t in e.items():
                if t is None or V.blocks[t]["term"]["k"] == "unreachable":
                    continue
                if v == "otherwise":
                    v = 1 - listed[0] if listed in ([0], [1]) else None
                if v == found_val:
                    some_edges.append((sw, t))
                elif v == 1 - found_val:
                    none_edges.append((sw, t))
        # Options derived from the lookup: `let found = helper(..)` where the helper answers Some(..) only behind the
        # found edge and None (or `?`) only behind the not-found edge - a `match found` is then a test of the lookup
        def option_defs(l, depth=0, seen=None):
            """[(block, 'some'|'none'|'?')] of the values that reach Option-typed local l."""
            seen = seen if seen is not None else set()
            if l in seen or depth > 8:
                return [(None, "?")]
            seen.add(l)
            out_ = []
            defs_ = V.assignments().get(l, [])
            if not defs_:
                return [(None, "?")]
            for (dbb, j, rv) in defs_:
                if j == "term":
                    p_ = term_path(rv) or ""
                    if p_.endswith("FromResidual::from_residual") and prog.adt_of(V.locals[l])[0] == "std::option::Option":
                        out_.append((dbb, "none"))
                    else:
                        out_.append((dbb, "?"))
                elif rv["k"] == "agg" and rv.get("def") == "std::option::Option":
                    out_.append((dbb, "some" if rv.get("vn") == "Some" else "none"))
                elif rv["k"] == "use" and place_of(rv["op"]) is not None and not place_of(rv["op"])["p"]:
                    out_ += option_defs(place_of(rv["op"])["l"], depth + 1, seen)
                else:
                    out_.append((dbb, "?"))
            return out_
        changed = True
        rounds = 0
        judged_sw = set(sw for sw, _t in some_edges + none_edges)
        while changed and rounds < 4:
            changed = False
            rounds += 1
            for sw in V.normal_blocks():
                if sw in judged_sw:
                    continue
                c = cfgutil.switch_condition(V, sw)
                if not c or c[0] != "discr" or c[1]["p"]:
                    continue
                if prog.adt_of(V.locals[c[1]["l"]])[0] != "std::option::Option":
                    continue
                od = option_defs(c[1]["l"])
                if not od or any(k == "?" or bb_ is None for bb_, k in od):
                    continue
                if all((k == "some" and some_edges and cfgutil.edges_dominate(V, some_edges, bb_)) or
                       (k == "none" and none_edges and cfgutil.edges_dominate(V, none_edges, bb_)) for bb_, k in od):
                    e = cfgutil.switch_edges(V, sw)
                    listed = [v for v in e if v != "otherwise"]
                    for v, t in e.items():
                        if t is None or V.blocks[t]["term"]["k"] == "unreachable":
                            continue
                        if v == "otherwise":
                            v = 1 - listed[0] if listed in ([0], [1]) else None
                        if v == 1:
                            some_edges.append((sw, t))
                        elif v == 0:
                            none_edges.append((sw, t))
                    judged_sw.add(sw)
                    changed = True
        n_some = n_none = 0
        # locals whose value is moved, unchanged, into the view's return place
        ret = {0}
        changed = True
        while changed:
            changed = False
            for l2 in list(ret):
                for (dbb, j, rv) in V.assignments().get(l2, []):
                    if j != "term" and rv["k"] == "use":
                        pl = place_of(rv["op"])
                        if pl is not None and not pl["p"] and pl["l"] not in ret:
                            ret.add(pl["l"])
                            changed = True
        for bb in V.normal_blocks():
            for st in V.stmts(bb):
                if not (st["k"] == "assign" and not st["lhs"]["p"] and st["rv"]["k"] == "agg"
                        and st["rv"].get("vn") == "Ok" and st["rv"]["ops"]):
                    continue
                # only values that reach the view's own return place
                if st["lhs"]["l"] not in ret:
                    continue
                lv = _option_shape(V, st["rv"]["ops"][0])
                if not lv:
                    continue
                where = "%s:%d" % (V.blocks[bb]["span"].get("file", root.file), st.get("line", 0))
                if lv == {"Some"}:
                    n_some += 1
                    r.check(bool(some_edges) and cfgutil.edges_dominate(V, some_edges, bb), "present-only-if-found:%s" % name, root,
                            "%s answers Ok(Some(..)) at %s only after the lookup found the key" % (root.path, where),
                            "%s can answer Ok(Some(..)) at %s on a path on which the key-map lookup did not find the key "
                            "(or was not made): an absent key is reported as present" % (root.path, where), where)
                elif lv == {"None"}:
                    n_none += 1
                    r.check(bool(none_edges) and cfgutil.edges_dominate(V, none_edges, bb), "absent-only-if-not-found:%s" % name, root,
                            "%s answers Ok(None) at %s only after the lookup missed" % (root.path, where),
                            "%s can answer Ok(None) at %s on a path on which the key-map lookup found the key (or was "
                            "not made)" % (root.path, where), where)
        if n_some + n_none == 0:
            r.note("%s: no plain Ok(Some)/Ok(None) aggregate exits in its view (left to R3)" % root.path)


def _fold_over_keys(ctx, b, key_leaves):
    """If `b` is (the view of) a closure handed to a whole-iteration adaptor and the removed key is that closure's item
    parameter: (does the adaptor's receiver run over the op's key list?, adaptor name).  None if `b` is no such closure."""
    from ..prov import _closure_sites
    prog = ctx.prog
    root = prog.bodies.get(b.path)
    if root is None or not root.is_closure:
        return None
    if not key_leaves or not all(l[0] == "param" and l[1] >= 2 and not l[2] for l in key_leaves):
        return None
    item_params = set(l[1] for l in key_leaves)
    for (pb, bb, rv) in _closure_sites(prog, root.path):
        # the call that receives the closure value
        for s in pb.calls():
            nm = (s.path or "").split("::")[-1]
            if nm not in ("try_fold", "try_for_each", "for_each", "fold"):
                continue
            takes = False
            for a in s.term["args"]:
                pl = place_of(a)
                if pl is not None and not pl["p"] and prog.closure_def_of_type(pb.locals[pl["l"]]) == root.path:
                    takes = True
            if not takes:
                continue
            # the item is the closure's last parameter
            if item_params != {root.argc}:
                return (False, nm)
            psl = Slicer(ctx.world, pb)
            recv = psl.leaves_of_operand(s.term["args"][0])
            ok = bool(recv) and all(l[0] == "param" and leaf_role(ctx, pb, l) == "key" for l in recv)
            return (ok, nm)
    return None


def derives_from(ctx, body, sl, op, pred, depth=0):
    """Does the operand derive (through calls and their arguments) from a call whose events satisfy pred?"""
    if depth > 6:
        return False
    for l in sl.leaves_of_operand(op):
        if l[0] != "call":
            continue
        site = Site(body, l[2], body.blocks[l[2]]["term"])
        if pred(ctx.may.site_events(site)):
            return True
        for a in site.term["args"]:
            if derives_from(ctx, body, sl, a, pred, depth + 1):
                return True
    return False


def apply_denotes(ctx, r):
    prog = ctx.prog
    A = ctx.anchors
    item = A.get("ITEM")
    item_fields = [f["name"] for f in prog.adts[item]["variants"][0]["fields"]] if item in prog.adts else []
    cus_by_key = {}
    for cu0 in ctx.world.container_uses:
        if ANCHOR_FIELDS.get(cu0.field) == "KEYMAP" and cu0.mutable:
            cus_by_key.setdefault(cu0.site.key(), []).append(cu0)
    for p in ctx.apply_roots():
        # judged on the flat view of the apply function: the per-variant work may sit in helpers that get the op's
        # fields as parameters
        b = ctx.apply_view(p)
        sl = Slicer(ctx.world, b)
        uses = []
        for fs in b.sites():
            for cu0 in cus_by_key.get(fs.key(), ()):
                uses.append((cu0, fs))
        for (cu0, fs) in uses:
            class _CU(object):      # the container use, seen at its site in the view
                pass
            cu = _CU()
            cu.method, cu.site, cu.field = cu0.method, fs, cu0.field
            args = cu.site.term["args"]
            if cu.method == "insert":
                k = sl.leaves_of_operand(args[1])
                okk = bool(k) and all(l[0] == "param" and leaf_role(ctx, b, l) == "key" for l in k)
                r.check(okk, "insert-key", b, "insert key = %s" % sorted(fmt_leaf(l) for l in k),
                        "the key inserted at %s has origins %s (expected: the op's key)" % (
                            site_where(cu.site), sorted(fmt_leaf(l) for l in k)), site_where(cu.site))
                for fname in item_fields:
                    v = sl.leaves_of_operand(args[2], path=(fname,))
                    fty = [f["ty"] for f in prog.adts[item]["variants"][0]["fields"] if f["name"] == fname][0]
                    want = "hash" if prog.adt_of(fty)[0] == A.get("HASH") else (
                        "size" if prog.ty_str(fty) in ("u64", "usize") else "key")
                    okv = bool(v) and all(l[0] == "param" and leaf_role(ctx, b, l) == want for l in v)
                    r.check(okv, "insert-value:%s" % fname, b,
                            "stored %s = %s" % (fname, sorted(fmt_leaf(l) for l in v)),
                            "the %s stored at %s has origins %s (expected: the op's %s)" % (
                                fname, site_where(cu.site), sorted(fmt_leaf(l) for l in v), want), site_where(cu.site))
            elif cu.method == "remove":
                k = sl.leaves_of_operand(args[1])
                folded = _fold_over_keys(ctx, b, k)
                if folded is not None:
                    # `keys.iter().try_fold(acc, |acc, key| { remove(key) .. })`: the closure runs once per key of the op,
                    # an Err it returns ends the fold and is what the fold returns
                    r.check(folded[0], "remove-key", b,
                            "removed key = the item of %s over the op's key list" % folded[1],
                            "the key removed at %s is the item of %s, which does not run over the op's key list" % (
                                site_where(cu.site), folded[1]), site_where(cu.site))
                    continue
                okk = bool(k) and all(l[0] == "param" and leaf_role(ctx, b, l) == "key" for l in k)
                r.check(okk, "remove-key", b, "removed key = %s (loop item of the op's key list)" % sorted(fmt_leaf(l) for l in k),
                        "the key removed at %s has origins %s (expected: an item of the op's key list)" % (
                            site_where(cu.site), sorted(fmt_leaf(l) for l in k)), site_where(cu.site))
                # the loop over the keys has no exit other than exhaustion and error propagation
                hdrs = [s for s in b.calls() if (s.path or "").endswith("Iterator::next") and b.dominates(s.bb, cu.site.bb)
                        and s.bb in cfgutil.reach(b, cu.site.term["t"])]
                if not hdrs:
                    r.bad("remove-loop", b, "the remove at %s is not in a loop over the op's keys" % site_where(cu.site))
                    continue
                h = max(hdrs, key=lambda s: len(b.dominators()[s.bb]))
                loop = cfgutil.natural_loop(b, h.bb)
                exits = []
                rf = ctx.rf(b)
                for x in loop:
                    for s2 in b.succs(x):
                        if s2 not in loop:
                            exits.append((x, s2))
                bad = []
                for (x, s2) in exits:
                    if x == h.bb or _is_none_edge_of(b, h, x, s2) or b.blocks[s2]["term"]["k"] == "unreachable":
                        continue
                    # error propagation: leads to an Err return
                    blocks = cfgutil.reach(b, s2)
                    if not any(b.blocks[y]["term"]["k"] == "return" for y in blocks):
                        continue        # ends in a panic (a failed assertion): nothing is returned, least of all Ok
                    if any(rf.forwarded.get(y) == "err" for y in blocks) and not any(rf.forwarded.get(y) == "ok" for y in blocks - {None}):
                        continue
                    # ... possibly through the return of an inlined helper: every way from here to a return builds an
                    # Err value first
                    errb = [y for y in blocks if term_path(b.blocks[y]["term"]) == "std::ops::FromResidual::from_residual"
                            or any(st_["k"] == "assign" and st_["rv"]["k"] == "agg" and st_["rv"].get("def") == "std::result::Result"
                                   and st_["rv"].get("vn") == "Err" for st_ in b.stmts(y))]
                    rest = cfgutil.reach(b, s2, removed_blocks=errb)
                    if errb and not any(b.blocks[y]["term"]["k"] == "return" for y in rest):
                        continue
                    bad.append((x, s2))
                r.check(not bad, "remove-loop-exits", b,
                        "the loop over the op's keys ends only by exhaustion or error (%d exit edge(s))" % len(exits),
                        "the loop over the op's keys can be left early at %s" % ", ".join(
                            "%s:%d" % (b.file, b.blocks[x]["span"]["line"]) for x, _ in bad))


def _is_none_edge_of(b, h, x, tgt):
    c = cfgutil.switch_condition(b, x)
    if not c or c[0] != "discr":
        return False
    pl = c[1]
    return not pl["p"] and pl["l"] == h.term["dest"]["l"]


def txn_flow(ctx, r):
    """Taint: the transaction's key, size and finalize(hasher) flow to the key-map insert key, the stored
    size and the stored hash respectively - and not crosswise."""
    prog = ctx.prog
    A = ctx.anchors
    txns = txn_type(ctx)
    if len(txns) != 1:
        r.bad("txn-type", None, "cannot find the transaction type")
        return
    txn = txns[0]
    g = vfgmod.VFG(prog)
    from .c13 import txn_parts
    parts = txn_parts(ctx, txn)
    key_f, size_f, hasher_f = parts["key"], parts["size"], parts["hasher"]
    if len(key_f) != 1 or len(size_f) != 1 or len(hasher_f) != 1:
        r.bad("txn-fields", None, "transaction fields not unique: key %s size %s hasher %s" % (key_f, size_f, hasher_f))
        return
    g.seed(key_f[0], "TXN_KEY")
    g.seed(size_f[0], "TXN_SIZE")
    # finalize(hasher) results: the hasher is the transaction's (possibly moved into an internal struct or a local)
    g.seed(hasher_f[0], "TXN_HASHER")
    g.solve()
    for b in prog.bodies.values():
        for s in b.calls():
            if s.path == "blake3::Hasher::finalize":
                root = ctx.world.root_place(b, s.term["args"][0])
                if root is None:
                    continue
                if g.node_of_place(b, root) == hasher_f[0] or \
                        "TXN_HASHER" in g.labels.get(g.node_of_place(b, root), ()):
                    g.seed(g.node_of_place(b, s.term["dest"]), "TXN_HASH")
    # do not let labels flow through the hasher/size into each other: size is a plain counter
    g.solve()
    item = A.get("ITEM")
    T = {"TXN_KEY", "TXN_SIZE", "TXN_HASH"}
    for f in prog.adts[item]["variants"][0]["fields"]:
        labs = set(g.labels.get(("F", item, f["name"]), ())) & T
        want = "TXN_HASH" if prog.adt_of(f["ty"])[0] == A.get("HASH") else "TXN_SIZE"
        r.check(labs == {want}, "flow:%s" % f["name"], None,
                "%s.%s receives the transaction's %s and nothing else of it" % (item.split("::")[-1], f["name"], want),
                "%s.%s receives %s of the transaction (expected exactly %s)" % (
                    item.split("::")[-1], f["name"], sorted(labs) or "nothing", want))
    # key of the insert on the live path
    roles = set(ctx.role_bodies().keys())
    for cu in ctx.world.container_uses:
        if cu.site.body.path in roles and ANCHOR_FIELDS.get(cu.field) == "KEYMAP" and cu.method == "insert":
            labs = g.labels_of_operand(cu.site.body, cu.site.term["args"][1]) & T
            r.check(labs == {"TXN_KEY"}, "flow:key", cu.site.body,
                    "the inserted key is the transaction's key",
                    "the inserted key carries %s of the transaction (expected exactly TXN_KEY)" % (sorted(labs) or "nothing"),
                    site_where(cu.site))


def reads_resolve(ctx, r):
    prog = ctx.prog
    A = ctx.anchors
    item = A.get("ITEM")
    rroots = read_roots(ctx) + [b for b in ctx.live_roots() if b.path.endswith("get_size")]
    reach = prog.reachable_bodies(rroots)
    # (a) lookup bodies: call the view's get (INDEX_READ via `get`) and then invoke a generic closure
    lookups = []
    for p in reach:
        b = prog.bodies[p]
        cbs = [s for s in b.calls() if s.path in FN_TRAIT_CALLS and s.callee.get("rk") != "virtual"]
        # the call that performs the lookup: its target is the accessor that reads the key map itself (not a wrapper
        # that merely hands the key on to the lookup body)
        gets = [s for s in b.calls() if prog.local_target(s) is not None and any(
            cu.site.body.path == prog.local_target(s).path and ANCHOR_FIELDS.get(cu.field) == "KEYMAP" and
            cu.method == "get" for cu in ctx.world.container_uses)]
        if gets and (cbs or any(prog.closure_param_bindings(b.path))):
            lookups.append((b, gets))
    for (b, gets) in lookups:
        if b.is_closure:
            continue
        sl = Slicer(ctx.world, b)
        rf = ctx.must(None).rf(b)
        for gsite in gets:
            k = set()
            for a in gsite.term["args"][1:]:
                k |= sl.leaves_of_operand(a)
            r.check(bool(k) and all(l[0] == "param" for l in k), "lookup-key:%s" % b.path.split("::")[-1], b,
                    "%s looks up its own key parameter (%s)" % (b.path, sorted(fmt_leaf(l) for l in k)),
                    "%s looks up %s instead of its key parameter" % (b.path, sorted(fmt_leaf(l) for l in k)),
                    site_where(gsite))
        # Ok(None) exits: control dependent on the None edge of the lookup only
        for bb in b.normal_blocks():
            for s in b.stmts(bb):
                if not (s["k"] == "assign" and s["lhs"]["l"] == 0 and not s["lhs"]["p"] and s["rv"]["k"] == "agg"
                        and s["rv"].get("vn") == "Ok" and s["rv"]["ops"]):
                    continue
                lv = sl.leaves_of_operand(s["rv"]["ops"][0])
                if not lv or not all(l[0] == "agg" and str(l[1]).endswith("::None") for l in lv):
                    continue
                # dominated by the None edge of a switch on the lookup result
                ok = False
                for sw in b.normal_blocks():
                    c = cfgutil.switch_condition(b, sw)
                    if not c or c[0] != "discr":
                        continue
                    src = sl.leaves_of_place(c[1])
                    if any(l[0] == "call" and l[2] in [g.bb for g in gets] for l in src):
                        e = cfgutil.switch_edges(b, sw)
                        none_t = e.get(0, e["otherwise"] if 1 in e else None)
                        if none_t is not None and cfgutil.edge_dominates(b, (sw, none_t), bb):
                            ok = True
                r.check(ok, "absent-only-if-lookup-none:%s" % b.path.split("::")[-1], b,
                        "%s returns Ok(None) only on the None edge of the map lookup" % b.path,
                        "%s can return Ok(None) at %s:%d although the lookup found the key" % (b.path, b.file, s.get("line", 0)),
                        "%s:%d" % (b.file, s.get("line", 0)))
        # the item handed to the closure / used for the open is the lookup result (copy-only)
        for s in b.calls():
            uses_item = False
            for a in s.term["args"]:
                pl = place_of(a)
                if pl is None:
                    continue
                lv = sl.leaves_of_operand(a)
                if any(l[0] == "call" and l[2] in [g.bb for g in gets] for l in lv) and s.bb not in [g.bb for g in gets]:
                    uses_item = True
                    others = [l for l in lv if not (l[0] == "call" and l[2] in [g.bb for g in gets])
                              and not (l[0] == "agg" and str(l[1]).startswith("closure:"))]
                    if prog.local_target(s) is not None or s.path in FN_TRAIT_CALLS:
                        r.check(not [o for o in others if o[0] in ("binop", "const")], "item-copy-only", b,
                                "the item passed at %s is the lookup result" % site_where(s),
                                "the item passed at %s mixes the lookup result with %s" % (
                                    site_where(s), sorted(fmt_leaf(o) for o in others)), site_where(s))
    r.check(len([x for x in lookups if not x[0].is_closure]) >= 1, "lookup-bodies", None,
            "lookup bodies: %s" % ", ".join(b.path for b, _ in lookups if not b.is_closure),
            "no body looks a key up in the key map on behalf of the read API")
    # (b) closures bound to the lookup bodies: blob calls take param.<hash field>, sizes are param.<size field>
    for (b, gets) in lookups:
        for cd in sorted(prog.closure_param_bindings(b.path)):
            cb = prog.bodies.get(cd)
            if cb is None:
                continue
            csl = Slicer(ctx.world, cb)
            for s in cb.calls():
                tgt = prog.local_target(s)
                if tgt is None:
                    continue
                evs = sem_set(e for e in ctx.may.all_events(tgt.path) if ctx._concrete(e))
                hash_ty = A.get("HASH")
                for i, a in enumerate(s.term["args"]):
                    pl = place_of(a)
                    if pl is None:
                        continue
                    if prog.adt_of(cb.locals[pl["l"]])[0] == hash_ty or (i < tgt.argc and prog.adt_of(tgt.locals[i + 1])[0] == hash_ty):
                        lv = csl.leaves_of_operand(a)
                        ok = bool(lv) and all(l[0] == "param" and leaf_role(ctx, cb, l) == "hash" for l in lv)
                        r.check(ok, "closure-hash:%s" % stable_path(cb), cb,
                                "%s passes item.%s to %s" % (stable_path(cb), "/".join(sorted(set(l[2][-1] for l in lv if l[2]))),
                                                             tgt.path.split("::")[-1]),
                                "%s passes a hash with origins %s to %s" % (
                                    stable_path(cb), sorted(fmt_leaf(l) for l in lv), tgt.path), site_where(s))
            # returned size
            rt = prog.ty_str(cb.locals[0])
            if rt.startswith("std::result::Result<u64"):
                for bb in cb.normal_blocks():
                    for st in cb.stmts(bb):
                        if st["k"] == "assign" and st["lhs"]["l"] == 0 and st["rv"]["k"] == "agg" and st["rv"].get("vn") == "Ok":
                            lv = csl.leaves_of_operand(st["rv"]["ops"][0])
                            ok = bool(lv) and all(l[0] == "param" and leaf_role(ctx, cb, l) == "size" for l in lv)
                            r.check(ok, "closure-size:%s" % stable_path(cb), cb,
                                    "%s returns item.%s" % (stable_path(cb), "/".join(sorted(set(l[2][-1] for l in lv if l[2])))),
                                    "%s returns a size with origins %s" % (stable_path(cb), sorted(fmt_leaf(l) for l in lv)))
    # (c) blob opener: path = cas-path(hash parameter)
    for site in ctx.sem_sites("BLOB_OPEN"):
        b = site.body
        if b.path not in reach:
            continue
        sl = Slicer(ctx.world, b)
        spec_i = 1 if (site.path or "").endswith("OpenOptions::open") else 0
        lv = sl.leaves_of_operand(site.term["args"][spec_i])
        hp = set()
        for l in lv:
            if l[0] == "call":
                t = b.blocks[l[2]]["term"]
                for a in t["args"][1:]:
                    hp |= sl.leaves_of_operand(a)
        ok = bool(hp) and all(l[0] == "param" for l in hp)
        r.check(ok, "open-path-of-hash-param", b,
                "the path opened at %s is the CAS path of the hash parameter" % site_where(site),
                "the path opened at %s derives from %s" % (site_where(site), sorted(fmt_leaf(l) for l in (hp or lv))),
                site_where(site))


def view_methods(ctx, r):
    prog = ctx.prog
    A = ctx.anchors
    L = ctx.locks
    # the view type: the local struct whose field holds the STATE read guard
    views = []
    for path, adt in prog.adts.items():
        for v in adt["variants"]:
            for f in v["fields"]:
                gs = prog.guards_in_type(f["ty"])
                if any(m == "read" and d is not None and ctx.world.lock_class_of_data(d) == "STATE" for m, d in gs):
                    views.append(path)
    if len(views) != 1:
        r.bad("view-type", None, "expected one read-view struct, found %d" % len(views))
        return
    view = views[0]
    allowed = {A.get("KEYMAP"), A.get("REFCNT"), A.get("STATS"), A.get("SNAPVER")}
    n = 0
    for b in ctx.api_roots():
        if b.argc < 1 or prog.adt_of(b.locals[1])[0] != view or b.raw.get("impl_trait"):
            continue
        n += 1
        # reads only the guarded state
        evs = ctx.may.all_events(b.path)
        conts = set(e[1] for e in evs if e[0] == "CONT")
        muts = [e for e in evs if e[0] == "CONT" and e[3]]
        fx = [e for e in ctx.fx.effects if e.site.body.path in prog.reachable_bodies([b]) and e.kind != "FS_CLOSE"]
        r.check(conts <= allowed and not muts and not fx, "view-reads:%s" % b.path.split("::")[-1], b,
                "%s reads %s only" % (b.path, sorted(c[2] for c in conts) or "the guarded state"),
                "%s touches %s%s" % (b.path, sorted(c[2] for c in conts - allowed) or "", " and mutates" if muts else ""))
        rt = prog.ty_str(b.locals[0])
        name = b.path.split("::")[-1]
        if name in ("iter", "range"):
            want = "std::collections::btree_map::" + ("Iter<" if name == "iter" else "Range<")
            r.check(rt.startswith(want), "view-iter:%s" % name, b, "%s returns %s" % (name, rt.split("<")[0]),
                    "%s returns %s instead of the BTreeMap's own %s" % (b.path, rt, want))
    r.check(n >= 6, "view-accessors", None, "%d accessors on %s" % (n, view), "only %d accessors found on %s" % (n, view))
