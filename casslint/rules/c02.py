"""C02 Clean restart is transparent: nothing un-logged, nothing half-snapshotted, derived state rebuilt."""
from .. import cfgutil
from ..core import Site, term_path, FN_TRAIT_CALLS
from ..ctx import sem, sem_set, ANCHOR_FIELDS
from ..prov import Slicer, fmt_leaf
from ..vfg import place_of
from . import order
from .base import Rule, site_construct, site_where, stable_path
from .c05 import restricted_must_entry

PROP = "C02"


def snapshot_loader(ctx):
    """The body that reads the INDEX file - or, when the read sits in a private probing helper that does not touch the
    index state (`probe() -> SnapshotSource`), the one function that calls it and does."""
    prog = ctx.prog
    out = []
    for e in ctx.fx.of_kind("FS_READFILE"):
        if "INDEX" not in e.classes:
            continue
        cur = e.site.body
        for _ in range(3):
            if sem_set(ctx.may.all_events(cur.path)) & {"INDEX_MUTATE", "REFCNT_MUTATE"}:
                break
            callers = [cs for (cs, how) in prog.callers_index().get(cur.path, []) if how == "direct"]
            if len(callers) != 1 or cur.reachable:
                break
            cur = callers[0].body
        if cur not in out:
            out.append(cur)
    return out


def loader_family(ctx, loaders):
    """The loader and the crate-private helpers / closures it runs (a decode step split out of it, the closure of a
    `try_fold` over the decoded entries): everything reachable from the loader that is not an API function."""
    prog = ctx.prog
    fam = {}
    for lb in loaders:
        fam[lb.path] = lb
        for p in prog.reachable_bodies([lb], include_drops=False):
            b = prog.bodies[p]
            if b.is_closure or not b.reachable:
                fam[p] = b
    return list(fam.values())


def replay_callbacks(ctx):
    """Closures bound to a generic FnMut parameter that are invoked from the open path and mutate
    the index (the replay callback)."""
    out = []
    prog = ctx.prog
    for b in prog.bodies.values():
        if not b.is_closure:
            continue
        if "INDEX_MUTATE" in sem_set(ctx.may.all_events(b.path)):
            callers = prog.callers_index().get(b.path, [])
            if any(how == "param" for _, how in callers):
                out.append(b)
    return out


def version_field_names(ctx):
    """Names of the crate's struct/variant fields whose type is a NonZero integer - the record/op versions (by type, so a
    renamed field is still the version)."""
    c = ctx.__dict__.get("_version_fields")
    if c is None:
        c = set()
        for path, adt in ctx.prog.adts.items():
            if not adt.get("local", True) and "::" in path and path.startswith("std::"):
                continue
            for v in adt.get("variants", []):
                for f in v["fields"]:
                    if "NonZero" in ctx.prog.ty_str(f["ty"]):
                        c.add(f["name"])
        ctx.__dict__["_version_fields"] = c
    return c


def is_version_leaf(ctx, l):
    return bool(l[-1]) and l[-1][-1] in version_field_names(ctx)


def rules(ctx, tier):
    out = []
    prog = ctx.prog
    must = ctx.must(None)
    live = ctx.live_roots()
    ENTRY = must.entry_sets(live)
    live_reach = prog.reachable_bodies(live)
    opens = ctx.open_roots()
    loaders = snapshot_loader(ctx)
    cbs = replay_callbacks(ctx)

    r = Rule("R1", "no un-logged index mutation: on a live handle every mutation of the key map is preceded by the "
                   "append (write+flush) of its record; the only other mutations rebuild state from snapshot/log",
             "an operation applied in memory but absent from the log vanishes at the next open")
    order.require_before(ctx, r, must, ENTRY, "INDEX_MUTATE", ["WAL_WRITE", "WAL_FLUSH"])
    load_reach = prog.reachable_bodies(loaders + cbs)
    for cu in ctx.world.container_uses:
        if "INDEX_MUTATE" not in sem(("CONT", cu.field, cu.method, cu.mutable)):
            continue
        p = cu.site.body.path
        if p in live_reach:
            continue
        r.check(p in load_reach, "load-only:%s" % cu.method, cu.site.body,
                "%s is reachable only while loading the snapshot / replaying the log" % cu.describe(),
                "%s is neither on the logged path nor part of snapshot load / replay" % cu.describe(),
                site_where(cu.site))
    # the key map / refcount map replaced as a whole (`state.key_to_hash = ..`): a mutation like any other, and never
    # on a live path - an assignment is not an event of the ordering analysis, so it is confined here
    for w in ctx.world.field_writes:
        if ANCHOR_FIELDS.get(w.field) not in ("KEYMAP", "REFCNT"):
            continue
        p = w.body.path
        is_ctor = any(st["k"] == "assign" and st["rv"]["k"] == "agg" and st["rv"].get("def") == w.field[1]
                      for bb in w.body.normal_blocks() for st in w.body.stmts(bb))
        r.check(p in load_reach and p not in live_reach or is_ctor, "load-only:assign:%s" % w.field[2], w.body,
                "%s happens only while loading the snapshot" % w.describe(),
                "%s replaces the map as a whole outside snapshot load (no log record describes that change)" % w.describe(),
                "%s:%d" % (w.body.file, w.line))
    r.check(len(loaders) == 1, "snapshot-loader", None, "snapshot loader: %s" % ", ".join(b.path for b in loaders),
            "expected one body reading the index file, found %d" % len(loaders))
    r.check(len(cbs) >= 1, "replay-callback", None, "replay callback(s): %s" % ", ".join(stable_path(b) for b in cbs),
            "no replay callback (closure bound to a generic FnMut that applies ops) found")
    r.need(7, "live mutations x2x2, load-only mutations, anchors")
    out.append(r.finish())

    r = Rule("R2", "logged = applied: the bytes appended are the serialisation of the very op that is applied",
             "the log records one operation and memory applies another: state differs after reopen")
    logged_is_applied(ctx, r)
    r.need(2, "append argument and apply argument of the append+apply body")
    out.append(r.finish())

    r = Rule("R3", "the snapshot carries its own version; the version saved is the one pruned by; replay starts from "
                   "the version of the snapshot just loaded",
             "the snapshot claims a version whose effects it lacks (or replay starts from another version): "
             "operations are skipped or applied twice after reopen")
    snapshot_version(ctx, r, loaders)
    r.need(5, "encoder args, version write, prune arg, replay arg")
    out.append(r.finish())

    r = Rule("R4", "a checkpoint has exclusive access: the snapshot is written under {state(w), wal}",
             "a snapshot taken between another op's append and apply claims a version whose effect it lacks; replay "
             "then skips it")
    L = ctx.locks
    n = 0
    for name in ("SNAP_WRITE:INDEX", "SNAP_PUBLISH:INDEX"):
        for site in ctx.sem_sites(name):
            h = L.must_held_at(site)
            if h is None:
                continue
            n += 1
            ok = ("STATE", "w") in h and ("WAL", "w") in h
            r.check(ok, "%s-exclusive" % name, site.body,
                    "%s at %s under %s" % (name, site_where(site), sorted(h)),
                    "%s at %s is not under both the state write lock and the WAL lock (held: %s)" % (
                        name, site_where(site), sorted(h)), site_where(site))
    append_apply_atomic(ctx, r)
    r.need(2, "snapshot write/publish instantiation sites")
    out.append(r.finish())

    r = Rule("R5", "load rebuilds all derived state: refcounts per loaded key, statistics recomputed, then replay",
             "reference counts / statistics differ before and after a reopen")
    load_rebuilds(ctx, r, loaders, cbs)
    r.need(3, "refcount per insert, recompute before replay")
    out.append(r.finish())

    r = Rule("R7", "the replayer reports the maximum version it has seen (seeded with the snapshot version): the next "
                   "version can never collide with a persisted one",
             "after a restart a new operation gets a version at or below the snapshot's: it is applied in memory, "
             "acknowledged, and skipped as 'already checkpointed' by every later open")
    highest_version_accumulator(ctx, r)
    r.need(4, "seed, updates, every-record")
    out.append(r.finish())

    r = Rule("R6", "replay applies every record it accepted, except those at or below the snapshot version",
             "a valid record above the snapshot is skipped on replay: an acknowledged operation is lost")
    replay_skips(ctx, r)
    r.need(1, "skip branch in the replay loop")
    out.append(r.finish())
    # what was logged before a clean shutdown is read back in full: the reader does not take a record the writer may
    # produce for the end of the log (shared with C10-R6)
    from . import c10
    x = c10.end_of_log_rule(ctx, "R8")
    x.title += " (shared with C10-R6)"
    out.append(x)
    # operations issued after a reopen are preserved by every later reopen: nothing is ever appended behind an end
    # marker, so the marker is written only when the writer really moves on to the next segment
    from . import c20
    r = Rule("R9", "the end-of-segment marker is written only on the roll-over branch, by the writer that is being retired "
                   "(shared with C20-R6)",
             "a clean shutdown seals the active segment one record early; after the reopen the next record is appended "
             "behind the marker and no later open ever reads it")
    c20.sentinel(ctx, r, must)
    r.need(3, "marker write site, its flush+sync, its only caller")
    out.append(r.finish())
    from . import c18
    x = c18.one_apply_function(ctx, "R10")
    x.title += " (shared with C18-R6)"
    out.append(x)
    return out


def is_incremental_update(ctx, w):
    """`field = field +/- x` (in either MIR shape): an adjustment of the counter, not a recomputation."""
    from ..prov import binops_in
    sl = Slicer(ctx.world, w.body, follow_local=False)
    for l in sl.leaves_of_rv(w.rv, w.bb):
        if l[0] == "binop" and l[1].startswith(("Add", "Sub")):
            # ... of the field itself: one operand reads the very field that is written (a local running total that
            # is stored into the field afterwards is a recomputation)
            ops_here = [(None, w.rv["op"], w.rv["a"], w.rv["b"])] if w.rv["k"] == "binop" else binops_in(w.body, l[2])
            for (_lhs, op, a, b_) in ops_here:
                if not op.startswith(("Add", "Sub")):
                    continue
                for o in (a, b_):
                    for x in sl.leaves_of_operand(o):
                        if x[0] in ("param", "xparam") and x[2] and x[2][-1] == w.field[2]:
                            return True
    return False


def apply_bodies(ctx):
    return set(ctx.role_bodies().keys())


def logged_is_applied(ctx, r):
    prog = ctx.prog
    roles = apply_bodies(ctx)
    for b in prog.bodies.values():
        appends = [s for s in b.calls() if prog.local_target(s) is not None and
                   "WAL_WRITE" in sem_set(e for e in ctx.may.site_events(s) if ctx._concrete(e)) and
                   "INDEX_MUTATE" not in sem_set(ctx.may.site_events(s))]
        # the apply step: a call that changes the key map and writes no log (whatever functions it is split into)
        applies = [s for s in b.calls() if prog.local_target(s) is not None and
                   "INDEX_MUTATE" in sem_set(ctx.may.site_events(s)) and
                   "WAL_WRITE" not in sem_set(e for e in ctx.may.site_events(s) if ctx._concrete(e))]
        if not appends or not applies:
            continue
        sl = Slicer(ctx.world, b)
        for a in appends:
            for c in applies:
                # applied op
                ops = set()
                state_adt = ctx.anchors.get("STATE")
                op_args = [arg for arg in c.term["args"] if place_of(arg) is None or
                           prog.adt_of(ctx.world._place_ty(b, place_of(arg)))[0] != state_adt]
                if len(op_args) == len(c.term["args"]):
                    op_args = c.term["args"][1:]        # (the state is not among the operands: it is the receiver's)
                for arg in op_args:
                    ops |= sl.leaves_of_operand(arg)
                # appended bytes
                data = set()
                for arg in a.term["args"][1:]:
                    data |= sl.leaves_of_operand(arg)
                chain = []
                src = set()
                for l in data:
                    if l[0] != "call":
                        chain.append(fmt_leaf(l))
                        continue
                    t = b.blocks[l[2]]["term"]
                    chain.append(l[1])
                    for a2 in t["args"]:
                        for l2 in sl.leaves_of_operand(a2):
                            if l2[0] == "call":
                                chain.append(l2[1])
                                t2 = b.blocks[l2[2]]["term"]
                                for a3 in t2["args"]:
                                    src |= sl.leaves_of_operand(a3)
                            else:
                                src.add(l2)
                same = bool(ops) and bool(src) and src <= ops | set() and ops <= src | ops
                same = bool(ops & src) and all(x[0] == "param" for x in src)
                r.check(same, "same-op", b,
                        "%s appends %s of %s and applies the same %s" % (b.path, " <- ".join(chain),
                                                                        sorted(fmt_leaf(x) for x in src),
                                                                        sorted(fmt_leaf(x) for x in ops)),
                        "%s appends bytes derived from %s but applies %s" % (
                            b.path, sorted(fmt_leaf(x) for x in src) or chain, sorted(fmt_leaf(x) for x in ops)),
                        site_where(a))
                enc = [x for x in chain if "serialize" in x or "to_raw" in x]
                r.check(len(enc) >= 1, "encoded", b, "the appended bytes go through %s" % ", ".join(enc),
                        "the appended bytes are not produced by the op encoder (%s)" % chain, site_where(a))


def snapshot_version(ctx, r, loaders):
    prog = ctx.prog
    A = ctx.anchors
    state = A.get("STATE")
    km = A.get("KEYMAP")
    sv = A.get("SNAPVER")
    # (a) the encoder call inside the saver: both args from the same state parameter
    # (wherever the encoder is called: in the saver, or in a pure `encode(&state) -> Vec<u8>` step split off it)
    for p in sorted(prog.bodies):
        b = prog.bodies[p]
        if b.is_closure:
            continue
        sl = None
        for s in b.calls():
            tgt = prog.local_target(s)
            if tgt is None or len(s.term["args"]) < 2 or "std::vec::Vec<u8>" not in prog.ty_str(tgt.locals[0]):
                continue
            sl = sl or Slicer(ctx.world, b)
            la = [sl.leaves_of_operand(a) for a in s.term["args"]]
            kms = [l for ls in la for l in ls if l[0] == "param" and l[2] and l[2][-1] == km[2]]
            svs = [l for ls in la for l in ls if l[0] == "param" and l[2] and l[2][-1] == sv[2]]
            if kms or svs:
                r.check(bool(kms) and bool(svs) and set(x[1] for x in kms) == set(x[1] for x in svs),
                        "encoder-args", b,
                        "the snapshot encoder at %s gets the key map and the version of the same state" % site_where(s),
                        "the snapshot encoder at %s gets key map from %s and version from %s" % (
                            site_where(s), sorted(fmt_leaf(x) for x in kms), sorted(fmt_leaf(x) for x in svs)),
                        site_where(s))
    # (b) checkpoint: version written into the state == version handed to the prune step, derived from the WAL manager.
    # Judged on the flat view of the function that prunes (the save, and the write of the version, may sit in helpers
    # such as a persister method that stamps the version itself)
    from ..prov import expand_down
    walmgr = A.get("WALMGR")
    wal_methods = tuple(p_ for p_, bd in prog.bodies.items() if bd.argc >= 1 and prog.adt_of(bd.locals[1])[0] == walmgr)
    lfam = set(b_.path for b_ in loader_family(ctx, loaders))
    g = ctx.world.vfg

    def conc(site):
        return sem_set(e for e in ctx.may.site_events(site) if ctx._concrete(e))
    views = []
    from ..prov import _closure_sites
    for pb in prog.bodies.values():
        own_prunes = [s for s in pb.calls() if "WAL_PRUNE" in conc(s) and prog.local_target(s) is not None
                      and prog.local_target(s).path in wal_methods]
        if own_prunes and any("SNAP_PUBLISH:INDEX" in conc(s) for s in pb.calls()):
            # (written in a closure - the arm of a `map_or_else`, say: the function the closure is written in)
            own = pb
            for _ in range(4):
                if not own.is_closure:
                    break
                cs = _closure_sites(prog, own.path)
                if not cs:
                    break
                own = cs[0][0]
            if not own.is_closure and own not in views:
                views.append(own)
    covered = set()
    for pb in views:
        V = ctx.flat(pb, stop=wal_methods)
        sl = Slicer(ctx.world, V)
        writes = []
        for bb in V.normal_blocks():
            if V.origin_key(bb)[0] in lfam:
                continue
            for st in V.stmts(bb):
                if st["k"] != "assign" or not st["lhs"]["p"]:
                    continue
                lhs = st["lhs"]
                root = lhs if any(isinstance(e, dict) and "f" in e for e in lhs["p"]) else \
                    ctx.world._root_place(V, {"l": lhs["l"], "p": []})
                if g.node_of_place(V, root) == sv:
                    writes.append((bb, st))
                    covered.add(V.origin_key(bb))
        save_keys = set(fs.key() for chain in ctx.sem_chains("SNAP_PUBLISH:INDEX") for fs in chain)
        saves = [s for s in V.calls() if s.key() in save_keys or "SNAP_PUBLISH:INDEX" in conc(V.orig_site(s))]
        # the outermost of nested occurrences: a site that is not reachable only through another save site's callee
        saves = [s for s in saves if not V.blocks[s.bb].get("cleanup")]
        prunes = [s for s in V.calls() if "WAL_PRUNE" in conc(V.orig_site(s)) and s not in saves]
        for (wbb, st) in writes:
            rv = st["rv"]
            where = "%s:%d" % (V.blocks[wbb]["span"].get("file", pb.file), st.get("line", 0))
            written = sl.leaves_up(rv["op"], depth=4) if rv["k"] == "use" else (
                sl.leaves_of_rv(rv, wbb) if rv["k"] == "agg" else set())
            written = expand_down(ctx.world, V, written, depth=3, stop=wal_methods)
            from_wal = False
            for l in written:
                if l[0] != "call":
                    continue
                t = sl.call_at(l[2])
                lb_ = sl.body_at(l[2])
                tgt = prog.local_target(Site(lb_, l[2][1] if isinstance(l[2], tuple) else l[2], t))
                if tgt is not None and tgt.argc >= 1 and prog.adt_of(tgt.locals[1])[0] == walmgr:
                    from_wal = True
            r.check(from_wal and len(written) == 1, "version-source", pb,
                    "the version stored at %s is computed by the WAL manager (%s)" % (where, ", ".join(fmt_leaf(x) for x in written)),
                    "the version stored at %s has origins %s (expected: the WAL manager's last written version)" % (
                        where, sorted(fmt_leaf(x) for x in written)), where)
            for s in saves:
                r.check(V.dominates(wbb, s.bb), "version-before-save", pb,
                        "the version is stored before the snapshot is saved (%s)" % site_where(s),
                        "the snapshot at %s can be saved before its version is stored" % site_where(s), site_where(s))
            for s in prunes:
                pl = set()
                for a in s.term["args"][1:]:
                    pl |= sl.leaves_up(a, depth=4)
                pl = expand_down(ctx.world, V, pl, depth=3, stop=wal_methods)
                r.check(bool(written & pl), "prune-version", pb,
                        "the prune step at %s is given the version that was just saved" % site_where(s),
                        "the prune step at %s is given %s, not the version just saved (%s)" % (
                            site_where(s), sorted(fmt_leaf(x) for x in pl), sorted(fmt_leaf(x) for x in written)),
                        site_where(s))
    # writes of the snapshot version anywhere else (outside the loader and outside every checkpoint view)
    for w in ctx.world.field_writes:
        if w.field != sv or w.body.path in lfam or (w.body.path, w.bb) in covered:
            continue
        r.bad("version-source", w.body, "the snapshot version is also written at %s:%d, outside the checkpoint path" % (
            w.body.file, w.line), "%s:%d" % (w.body.file, w.line))
    # (c) load: replay starts from the version of the state returned by the loader (the two calls may sit in helpers of
    # the load function: judged on the smallest flat view that contains both)
    cb_paths = set(cb.path for cb in replay_callbacks(ctx))

    def is_replay_call(s):
        tg = prog.local_target(s)
        if tg is None:
            return False
        return any(p_ in cb_paths for p_ in prog.reachable_bodies([tg]))
    reachers = tuple(sorted(p_ for p_, bd in prog.bodies.items()
                            if any(q in cb_paths for q in prog.reachable_bodies([bd])) and p_ not in cb_paths))
    for lb in loaders:
        for (csite, how) in prog.callers_index().get(lb.path, []):
            # helpers are inlined, except the loader and whatever leads to the replay callback: the outermost such
            # call is "the replay call"
            V = ctx.view_containing(csite.body, lambda v: any(is_replay_call(s) for s in v.calls()) and
                                    bool(ctx.flat_sites_of(v, csite)), stop=(lb.path,) + reachers)
            if V is None:
                r.bad("replay-from-snapshot-version", csite.body,
                      "cannot find the replay call that follows the snapshot load at %s" % site_where(csite), site_where(csite))
                continue
            b = V
            sl = Slicer(ctx.world, b)
            lsites = set(s.bb for s in ctx.flat_sites_of(V, csite))
            for s in b.calls():
                if not is_replay_call(s) or s.bb in lsites:
                    continue
                # the outermost replay call only (its callees were either inlined or are reached through it)
                ok = False
                seen = set()
                for a in s.term["args"]:
                    for l in sl.leaves_of_operand(a):
                        seen.add(fmt_leaf(l))
                        if l[0] == "call" and l[2] in lsites and l[-1] and l[-1][-1] == sv[2]:
                            ok = True
                if not ok and any(l_ for l_ in seen) and not any(
                        "%s" % sv[2] in x for x in seen):
                    # an inner call of an already judged replay chain (does not take the version at all)
                    takes_version = False
                    for a in s.term["args"]:
                        pl_ = place_of(a)
                        if pl_ is not None and "NonZero" in prog.ty_str(ctx.world._place_ty(b, pl_)):
                            takes_version = True
                    if not takes_version:
                        continue
                kb = b.origin_body(s.bb) if getattr(b, "is_flat", False) else b
                r.check(ok, "replay-from-snapshot-version", kb,
                        "replay at %s starts from the version of the snapshot just loaded" % site_where(s),
                        "replay at %s is not given the version of the loaded snapshot (args: %s)" % (
                            site_where(s), sorted(seen)), site_where(s))


def loader_refcounts(ctx, r, loaders):
    """In the loader: the key map is filled (insert per key, or assigned as a whole) and the reference count of every
    loaded key's hash is bumped once - per insert in the same iteration, or in a loop over the filled map."""
    prog = ctx.prog
    total_fill = 0
    fam = loader_family(ctx, loaders)
    for lb in fam:
        sl = Slicer(ctx.world, lb)
        inserts = [cu for cu in ctx.world.container_uses if cu.site.body.path == lb.path and
                   "INDEX_MUTATE" in sem(("CONT", cu.field, cu.method, cu.mutable)) and cu.method == "insert"]
        incs = [s for s in lb.calls() if "REFCNT_MUTATE" in sem_set(ctx.may.site_events(s))
                and "INDEX_MUTATE" not in sem_set(ctx.may.site_events(s)) and prog.local_target(s) is not None]
        for cu in inserts:
            nxt = cu.site.term["t"]
            # loop header: the iterator `next` call that dominates the insert and is reachable from it
            ok = False
            for inc in incs:
                if not lb.dominates(cu.site.bb, inc.bb):
                    continue
                # same item: the inserted value and the hash argument share an origin
                val = set()
                for a in cu.site.term["args"][1:]:
                    val |= sl.leaves_of_operand(a)
                ha = set()
                for a in inc.term["args"][1:]:
                    ha |= sl.leaves_of_operand(a)
                base = lambda ls: set((l[0], l[1], l[2]) if l[0] == "call" else (l[0], l[1]) for l in ls)
                if base(val) & base(ha):
                    # no way back to the insert without passing the increment
                    back = cfgutil.reach(lb, nxt, removed_blocks=[inc.bb])
                    if cu.site.bb not in back:
                        ok = True
            r.check(ok, "refcount-per-insert", lb,
                    "every loaded key bumps the refcount of its own hash (%s)" % site_where(cu.site),
                    "a key inserted at %s is not followed (in the same iteration, for the same item) by a refcount "
                    "increment" % site_where(cu.site), site_where(cu.site))
        # the maps assigned as a whole (`state.key_to_hash = decoded.collect()`)
        whole_keys = [w for w in ctx.world.field_writes if w.body.path == lb.path and ANCHOR_FIELDS.get(w.field) == "KEYMAP"]
        whole_refs = [w for w in ctx.world.field_writes if w.body.path == lb.path and ANCHOR_FIELDS.get(w.field) == "REFCNT"]
        for w in whole_refs:
            r.bad("refcount-rebuild", lb,
                  "the loader assigns the reference-count map as a whole at %s:%d (collected pairs): entries with the same "
                  "hash collapse into one, so a hash shared by n keys does not get the count n - the first remove of one "
                  "sharer unlinks a blob the others still reference" % (lb.file, w.line), "%s:%d" % (lb.file, w.line))
        for w in whole_keys:
            # then the counts must come from a loop over the filled map that bumps once per entry
            ok = False
            from .c01 import derives_from
            base = lambda ls: set((l[0], l[1], l[2]) if l[0] == "call" else (l[0], l[1]) for l in ls)
            for inc in incs:
                if not lb.dominates(w.bb, inc.bb):
                    continue
                ha = set()
                for a in inc.term["args"][1:]:
                    ha |= sl.leaves_of_operand(a)
                for nx in lb.calls():
                    if (nx.path or "") != "std::iter::Iterator::next" or not lb.dominates(nx.bb, inc.bb) \
                            or not lb.dominates(w.bb, nx.bb):
                        continue
                    # the loop runs over (values of) the key map, and the hash that is bumped is the loop's item
                    it_leaves = sl.leaves_of_operand(nx.term["args"][0])
                    if not derives_from(ctx, lb, sl, nx.term["args"][0], lambda evs: "INDEX_READ" in sem_set(evs)):
                        continue
                    if not (base(ha) & base(it_leaves)):
                        continue
                    # every iteration passes the increment: from the Some edge there is no way back to `next` around it
                    for q in cfgutil.reach(lb, nx.term["t"]):
                        c = cfgutil.switch_condition(lb, q)
                        if c and c[0] == "discr" and not c[1]["p"] and c[1]["l"] == nx.term["dest"]["l"]:
                            e = cfgutil.switch_edges(lb, q)
                            some_t = e.get(1, e["otherwise"] if 0 in e else None)
                            if some_t is not None and nx.bb not in cfgutil.reach(lb, some_t, removed_blocks=[inc.bb]):
                                ok = True
            r.check(ok, "refcount-after-fill", lb,
                    "after the key map is assigned at %s:%d, a loop over it bumps the refcount once per entry" % (lb.file, w.line),
                    "the key map is assigned as a whole at %s:%d but no loop over it bumps the reference count of each "
                    "entry's hash once" % (lb.file, w.line), "%s:%d" % (lb.file, w.line))
        total_fill += len(inserts) + len(whole_keys)
    for lb in loaders:
        r.check(total_fill >= 1, "loader-inserts", lb,
                "%d site(s) fill the key map in the loader (and its private helpers)" % total_fill,
                "the snapshot loader does not fill the key map")


def load_rebuilds(ctx, r, loaders, cbs):
    prog = ctx.prog
    A = ctx.anchors
    # (a) in the loader: every key that is loaded bumps the refcount of its hash once
    loader_refcounts(ctx, r, loaders)
    # (b) in the load root: loader -> recompute stats -> replay on every path.  "Recompute" is a call of a function that
    # sets the statistics (not += / -=) outside the apply step, or such an assignment in the load function itself
    # (`state.stats = state.derive_stats(..)`)
    points = ctx.recompute_points()
    stats_bodies = set(points.keys())
    for lb in loaders:
        for (csite, how) in prog.callers_index().get(lb.path, []):
            b = csite.body
            rec = [(s.bb, site_where(s)) for s in b.calls()
                   if prog.local_target(s) is not None and prog.local_target(s).path in stats_bodies]
            rec += [(bb, "%s:%d" % (b.file, line)) for (bb, line) in points.get(b.path, [])]
            rep = []
            for s in b.calls():
                tg = prog.local_target(s)
                if tg is not None and any(cb.path in prog.reachable_bodies([tg]) for cb in cbs):
                    rep.append(s)
            # ... or the loader does it itself before it returns (every Ok return of the loader lies behind the call)
            inside = False
            LV = ctx.flat(lb, stop=tuple(sorted(stats_bodies)))
            lrec = [(s.bb, site_where(s)) for s in LV.calls()
                    if prog.local_target(s) is not None and prog.local_target(s).path in stats_bodies]
            if lrec:
                lrf = ctx.rf(LV)
                oks = [bb for bb, kind in lrf.forwarded.items() if kind == "ok" or isinstance(kind, tuple)]
                inside = bool(oks) and all(any(LV.dominates(x, bb) for x, _w in lrec) for bb in oks)
            r.check(bool(rec) or inside, "recompute-call", b, "statistics are recomputed %s (%s)" % (
                "in %s" % b.path if rec else "by the loader before it returns",
                ", ".join(w_ for _x, w_ in (rec or lrec))), "%s never recomputes the statistics after loading" % b.path)
            for s in rep:
                ok = any(b.dominates(x, s.bb) and b.dominates(csite.bb, x) for x, _w in rec) or \
                    (inside and b.dominates(csite.bb, s.bb))
                r.check(ok, "recompute-before-replay", b,
                        "load -> recompute -> replay (%s) on every path" % site_where(s),
                        "replay at %s is not preceded by a recomputation of the statistics of the loaded snapshot" %
                        site_where(s), site_where(s))


def _replay_callback_sites(ctx, b0):
    """Calls of a generic closure parameter that mutates the index, in a body that runs on the open path only (a
    higher-order helper of the live path - `with_locks(|state, wal| apply(..))` - is not the replayer)."""
    prog = ctx.prog
    live = ctx.__dict__.get("_live_reach")
    if live is None:
        live = prog.reachable_bodies(ctx.live_roots())
        ctx.__dict__["_live_reach"] = live
    if b0.path in live:
        return []
    return [s for s in b0.calls() if s.path in FN_TRAIT_CALLS and s.callee.get("rk") != "virtual"
            and any(how == "param" for _, how in prog.call_targets(s))
            and "INDEX_MUTATE" in sem_set(ctx.may.site_events(s))]


def replay_skips(ctx, r):
    """In the body that invokes the replay callback inside a loop: every branch that can go back to the
    loop header without invoking the callback (and without returning an error) tests only the record's
    version against the checkpoint version."""
    prog = ctx.prog
    from ..prov import _closure_sites
    work = {}
    for b0 in prog.bodies.values():
        cbsites = _replay_callback_sites(ctx, b0)
        if not cbsites:
            continue
        if b0.is_closure:
            # the per-record work sits in a closure handed to an iterator adaptor (`reader.try_fold(.., |acc, e| ..)`):
            # judged in the flat view of the function the closure is written in, where the adaptor is the loop it means
            for (pb, _bb, _rv) in _closure_sites(prog, b0.path):
                V = ctx.flat(pb, stop=tuple(sorted(cb.path for cb in replay_callbacks(ctx))))
                for c in cbsites:
                    for fs in ctx.flat_sites_of(V, c):
                        if fs.kind == "call" and not V.blocks[fs.bb].get("cleanup"):
                            work.setdefault(id(V), (V, []))[1].append(fs)
            if not any(True for _ in work):
                work.setdefault(id(b0), (b0, []))[1].extend(cbsites)
        else:
            # judged on the flat view: the skip decision may sit in a private helper (`disposition(checkpoint, version)`
            # answering with an enum the loop matches on)
            V = ctx.flat(b0, stop=tuple(sorted(cb.path for cb in replay_callbacks(ctx))))
            occ = [fs for c in cbsites for fs in ctx.flat_sites_of(V, c)
                   if fs.kind == "call" and not V.blocks[fs.bb].get("cleanup")]
            if occ:
                work.setdefault(id(V), (V, []))[1].extend(occ)
            else:
                work.setdefault(id(b0), (b0, []))[1].extend(cbsites)
    for (b, cbsites) in work.values():
        sl = Slicer(ctx.world, b)
        for c in cbsites:
            # loop headers: `next` calls that dominate the callback and can be reached again from it
            headers = [s for s in b.calls() if (s.path or "").endswith("Iterator::next") and b.dominates(s.bb, c.bb)
                       and s.bb in cfgutil.reach(b, c.term["t"])]
            if not headers:
                r.bad("replay-loop", b, "the replay callback at %s is not inside a loop" % site_where(c))
                continue
            h = max(headers, key=lambda s: len(b.dominators()[s.bb]))      # innermost
            loop = cfgutil.natural_loop(b, h.bb)
            outside = set(b.normal_blocks()) - loop
            region = (cfgutil.reach(b, h.term["t"], removed_blocks=[c.bb] + list(outside)) - {h.bb}) & loop
            n_skip = 0
            for x in sorted(region):
                t = b.blocks[x]["term"]
                if t["k"] != "switch":
                    continue
                for tgt in set(b.succs(x)):
                    # does this edge lead back to the header while avoiding the callback, and is the callback
                    # still reachable from the other edges (i.e. this is a skip decision)?
                    back = cfgutil.reach(b, tgt, removed_blocks=[c.bb] + list(outside))
                    others = [o for o in b.succs(x) if o != tgt]
                    can_call = any(c.bb in cfgutil.reach(b, o, removed_blocks=[h.bb] + list(outside)) for o in others)
                    if h.bb in back and c.bb not in cfgutil.reach(b, tgt, removed_blocks=[h.bb] + list(outside)) and can_call:
                        cond = cfgutil.switch_condition(b, x)
                        leaves = set()
                        if cond and cond[0] == "cmp":
                            leaves = sl.leaves_of_operand(cond[2]) | sl.leaves_of_operand(cond[3])
                        elif cond and cond[0] in ("call",):
                            for a in cond[2]["args"]:
                                leaves |= sl.leaves_of_operand(a)
                                pl = place_of(a)
                                if pl is not None and not pl["p"]:
                                    cd = prog.closure_def_of_type(b.locals[pl["l"]])
                                    if cd:
                                        for (dbb, j, rv) in b.assignments().get(pl["l"], []):
                                            if j != "term" and rv["k"] == "agg":
                                                for op in rv["ops"]:
                                                    leaves |= sl.leaves_of_operand(op)
                        elif cond and cond[0] == "bool":
                            leaves = sl.leaves_of_operand(cond[1])
                        elif cond and cond[0] == "discr":
                            # end of iteration (None) is not a skip
                            lv = sl.leaves_of_place(cond[1])
                            if any(l[0] == "call" and l[2] == h.bb for l in lv):
                                continue
                            leaves = lv
                        n_skip += 1
                        # a flag computed from a comparison: look through it to what is compared
                        expanded = set()
                        for l in leaves:
                            if l[0] == "call" and (l[1] or "").startswith(("std::cmp::PartialOrd::", "std::cmp::PartialEq::")):
                                for a in b.blocks[l[2]]["term"]["args"]:
                                    expanded |= sl.leaves_of_operand(a)
                            elif l[0] == "binop" and l[1] in ("Lt", "Le", "Gt", "Ge", "Eq", "Ne"):
                                for (lhs_, op_, a_, b__) in [(st["lhs"]["l"], st["rv"]["op"], st["rv"]["a"], st["rv"]["b"])
                                                           for st in b.stmts(l[2]) if st["k"] == "assign" and
                                                           st["rv"]["k"] == "binop" and st["rv"]["op"] == l[1]]:
                                    expanded |= sl.leaves_of_operand(a_) | sl.leaves_of_operand(b__)
                            elif l[0] == "const" and l[1] in (0, 1, False, True):
                                continue
                            elif l[0] == "call" and (l[1] or "").split("::")[-1] in ("map_or", "unwrap_or") and \
                                    (l[1] or "").startswith("std::option::Option") and not isinstance(l[2], tuple) and \
                                    b.blocks[l[2]]["term"]["args"]:
                                # `checkpoint.map_or(0, NonZeroU64::get)`: the optional version as a plain number
                                expanded |= set(x for x in sl.leaves_of_operand(b.blocks[l[2]]["term"]["args"][0]))
                            else:
                                expanded.add(l)
                        leaves = expanded
                        desc = sorted(fmt_leaf(l) for l in leaves)
                        leaves = set(l for l in leaves if not (l[0] == "agg" and str(l[1]).startswith("closure:")))
                        desc = sorted(fmt_leaf(l) for l in leaves)
                        # a threshold handed to a per-segment helper as a parameter is traced to the caller
                        from ..prov import expand_up
                        keep = set(l for l in leaves if not (l[0] == "param" and not l[2]))
                        leaves = keep | expand_up(ctx.world, b, leaves - keep, 3, sl)
                        desc = sorted(fmt_leaf(l) for l in leaves)
                        ok = bool(leaves) and all(
                            is_version_leaf(ctx, l) or (l[0] == "param" and l[1] == 1 and l[2]) or
                            (l[0] == "xparam" and l[1][1] == 1 and l[2])
                            for l in leaves)
                        r.check(ok, "skip-branch", b,
                                "the only skip in the replay loop (%s:%d) compares %s" % (
                                    b.file, b.blocks[x]["span"]["line"], desc),
                                "the replay loop can skip a record at %s:%d depending on %s (not only on the record "
                                "version vs. the checkpoint version)" % (b.file, b.blocks[x]["span"]["line"], desc),
                                "%s:%d" % (b.file, b.blocks[x]["span"]["line"]))
            r.check(n_skip >= 1, "skip-exists", b, "%d skip branch(es) in the replay loop" % n_skip,
                    "no checkpoint-version skip found in the replay loop of %s (already-snapshotted records would be "
                    "applied twice)" % b.path)


class _MaxEval(object):
    """Tiny symbolic evaluation of the expression assigned to the running maximum: terms over H (the previous value,
    an Option), its payload, V (the record's version), max(.,.) and case-on-Option - enough to decide
    `new >= V` and `new >= H` for max(), map_or(), map(), unwrap_or(), match/if-let written any of the usual ways."""

    def __init__(self, ctx, b, from_H, is_V):
        self.ctx, self.b, self.from_H, self.is_V = ctx, b, from_H, is_V

    def operand(self, b, op, env, depth=0):
        if depth > 10:
            return ("unk", "depth")
        if b is self.b:
            if self.from_H(op):
                return ("H",)
            if self.is_V(op):
                return ("V",)
        pl = place_of(op)
        if pl is None:
            return ("const",)
        l = pl["l"]
        if l in env and not [e for e in pl["p"] if e != "deref"]:
            return env[l]
        # a captured variable of a closure: evaluate what was captured, in the enclosing body
        ups = [e for e in pl["p"] if isinstance(e, dict) and e.get("upvar")]
        if ups and "__capt__" in env:
            pb, ops = env["__capt__"]
            k = ups[0]["f"]
            if k < len(ops):
                return self.operand(pb, ops[k], env.get("__penv__", {}), depth + 1)
        if [e for e in pl["p"] if e != "deref" and not (isinstance(e, dict) and "dc" in e)
                and not (isinstance(e, dict) and e.get("f") == 0 and "adt" in e)]:
            return ("unk", "projection")
        defs = b.assignments().get(l, [])
        if len(defs) != 1:
            return ("unk", "multi-def")
        dbb, j, rv = defs[0]
        if j == "term":
            return self.call(b, rv, env, depth + 1)
        k = rv["k"]
        if k in ("use", "cast"):
            return self.operand(b, rv["op"], env, depth + 1)
        if k == "ref":
            return self.operand(b, {"copy": rv["place"]}, env, depth + 1)
        if k == "agg" and rv.get("vn") == "Some" and rv["ops"]:
            return self.operand(b, rv["ops"][0], env, depth + 1)
        if k == "agg" and rv.get("vn") == "None":
            return ("none",)
        return ("unk", k)

    def call(self, b, t, env, depth):
        p = term_path(t) or ""
        last = p.split("::")[-1]
        args = t["args"]
        if p in ("std::cmp::Ord::max", "std::cmp::max") and len(args) == 2:
            return ("max", self.operand(b, args[0], env, depth), self.operand(b, args[1], env, depth))
        if last in ("deref", "clone", "copied", "cloned", "into", "from", "as_ref", "borrow") and args:
            return self.operand(b, args[0], env, depth)
        if p.endswith("Option::map_or") and len(args) == 3:
            o = self.operand(b, args[0], env, depth)
            return ("case", o, self.operand(b, args[1], env, depth), self.closure(b, t, args[2], o, env, depth))
        if p.endswith("Option::map") and len(args) == 2:
            o = self.operand(b, args[0], env, depth)
            return ("case", o, ("none",), self.closure(b, t, args[1], o, env, depth))
        if p.endswith("Option::unwrap_or") and len(args) == 2:
            o = self.operand(b, args[0], env, depth)
            return ("case", o, self.operand(b, args[1], env, depth), self.payload(o))
        return ("unk", p)

    @staticmethod
    def payload(o):
        return ("Hval",) if o == ("H",) else o

    def closure(self, b, t, cl_op, o, env, depth):
        prog = self.ctx.prog
        pl = place_of(cl_op)
        if pl is None or pl["p"]:
            return ("unk", "closure")
        cd = prog.closure_def_of_type(b.locals[pl["l"]])
        tg = prog.bodies.get(cd) if cd else None
        if tg is None:
            return ("unk", "closure")
        ops = None
        for (dbb, j, rv) in b.assignments().get(pl["l"], []):
            if j != "term" and rv["k"] == "agg" and rv.get("ak") == "closure":
                ops = rv["ops"]
        env2 = {2: self.payload(o), "__capt__": (b, ops or []), "__penv__": env}
        return self.operand(tg, {"copy": {"l": 0, "p": []}}, env2, depth + 1)

    def geq(self, term, x):
        k = term[0]
        if k == "V":
            return x == "V"
        if k in ("H", "Hval"):
            return x == "H"
        if k == "max":
            return self.geq(term[1], x) or self.geq(term[2], x)
        if k == "case":
            o, n, s_ = term[1], term[2], term[3]
            if o == ("H",):
                # None branch: there is no previous value, `>= H` holds vacuously
                return (x == "H" or self.geq(n, x)) and self.geq(s_, x)
            return self.geq(n, x) and self.geq(s_, x)
        return False


def highest_version_accumulator(ctx, r):
    """The replayer returns the highest version it has seen: the returned local is seeded with the checkpoint
    version and every later assignment is `max(previous, record.version)` (or `record.version` when there was
    no previous value / under a `>` comparison). Anything else can make the next version collide with a
    persisted one."""
    prog = ctx.prog
    from ..prov import root_local

    def canon(b, pl):
        """(local, field names) of a place, looking through references to locals (`(*p).f` with p = &mut x is x.f) and
        through the captured variables of an inlined closure."""
        return cfgutil.canon_place(b, pl)

    def find_H(b):
        """The accumulator behind the returned Ok value: a local, or a field of a local struct (a progress record
        handed to a per-segment helper by reference); its type is the version type."""
        for bb in b.normal_blocks():
            for s in b.stmts(bb):
                if s["k"] == "assign" and s["lhs"]["l"] == 0 and not s["lhs"]["p"] and s["rv"]["k"] == "agg" \
                        and s["rv"].get("vn") == "Ok" and s["rv"]["ops"]:
                    h = root_local(b, s["rv"]["ops"][0])
                    if not isinstance(h, int) or "NonZero" not in prog.ty_str(b.locals[h]):
                        continue
                    defs = b.assignments().get(h, [])
                    if len(defs) >= 2:
                        return (h, ())
                    if len(defs) == 1 and defs[0][1] == "term" and (term_path(defs[0][2]) or "").endswith("NonZero::new") \
                            and defs[0][2]["args"]:
                        # a plain integer watermark (0 = none yet) turned back into the optional form at the end
                        h2 = root_local(b, defs[0][2]["args"][0])
                        if isinstance(h2, int) and len(b.assignments().get(h2, [])) >= 2:
                            return (h2, ())
                    if len(defs) == 1 and defs[0][1] != "term" and defs[0][2]["k"] == "use":
                        pl = place_of(defs[0][2]["op"])
                        if pl is not None and pl["p"]:
                            c = canon(b, pl)
                            # a field that is written somewhere in this view (not a field that is only read)
                            if c[1] and any(st["k"] == "assign" and st["lhs"]["p"] and canon(b, st["lhs"]) == c
                                            for x in b.normal_blocks() for st in b.stmts(x)):
                                return c
        return None
    done = set()
    for b0 in prog.bodies.values():
        cb0 = _replay_callback_sites(ctx, b0)
        if not cb0:
            continue
        from .. import flat as flatmod
        b = None
        if b0.is_closure:
            # the per-record body is a closure handed to an iterator adaptor: the view is the function that writes the
            # closure, with the adaptor turned into the loop it means and only this closure inlined
            from ..prov import _closure_sites
            for (pb, _bb, _rv) in _closure_sites(prog, b0.path):
                if pb.is_closure:
                    continue
                pure = lambda tgt: not ctx.may.all_events(tgt.path) and not ctx.locks.acquires(tgt.path)
                V = flatmod.flatten(prog, pb, lambda site, tgt, how: how == "direct" and not tgt.reachable and
                                    not tgt.is_closure and pure(tgt), 4)
                if b0.path in V.inlined and find_H(V) is not None:
                    b = V
                    break
            if b is None:
                continue
        # the accumulator may live in the caller of a per-segment helper: the function itself if it has it, else the
        # caller's view with just the helpers on the way inlined (the record reader stays a call: `entry.version`)
        if b is None:
            b = b0 if find_H(b0) is not None else None
        if b is None:
            chain = [b0.path]
            cur = b0
            for _ in range(3):
                callers = [cs for cs, how in prog.callers_index().get(cur.path, []) if how == "direct"]
                if len(callers) != 1:
                    break
                cur = callers[0].body
                V = flatmod.flatten(prog, cur, lambda site, tgt, how, _c=tuple(chain): tgt.path in _c, 4)
                if find_H(V) is not None:
                    b = V
                    break
                chain.append(cur.path)
        if b is None:
            r.bad("highest-local", b0, "cannot find the running 'highest version' value on the replay path of %s" % b0.path)
            continue
        if b.path in done:
            continue
        done.add(b.path)
        keys0 = set(s.key() for s in cb0)
        cbsites = [s for s in b.calls() if s.key() in keys0]
        sl = Slicer(ctx.world, b)
        H = find_H(b)
        Hl, Hf = H
        loops = {}
        for hb in b.normal_blocks():
            if any(b.dominates(hb, p) for p in b.preds(hb)):
                loops[hb] = cfgutil.natural_loop(b, hb)
        in_loop = set().union(*loops.values()) if loops else set()

        def single_copy(l2):
            """A local that merely holds a copy made elsewhere (a parameter of an inlined helper, a temporary): one
            definition, a plain use."""
            d2 = b.assignments().get(l2, [])
            if len(d2) == 1 and d2[0][1] == "term" and (term_path(d2[0][2]) or "").endswith("NonZero::get"):
                return True         # (the version as a plain number)
            return len(d2) == 1 and d2[0][1] != "term" and d2[0][2]["k"] == "use"

        def terminals_local(l, depth=0, seen=None, at=None):
            """(block, kind, value) of the values that reach local l.  `block` is where the choice between the values is
            made (the arm that assigns), not where a copied operand happened to be computed."""
            seen = seen or set()
            out = []
            if l in seen or depth > 8:
                return out
            seen.add(l)
            defs_l = b.assignments().get(l, [])
            for (dbb, j, rv) in defs_l:
                here = at if (at is not None and len(defs_l) == 1) else dbb
                if j == "term" and (term_path(rv) or "").endswith("NonZero::get") and rv["args"]:
                    out.append((here, "use", rv["args"][0]))        # the version as a plain number
                elif j == "term":
                    out.append((here, "call", rv))
                elif rv["k"] == "use":
                    pl = place_of(rv["op"])
                    if pl is not None and not pl["p"] and l != pl["l"] and not (1 <= pl["l"] <= b.argc) \
                            and b.assignments().get(pl["l"]):
                        out += terminals_local(pl["l"], depth + 1, seen, at=here if single_copy(pl["l"]) else None)
                    else:
                        out.append((here, "use", rv["op"]))
                elif rv["k"] == "agg" and rv.get("vn") == "Some" and rv["ops"]:
                    pl = place_of(rv["ops"][0])
                    if pl is not None and not pl["p"] and b.assignments().get(pl["l"]) and not (1 <= pl["l"] <= b.argc):
                        out += terminals_local(pl["l"], depth + 1, seen, at=here if single_copy(pl["l"]) else None)
                    else:
                        out.append((here, "use", rv["ops"][0]))
                else:
                    out.append((here, "other", rv))
            return out

        def terminals(_ignored=None):
            if not Hf:
                return terminals_local(Hl)
            out = []
            for bb in b.normal_blocks():
                for st in b.stmts(bb):
                    if st["k"] != "assign":
                        continue
                    if canon(b, st["lhs"]) == H:
                        rv = st["rv"]
                        if rv["k"] == "use":
                            pl = place_of(rv["op"])
                            if pl is not None and not pl["p"] and b.assignments().get(pl["l"]) and \
                                    not (1 <= pl["l"] <= b.argc):
                                out += terminals_local(pl["l"])
                            else:
                                out.append((bb, "use", rv["op"]))
                        else:
                            out.append((bb, "other", rv))
                    elif not st["lhs"]["p"] and cfgutil.flows_to(b, st["lhs"]["l"], Hl) and st["rv"]["k"] == "agg" and \
                            st["rv"].get("ak") == "adt" and Hf[0] in (st["rv"].get("fields") or []):
                        # the progress record is built: its field starts with this value
                        op = st["rv"]["ops"][st["rv"]["fields"].index(Hf[0])]
                        out.append((bb, "use", op))
            return out

        def from_H(op):
            pl = place_of(op)
            seen = set()
            while pl is not None:
                if Hf:
                    if pl["p"] and canon(b, pl)[0] == Hl and canon(b, pl)[1][:len(Hf)] == Hf:
                        return True
                elif pl["l"] == Hl:
                    return True
                if pl["l"] in seen:
                    return False
                seen.add(pl["l"])
                defs = b.assignments().get(pl["l"], [])
                if len(defs) != 1 or defs[0][1] == "term":
                    return False
                rv = defs[0][2]
                if rv["k"] == "use":
                    pl = place_of(rv["op"])
                elif rv["k"] in ("ref",):
                    pl = rv["place"]
                else:
                    return False
            return False

        def is_record_version(op):
            lv = sl.leaves_of_operand(op)
            return bool(lv) and all(is_version_leaf(ctx, l) and l[0] == "call" for l in lv)

        n_init = n_upd = 0
        larger_guards = []      # (switch, edge taken when the record's version exceeds the previous maximum)
        for (dbb, kind, x) in terminals(H):
            where = "%s:%d" % (b.file, b.blocks[dbb]["span"]["line"])
            if dbb not in in_loop:
                lv = sl.leaves_of_operand(x) if kind == "use" else set()
                # the checkpoint version the replayer was given: a field of its receiver, or a parameter of its own
                # (a version-typed one)
                if kind == "call" and (term_path(x) or "").split("::")[-1] in ("map_or", "unwrap_or", "map_or_else") and x["args"]:
                    # `checkpoint.map_or(0, NonZeroU64::get)`: the checkpoint version as a plain watermark
                    lv = sl.leaves_of_operand(x["args"][0])
                    kind = "use"
                ok = kind == "use" and bool(lv) and all(
                    l[0] == "param" and (l[2] or "NonZero" in prog.ty_str(b.locals[l[1]])) for l in lv)
                n_init += 1
                r.check(ok, "highest-seed", b, "the running maximum is seeded with the checkpoint version (%s)" % where,
                        "the running maximum is seeded at %s with %s" % (where, sorted(fmt_leaf(l) for l in lv) or kind), where)
                continue
            n_upd += 1
            ev = _MaxEval(ctx, b, from_H, is_record_version)
            term = ev.call(b, x, {}, 0) if kind == "call" else (ev.operand(b, x, {}) if kind == "use" else ("unk", kind))
            if kind == "call" and ev.geq(term, "V") and ev.geq(term, "H"):
                r.ok("highest-update:max", b, "update at %s: the new value is at least the previous maximum and the "
                                              "record's version" % where)
            elif kind == "use" and is_record_version(x):
                # only where there is no previous value, or under `version > previous`
                ok = False
                for sw in b.normal_blocks():
                    c = cfgutil.switch_condition(b, sw)
                    if not c:
                        continue
                    if c[0] == "discr" and ((not Hf and not c[1]["p"] and c[1]["l"] == Hl) or
                                            (Hf and canon(b, c[1]) == H) or from_H({"copy": c[1]})):
                        e = cfgutil.switch_edges(b, sw)
                        none_t = e.get(0, e["otherwise"] if 1 in e else None)
                        if none_t is not None and cfgutil.edge_dominates(b, (sw, none_t), dbb):
                            ok = True
                    cc = cfgutil.cmp_true_edge(b, sw)
                    if cc and cc[0] in ("Gt", "Lt", "Ge", "Le"):
                        op, p, q, t_true, t_false = cc
                        if cc[0] in ("Gt", "Ge") and is_record_version(p) and from_H(q) and t_true is not None \
                                and cfgutil.edge_dominates(b, (sw, t_true), dbb):
                            ok = True
                            larger_guards.append((sw, t_true))
                        if cc[0] in ("Lt", "Le") and from_H(p) and is_record_version(q) and t_true is not None \
                                and cfgutil.edge_dominates(b, (sw, t_true), dbb):
                            ok = True
                            larger_guards.append((sw, t_true))
                    # `previous.is_none_or(|prev| version > prev)`
                    if c[0] == "call" and (c[1] or "").endswith("::is_none_or") and from_H(c[2]["args"][0]):
                        csite = Site(b, c[4], c[2])
                        for tg, how in prog.call_targets(csite):
                            if how != "extern-cb" or not _closure_says_larger(ctx, b, sl, csite, tg, is_record_version):
                                continue
                            t_true, t_false = cfgutil.true_false_edges(b, sw)
                            good = t_false if c[3] else t_true
                            if good is not None and cfgutil.edge_dominates(b, (sw, good), dbb):
                                ok = True
                                larger_guards.append((sw, good))
                r.check(ok, "highest-update:first", b,
                        "update at %s: record.version taken only when there is no previous maximum (or it is larger)" % where,
                        "the running maximum is overwritten with a record's version at %s without comparing it to the "
                        "previous maximum" % where, where)
            else:
                desc = term_path(x) if kind == "call" else (sorted(fmt_leaf(l) for l in sl.leaves_of_operand(x)) if kind == "use" else kind)
                r.bad("highest-update:other", b,
                      "the running maximum is overwritten at %s with %s (not max(previous, record.version)): a trailing "
                      "empty or short segment can lower it below a persisted version" % (where, desc), where)
        r.check(n_init >= 1 and n_upd >= 1, "highest-shape", b, "%d seed(s), %d in-loop update(s)" % (n_init, n_upd),
                "the running maximum in %s has %d seed(s) and %d in-loop update(s)" % (b.path, n_init, n_upd))
        # every record read reaches an update before the next record is read
        for c in cbsites:
            headers = [s for s in b.calls() if (s.path or "").endswith("Iterator::next") and b.dominates(s.bb, c.bb)
                       and s.bb in cfgutil.reach(b, c.term["t"])]
            if not headers:
                continue
            h = max(headers, key=lambda s: len(b.dominators()[s.bb]))
            upd_blocks = [dbb for (dbb, kind, x) in terminals(H) if dbb in cfgutil.natural_loop(b, h.bb)]
            loop = cfgutil.natural_loop(b, h.bb)
            outside = set(b.normal_blocks()) - loop
            rf = ctx.must(None).rf(b)
            # from the Some edge of the item: paths back to the header avoiding all update blocks
            some_t = None
            for x in cfgutil.reach(b, h.term["t"], removed_blocks=list(outside)):
                cnd = cfgutil.switch_condition(b, x)
                if cnd and cnd[0] == "discr" and not cnd[1]["p"] and cnd[1]["l"] == h.term["dest"]["l"]:
                    e = cfgutil.switch_edges(b, x)
                    some_t = e.get(1, e["otherwise"] if 0 in e else None)
                    break
            if some_t is None:
                continue
            # skipping the update because the record's version is not larger than the maximum is fine
            skip_ok = [(sw, t) for (sw, good) in larger_guards for t in b.succs(sw) if t != good]
            back = cfgutil.reach(b, some_t, removed_edges=skip_ok, removed_blocks=upd_blocks + list(outside))
            r.check(h.bb not in back, "highest-every-record", b,
                    "every record read in the loop at %s updates the running maximum before the next one is read" % site_where(h),
                    "a record can be read in the loop at %s without updating the running maximum" % site_where(h), site_where(h))


def _closure_says_larger(ctx, b, sl, csite, tg, is_record_version):
    """The closure handed to is_none_or returns `captured > its parameter` (or the mirrored form), the captured value
    being the record's version."""
    prog = ctx.prog
    csl = Slicer(ctx.world, tg)
    # the captured operands, in the parent
    cap_ops = None
    for a in csite.term["args"][1:]:
        pl = place_of(a)
        if pl is None or pl["p"]:
            continue
        for (dbb, j, rv) in b.assignments().get(pl["l"], []):
            if j != "term" and rv["k"] == "agg" and rv.get("ak") == "closure":
                cap_ops = rv["ops"]
    if cap_ops is None:
        return False

    def side(op):
        lv = csl.leaves_of_operand(op)
        if len(lv) != 1:
            return None
        l = list(lv)[0]
        if l[0] == "upvar" and l[1] < len(cap_ops):
            return "record" if is_record_version(cap_ops[l[1]]) or _ref_of_record_version(ctx, b, sl, cap_ops[l[1]], is_record_version) else None
        if l[0] == "param" and l[1] >= 2:
            return "prev"
        return None
    for bb in tg.normal_blocks():
        for st in tg.stmts(bb):
            if st["k"] == "assign" and st["rv"]["k"] == "binop" and st["rv"]["op"] in ("Gt", "Ge", "Lt", "Le"):
                x, y = side(st["rv"]["a"]), side(st["rv"]["b"])
                if st["rv"]["op"] in ("Gt", "Ge") and x == "record" and y == "prev":
                    return True
                if st["rv"]["op"] in ("Lt", "Le") and x == "prev" and y == "record":
                    return True
        t = tg.blocks[bb]["term"]
        if t["k"] == "call":
            p = term_path(t)
            if p in ("std::cmp::PartialOrd::gt", "std::cmp::PartialOrd::ge", "std::cmp::PartialOrd::lt", "std::cmp::PartialOrd::le"):
                x, y = side(t["args"][0]), side(t["args"][1])
                if p.endswith(("::gt", "::ge")) and x == "record" and y == "prev":
                    return True
                if p.endswith(("::lt", "::le")) and x == "prev" and y == "record":
                    return True
    return False


def _ref_of_record_version(ctx, b, sl, op, is_record_version):
    """`&entry.version` captured by reference."""
    pl = place_of(op)
    if pl is None or pl["p"]:
        return False
    for (dbb, j, rv) in b.assignments().get(pl["l"], []):
        if j != "term" and rv["k"] == "ref":
            lv = sl.leaves_of_place(rv["place"])
            if lv and all(is_version_leaf(ctx, l) and l[0] == "call" for l in lv):
                return True
    return False


def append_apply_atomic(ctx, r):
    """An operation's append and its apply happen under one hold of the state write lock, so no snapshot
    (which needs that lock) can fall between them and claim a version whose effect it lacks."""
    from .c05 import restricted_must_entry as _rme
    L = ctx.locks
    live_reach = ctx.prog.reachable_bodies(ctx.live_roots())
    m_entry = _rme(ctx, ctx.live_roots())
    for name in ("WAL_WRITE", "INDEX_MUTATE"):
        for site in ctx.sem_sites(name):
            p = site.body.path
            if p not in live_reach or p not in m_entry:
                continue
            held = L.bl[p].held_before_term(site.bb)
            if held is None:
                continue
            m = m_entry[p] | held[1]
            r.check(("STATE", "w") in m, "%s-under-state-lock" % name, site.body,
                    "%s at %s under the state write lock" % (name, site_where(site)),
                    "%s at %s happens without the state write lock: a checkpoint can snapshot between this op's append "
                    "and its apply (held: %s)" % (name, site_where(site), sorted(m)), site_where(site))
