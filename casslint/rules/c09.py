"""C09 Power-loss durability in Sync mode: the sync-ordering protocol on all paths."""
from ..ctx import sem, sem_set
from . import modes, order
from .base import Rule, site_construct, site_where

PROP = "C09"


def rules(ctx, tier):
    out = []
    out.append(modes.rule_mode_premise(ctx, "R0"))
    must = ctx.must("sync")
    roots = ctx.live_roots()
    ENTRY = must.entry_sets(roots)
    ENTRY_all = must.entry_sets(ctx.api_roots())
    ENTRY_may = ctx.may.entry_sets(roots)

    r = Rule("R1", "staged blob: flush, then sync, then rename into CAS; no write after the sync",
             "power loss after the rename: the blob has its final name and lost bytes, and the put is "
             "then acknowledged")
    n = order.require_before(ctx, r, must, ENTRY, "BLOB_PUBLISH", ["STAGE_FLUSH", "STAGE_SYNC"])
    n2 = order.require_before(ctx, r, must, ENTRY, "STAGE_SYNC", ["STAGE_FLUSH"])
    order.require_not_before(ctx, r, ENTRY_may, "STAGE_WRITE", ["STAGE_SYNC", "BLOB_PUBLISH"])
    r.need(4, "1 BLOB_PUBLISH x2, 1 STAGE_SYNC, 1 STAGE_WRITE x2")
    out.append(r.finish())

    r = Rule("R2", "log record: write, flush, sync - all before the index is mutated / the call returns Ok",
             "an acknowledged operation is not on disk after power loss")
    order.require_before(ctx, r, must, ENTRY, "INDEX_MUTATE", ["WAL_WRITE", "WAL_FLUSH", "WAL_SYNC"])
    # every API entry point that can append to the log returns Ok only after the sync
    for root in roots:
        evs = ctx.may.all_events(root.path)
        if "WAL_WRITE" not in sem_set(e for e in evs if ctx._concrete(e)):
            continue
        must.summarize(root)
        ok = sem_set(must.summ_ok[root.path])
        mut = "INDEX_MUTATE" in sem_set(evs)
        if not mut:
            continue
        # Ok-return of a mutating entry point: either nothing was logged on this path, or it is synced
        r.check(("WAL_WRITE" not in ok) or ("WAL_SYNC" in ok and "WAL_FLUSH" in ok),
                "ok-return:synced", root,
                "Ok return of %s implies the record is flushed and synced" % root.path,
                "%s can return Ok with a log record written but not flushed+synced" % root.path,
                "%s:%d" % (root.file, root.line))
    r.need(6, "INDEX_MUTATE sites on the live path x3")
    out.append(r.finish())

    r = Rule("R3", "log synced before a dereferenced blob is unlinked",
             "the unlink (a directory operation) persists, the record that dereferenced the blob does "
             "not: after power loss a key references a missing blob")
    deref_unlinks = deref_unlink_sites(ctx)
    for site in deref_unlinks:
        S = must.at_site(ENTRY, site)
        if S is None:
            continue
        names = sem_set(S)
        for req in ("WAL_WRITE", "WAL_FLUSH", "WAL_SYNC", "APPLIED"):
            r.check(req in names, "%s@BLOB_UNLINK" % req, site.body,
                    "%s before the unlink at %s" % (req, site_where(site)),
                    "%s is not guaranteed before the blob unlink at %s" % (req, site_where(site)),
                    site_where(site), witness={"must_set": sorted(names)})
    r.need(4, "the unlink reached through the delete callback x4")
    out.append(r.finish())

    r = Rule("R4", "snapshot/settings: write, sync, then rename; index published before any segment is pruned",
             "an empty or short file appears under its final name, with the covered segments already gone")
    snapshot_protocol(ctx, r, must, ENTRY)
    order.require_before(ctx, r, must, ENTRY_all, "WAL_PRUNE", ["SNAP_PUBLISH:INDEX"])
    r.need(4, "rename site x2, publish sites, prune site")
    out.append(r.finish())

    r = Rule("R5", "no result of a flush/sync is discarded",
             "a failed sync is ignored and the operation is acknowledged")
    n = 0
    for e in ctx.fx.of_kind("FS_SYNC", "FS_FLUSH"):
        site = e.site
        if site.kind != "call":
            continue
        rf = must.rf(site.body)
        used = bool(rf.ok_edges_of(site.bb)) or any(
            isinstance(k, tuple) and k[1] == site.bb for k in rf.forwarded.values())
        n += 1
        exempt = site.body.is_closure and any(site.body.path == cl.path for (_, cl) in ctx.prog.spawned_closures())
        if exempt:
            r.note("sync in the background thread (Async mode only) at %s: result logged" % site_where(site))
            continue
        r.check(used, "result-of:%s" % site_construct(site), site.body,
                "result of %s at %s is inspected" % (site_construct(site), site_where(site)),
                "result of %s at %s is never inspected for Ok (discarded)" % (site_construct(site),
                                                                            site_where(site)),
                site_where(site))
    r.need(7, "flush/sync call sites")
    out.append(r.finish())
    return out


def deref_unlink_sites(ctx):
    """BLOB_UNLINK sites reachable through the `dyn Fn` delete callback (the ones whose operand is
    the list of hashes dereferenced by an index mutation); orphan clean-up unlinks are not."""
    prog = ctx.prog
    roots = [prog.bodies[c] for c in prog.dyn_fn_closures() if c in prog.bodies]
    reach = prog.reachable_bodies(roots)
    return [s for s in ctx.sem_sites("BLOB_UNLINK") if s.body.path in reach]


def snapshot_protocol(ctx, r, must, ENTRY):
    """Every rename onto a durable name (or onto a caller-chosen name) is preceded, on the same
    path class, by a write and a sync of the source."""
    n = 0
    for e in ctx.fx.of_kind("FS_RENAME"):
        raw = ctx.world.raw_event(e)
        _, c1, c2 = raw
        durable = (isinstance(c2, frozenset) and c2 and c2 <= frozenset(["INDEX", "SETTINGS"])) \
            or (isinstance(c2, tuple) and c2[0] == "P")
        if not durable:
            continue
        # only parameter-relative renames that are instantiated with durable names matter
        S = must.at_site({e.site.body.path: frozenset()}, e.site)
        if S is None:
            continue
        n += 1
        have_w = any(x[0] == "FS_WRITE" and x[1] == c1 for x in S)
        have_s = any(x[0] == "FS_SYNC" and x[1] == c1 for x in S)
        r.check(have_w, "write-before-rename", e.site.body,
                "temp file written before the rename at %s" % site_where(e.site),
                "the rename at %s is not preceded by a successful write of its source" % site_where(e.site),
                site_where(e.site))
        r.check(have_s, "sync-before-rename", e.site.body,
                "temp file synced (after its last write) before the rename at %s" % site_where(e.site),
                "the rename at %s is not preceded by a successful sync of its source after the last write"
                % site_where(e.site), site_where(e.site))
    # and the durable names are really produced through it
    for name in ("SNAP_PUBLISH:INDEX", "SNAP_PUBLISH:SETTINGS"):
        sites = ctx.sem_sites(name)
        r.check(len(sites) >= 1, "publish-site:%s" % name, None, "%d instantiation(s) of %s" % (len(sites), name),
                "no site publishes %s by rename" % name)
    return n
