"""C05 Reads and writes are atomic under concurrency: read-path lockset, write-path serialisation."""
from ..ctx import sem, sem_set
from .base import Rule, site_construct, site_where, stable_path

PROP = "C05"


def read_roots(ctx):
    """API roots that can open a blob for reading but can never change the index: get, get_range,
    get_reader (found by effect)."""
    out = []
    for r in ctx.live_roots():
        names = sem_set(e for e in ctx.may.all_events(r.path) if ctx._concrete(e))
        if "BLOB_OPEN" in names and "INDEX_MUTATE" not in names and "BLOB_UNLINK" not in names:
            out.append(r)
    return out


def lookup_roots(ctx):
    out = []
    for r in ctx.live_roots():
        names = sem_set(e for e in ctx.may.all_events(r.path) if ctx._concrete(e))
        if "INDEX_READ" in names and "INDEX_MUTATE" not in names and not (names & {"BLOB_UNLINK"}):
            out.append(r)
    return out


def rules(ctx, tier):
    out = []
    L = ctx.locks
    prog = ctx.prog
    rroots = read_roots(ctx)

    r = Rule("R1", "a blob is opened for reading only while something still pins it (the index read guard that "
                   "produced the hash, or the intents lock)",
             "reader looks the hash up, a writer repoints the key and unlinks the old blob, the reader's open "
             "fails: a read of a key that was present throughout returns BlobDataMissing")
    reach = prog.reachable_bodies(rroots)
    # entry locksets restricted to the read API (context = chains from the read roots only)
    must_entry = restricted_must_entry(ctx, rroots)
    n = 0
    for site in ctx.sem_sites("BLOB_OPEN"):
        p = site.body.path
        if p not in reach or p not in must_entry:
            continue
        held = L.bl[p].held_before_term(site.bb)
        if held is None:
            continue
        m = must_entry[p] | held[1]
        n += 1
        pinned = any(c == "STATE" for c, _ in m) or any(c == "INTENTS" or c.startswith("INTENTS") for c, _ in m)
        r.check(pinned, "open:%s" % site_construct(site), site.body,
                "blob open at %s happens under %s" % (site_where(site), sorted(m)),
                "blob open at %s (reached from %s) happens with no lock held: the index guard that produced the "
                "hash has been released" % (site_where(site), ", ".join(b.path.split("::")[-1] for b in rroots)),
                site_where(site), witness={"must_held": sorted(m), "read_roots": [b.path for b in rroots]})
    r.check(len(rroots) >= 3, "read-roots", None, "read entry points: %s" % ", ".join(b.path for b in rroots),
            "expected at least 3 blob-reading entry points, found %d" % len(rroots))
    r.need(2, "the blob open site on the read path + root anchor")
    out.append(r.finish())

    r = Rule("R2", "one descriptor per read", "two opens by path straddle a repoint: bytes of two contents are mixed")
    ENTRY_may = ctx.may.entry_sets(rroots)
    for site in ctx.sem_sites("BLOB_OPEN"):
        if site.body.path not in reach:
            continue
        S = ctx.may.before_site(ENTRY_may, site)
        if S is None:
            continue
        r.check("BLOB_OPEN" not in sem_set(S), "single-open:%s" % site_construct(site), site.body,
                "no earlier blob open can precede the one at %s" % site_where(site),
                "a second blob open at %s may follow an earlier one in the same read" % site_where(site),
                site_where(site))
    # metadata-only reads never touch the blob
    for b in ctx.live_roots():
        names = sem_set(e for e in ctx.may.all_events(b.path) if ctx._concrete(e))
        if "INDEX_READ" in names and "BLOB_OPEN" not in names and b.path.endswith("get_size"):
            r.ok("no-io:%s" % b.path.split("::")[-1], b, "%s uses index metadata only" % b.path)
    r.need(1, "the blob open site")
    out.append(r.finish())

    r = Rule("R3", "the key map is mutated only under the state write lock and read only under the state lock",
             "a reader observes a half-applied operation, or a returned put is not yet visible")
    live = prog.reachable_bodies(ctx.live_roots())
    m_entry = restricted_must_entry(ctx, ctx.live_roots())
    for cu in ctx.world.container_uses:
        role = sem(("CONT", cu.field, cu.method, cu.mutable))
        if not (role & {"INDEX_MUTATE", "INDEX_READ", "REFCNT_MUTATE", "REFCNT_READ"}):
            continue
        p = cu.site.body.path
        if p not in live or p not in m_entry:
            continue
        held = L.bl[p].held_before_term(cu.site.bb)
        if held is None:
            continue
        m = m_entry[p] | held[1] | frozenset(ctx.world.through_guard(cu.site.body, cu.site.term["args"][0]))
        need_w = bool(role & {"INDEX_MUTATE", "REFCNT_MUTATE"})
        ok = any(c == "STATE" and (mode == "w" or not need_w) for c, mode in m)
        if not ok and _on_private_value(ctx, cu):
            r.note("%s acts on a value that is not shared yet" % cu.describe())
            continue
        r.check(ok, "%s:%s.%s" % ("mutate" if need_w else "read", cu.field[2], cu.method), cu.site.body,
                "%s under %s" % (cu.describe(), sorted(m)),
                "%s happens without the state %s lock (held: %s)" % (cu.describe(), "write" if need_w else "read",
                                                                    sorted(m)), site_where(cu.site))
    r.need(8, "key map / refcount accesses on the live path")
    out.append(r.finish())

    r = Rule("R4", "log order is apply order: append and apply happen under one hold of {state(w), wal}",
             "two writers append in one order and apply in the other: replay yields a different final value")
    for name in ("WAL_WRITE", "INDEX_MUTATE"):
        for site in ctx.sem_sites(name):
            p = site.body.path
            if p not in live or p not in m_entry:
                continue
            held = L.bl[p].held_before_term(site.bb)
            if held is None:
                continue
            m = m_entry[p] | held[1]
            ok = ("STATE", "w") in m and ("WAL", "w") in m
            r.check(ok, "%s-under-both" % name, site.body,
                    "%s at %s under %s" % (name, site_where(site), sorted(m)),
                    "%s at %s is not under both the state write lock and the WAL lock (held: %s)" % (
                        name, site_where(site), sorted(m)), site_where(site))
    # no release between append and apply: the body that does both keeps both guards (they are parameters
    # or guards held across)
    for b in prog.bodies.values():
        evs = [s for s in b.calls()]
        app = [s for s in evs if "WAL_WRITE" in sem_set(e for e in ctx.may.site_events(s) if ctx._concrete(e))
               and "INDEX_MUTATE" not in sem_set(ctx.may.site_events(s))]
        apl = [s for s in evs if "INDEX_MUTATE" in sem_set(ctx.may.site_events(s))
               and "WAL_WRITE" not in sem_set(e for e in ctx.may.site_events(s) if ctx._concrete(e))]
        if not app or not apl or b.path not in live:
            continue
        # between them no lock release of STATE/WAL in this body
        from .. import cfgutil
        for a in app:
            for c in apl:
                between = cfgutil.reach(b, a.bb) & _can_reach(b, c.bb)
                rel = []
                for x in between:
                    t = b.blocks[x]["term"]
                    if t["k"] == "drop" and t["place"]["l"] in L.bl[b.path].guard_locals:
                        rel.append(x)
                r.check(not rel, "no-release-between", b,
                        "no guard is released between append (%s) and apply (%s) in %s" % (
                            site_where(a), site_where(c), b.path),
                        "a lock guard is released between append (%s) and apply (%s)" % (site_where(a), site_where(c)))
    r.need(5, "append / apply sites")
    out.append(r.finish())
    # a write that has returned is visible to every later read: its Ok return lies behind the apply step (the
    # necessary half of linearizability that is a shape of the code; shared with C01-R1)
    from . import c01
    shared = dict((x.rid, x) for x in c01.rules(ctx, tier))
    x = shared.get("R1")
    if x is not None:
        x.rid = "R5"
        x.title = "a write that returned Ok has been applied to the index (shared with C01-R1)"
        x.scenario = ("put() returns Ok while its effect is still pending in another writer (or is dropped): a later "
                      "get returns the old value - no sequential order explains the history")
        for o in x.obs:
            o.scenario = x.scenario
        out.append(x)
    # ... and stays visible: nothing unlinks the blob of a commit that is in flight or has returned, i.e. every blob
    # unlink happens under the intents (protocol) lock, where live intents and reference counts are consulted
    # (shared with C04-R1)
    from . import c04
    shared4 = dict((x.rid, x) for x in c04.rules(ctx, tier))
    x = shared4.get("R1")
    if x is not None:
        x.rid = "R6"
        x.title = "no blob is unlinked outside the intents protocol lock (shared with C04-R1)"
        x.scenario = ("a writer's error path (or a clean-up) unlinks a blob while another writer of the same content is "
                      "between publish and apply: that put returns Ok and every later get fails with 'blob missing' - "
                      "a put that returned is not seen")
        for o in x.obs:
            o.scenario = x.scenario
        out.append(x)
    out.append(one_snapshot_per_read(ctx, rroots))
    return out


def one_snapshot_per_read(ctx, rroots):
    """What a read answers is cut from one version: size, hash and bytes come from ONE look at the index (one hold of
    the state read lock).  Two lookups, each atomic on its own, let an overwrite slip in between them."""
    from .. import cfgutil, effects
    prog = ctx.prog
    r = Rule("R7", "one snapshot per read: a read entry point takes the state read lock once - everything it answers "
                   "comes from that one look at the index",
             "get_range takes the length from a first lookup and the bytes from a second: an overwrite with a longer "
             "value in between yields V2[s..len(V1)] - bytes of no version")
    for root in rroots:
        V = ctx.flat(root)
        acq = [s for s in V.calls() if (s.path or "") in effects.LOCK_ACQ and effects.LOCK_ACQ[s.path][0] == "read"
               and not V.blocks[s.bb].get("cleanup")]
        # acquisitions of the state lock (the guard type mentions the state)
        state = ctx.anchors.get("STATE")
        acq = [s for s in acq if state and state.split("::")[-1] in prog.ty_str(V.locals[s.term["dest"]["l"]])]
        # ... and calls of functions that are not part of the view (another API function, say) which take it themselves
        for s in V.calls():
            if V.blocks[s.bb].get("cleanup"):
                continue
            for (tg, how) in prog.call_targets(V.orig_site(s)):
                if how in ("direct", "param") and any(a_[0][0] == "STATE" for a_ in ctx.locks.acquires(tg.path)):
                    acq.append(s)
                    break
        twice = [(a, b) for a in acq for b in acq if a.bb != b.bb and a.term.get("t") is not None
                 and b.bb in cfgutil.reach(V, a.term["t"])]
        r.check(bool(acq) and not twice, "one-look:%s" % root.path.split("::")[-1], root,
                "%s takes the state read lock once (%s)" % (root.path, ", ".join(site_where(s) for s in acq)),
                "%s looks at the index twice in one call (%s): the two looks can see different versions of the key" % (
                    root.path, "; ".join("%s then %s" % (site_where(a), site_where(b)) for a, b in twice[:2])
                    if twice else "no acquisition of the state lock found"))
    r.need(2, "read entry points")
    return r.finish()


def _can_reach(body, target):
    seen = set()
    work = [target]
    while work:
        x = work.pop()
        if x in seen:
            continue
        seen.add(x)
        work.extend(body.preds(x))
    return seen


def _on_private_value(ctx, cu):
    """Is the receiver a local/owned value (not reached through a lock guard or &self of the shared
    owner)? True when the root place is a plain local that is not a parameter."""
    b = cu.site.body
    root = ctx.world.root_place(b, cu.site.term["args"][0])
    if root is None:
        return False
    l = root["l"]
    if 1 <= l <= b.argc:
        return False
    # a local of the state type built in this body
    d, _ = ctx.prog.adt_of(b.locals[l])
    return d == ctx.anchors.get("STATE") and ctx.prog.types[b.locals[l]].get("k") == "adt"


def restricted_must_entry(ctx, roots):
    """Must-held entry locksets computed over call chains that start at the given roots only."""
    import collections
    L = ctx.locks
    prog = ctx.prog
    must = {r.path: frozenset() for r in roots}
    rootset = set(must)
    work = collections.deque(must.keys())
    while work:
        p = work.popleft()
        body = prog.bodies[p]
        bl = L.bl[p]
        for site in body.sites():
            held = bl.held_before_term(site.bb)
            if held is None:
                continue
            m2 = must[p] | held[1]
            for tgt in L._site_targets(site):
                q = tgt.path
                if q in rootset:
                    continue
                if q not in must:
                    must[q] = m2
                    work.append(q)
                else:
                    new = must[q] & m2
                    if new != must[q]:
                        must[q] = new
                        work.append(q)
    return must
