"""C20 On-disk log and snapshot well-formed at every instant: append-only, provenance, confinement."""
from .. import cfgutil, effects
from ..core import Site, term_path, FN_TRAIT_CALLS
from ..ctx import sem, sem_set
from ..prov import Slicer, fmt_leaf
from ..vfg import place_of
from . import c03, c14, order
from .base import Rule, site_construct, site_where, stable_path

PROP = "C20"


def rules(ctx, tier):
    out = []
    prog = ctx.prog
    must = ctx.must(None)
    A = ctx.anchors
    walmgr = A.get("WALMGR")

    r = Rule("R1", "append-only: segments are opened {create,append} or {read}; no seek/truncate/positional write on a log handle",
             "a record in the middle of a segment is overwritten or the segment is cut: acknowledged versions vanish")
    for e in ctx.fx.effects:
        if "WAL" not in e.classes:
            continue
        if e.kind == "FS_OPEN":
            m = e.mode or set()
            if m <= {"create", "append"} and "append" in m:
                r.ok("open:append", e.site.body, "segment opened %s at %s" % (sorted(m), site_where(e.site)))
            elif m == {"read"}:
                r.ok("open:read", e.site.body, "segment opened read-only at %s" % site_where(e.site))
            elif "truncate" in m:
                r.check(c03.guarded_by_not_exists(ctx, e.site), "open:create-if-absent", e.site.body,
                        "truncating create at %s only when the segment does not exist" % site_where(e.site),
                        "segment opened with %s at %s without an existence check" % (sorted(m), site_where(e.site)),
                        site_where(e.site))
            else:
                r.bad("open:%s" % "+".join(sorted(m)), e.site.body,
                      "segment opened with mode %s at %s (not append-only)" % (sorted(m), site_where(e.site)), site_where(e.site))
        elif e.kind in ("FS_SEEK", "FS_TRUNCATE", "FS_WRITE_AT", "FS_WRITEFILE", "FS_COPY", "FS_RENAME"):
            r.bad("%s" % e.kind, e.site.body, "%s on a log segment at %s" % (e.kind, site_where(e.site)), site_where(e.site))
    r.need(3, "segment open sites")
    out.append(r.finish())

    r = Rule("R2", "version counter: set only by the constructor, the allocator (previous+1) and after replay (max seen+1)",
             "a version is reused after a restart: two different operations share a version and one shadows the other")
    c14.version_counter(ctx, r)
    r.need(2, "counter writes")
    out.append(r.finish())

    r = Rule("R3", "a record carries the allocated version and goes to the segment computed from that version",
             "a record lands in a segment whose range does not contain its version: prune-by-segment drops live records")
    record_placement(ctx, r, walmgr)
    r.need(4, "version, checksum, segment comparison, writer opened for the target segment")
    out.append(r.finish())

    r = Rule("R4", "complete records only: one write per record (C03-R4); the checksum written is the hash of the payload written",
             "a torn record or a record whose checksum covers other bytes: the next open fails")
    c03.writes_per_flush(ctx, r)
    out.append(r.finish())

    r = Rule("R5", "prune only what the snapshot covers: the bound is the segment of the version just saved, and a "
                   "segment is unlinked only if its id is below the bound",
             "the segment that still holds un-snapshotted versions is deleted")
    prune_bound(ctx, r, walmgr)
    order.require_before(ctx, r, must, must.entry_sets(ctx.api_roots()), "WAL_PRUNE", ["SNAP_PUBLISH:INDEX"])
    r.need(3, "bound, comparison, order")
    out.append(r.finish())

    r = Rule("R6", "the end marker (all-zero header) is written only when a segment is sealed at roll-over, and is flushed and synced",
             "a marker in the middle of the live segment hides every record after it")
    sentinel(ctx, r, must)
    r.need(3, "marker write site, its flush+sync, its only caller")
    out.append(r.finish())

    r = Rule("R7", "only the log/IO layer writes log and snapshot files",
             "another module appends bytes that are not framed records")
    mods = {}
    for e in ctx.fx.effects:
        if e.site.kind != "call" or e.kind not in ("FS_WRITE", "FS_WRITEFILE", "FS_WRITE_AT"):
            continue
        if e.classes & {"WAL", "INDEX", "INDEX_TMP", "SETTINGS", "SETTINGS_TMP"}:
            mods.setdefault(e.site.body.module, []).append(e)
    allowed = None
    for m, es in sorted(mods.items()):
        cls = set().union(*[e.classes for e in es])
        # WAL writes: the module that also opens segments; snapshot writes: the module that renames temp files
        opens_wal = any(e2.kind == "FS_OPEN" and "WAL" in e2.classes and e2.site.body.module == m for e2 in ctx.fx.effects)
        renames = any(e2.kind == "FS_RENAME" and e2.site.body.module == m for e2 in ctx.fx.effects)
        okm = ("WAL" in cls and opens_wal) or (cls & {"INDEX_TMP", "SETTINGS_TMP"} and renames and "WAL" not in cls)
        r.check(bool(okm), "writer-module:%s" % m, es[0].site.body,
                "module %s writes %s (%d site(s)) and owns the corresponding open/rename" % (m, sorted(cls), len(es)),
                "module %s writes %s at %s but does not own the open/rename of those files" % (
                    m, sorted(cls), site_where(es[0].site)), site_where(es[0].site))
    r.need(2, "modules writing log / snapshot files")
    out.append(r.finish())

    # versions are never reused across restarts: the version the next operation gets is above everything persisted,
    # including a snapshot whose log has been pruned to nothing
    from . import c02
    from .base import share_rule
    x = share_rule(ctx, tier, c02, "R7", "R8",
                   "after replay the next version is above the maximum of the snapshot version and every record seen "
                   "(shared with C02-R7)",
                   "the replayer forgets the snapshot's version when the log is empty: version 1 is handed out again, the "
                   "record is written, acknowledged, and skipped as 'already checkpointed' by every later open")
    if x is not None:
        out.append(x)
    # a record's version lies in its segment's range only if every open uses the segment size the log was written with
    from . import c19
    x = share_rule(ctx, tier, c19, "R1", "R9",
                   "the segment size in use is the stored one: a configured value that differs from the stored one ends the "
                   "open before anything is touched (shared with C19-R1)",
                   "a database written with 4 operations per segment is reopened with the default: new records land in "
                   "segment files whose range they are not in, next to older records with higher versions")
    if x is not None:
        out.append(x)
    return out


def manager_views(ctx, walmgr):
    """Flat views of the WAL manager's methods with the manager's own private helpers inlined (ensure-writer,
    roll-over ...); the allocator, the segment arithmetic and the methods of other types stay calls.
    Returns ([(method, view)], paths inlined into some view)."""
    from .. import flat as flatmod
    prog = ctx.prog
    cache = ctx.__dict__.setdefault("_c20_views", {})
    if walmgr in cache:
        return cache[walmgr]
    counter_writers = set(fw.body.path for fw in ctx.world.field_writes
                          if fw.field[1] == walmgr and "NonZero" in prog.ty_str(ctx.world._field_ty(fw.field)))

    def policy(site, tgt, how):
        if how == "param" or (how == "direct" and tgt.is_closure):
            return True
        if how != "direct" or tgt.reachable:
            return False
        if tgt.argc < 1 or prog.adt_of(tgt.locals[1])[0] != walmgr:
            return False
        if tgt.path in counter_writers or prog.ty_str(tgt.locals[0]) == "u64":
            return False
        return True
    inlined_somewhere = set()
    views = []
    for b0 in prog.bodies.values():
        if b0.argc < 1 or prog.adt_of(b0.locals[1])[0] != walmgr or b0.is_closure:
            continue
        V0 = flatmod.flatten(prog, b0, policy, 3)
        views.append((b0, V0))
        inlined_somewhere |= V0.inlined
    cache[walmgr] = (views, inlined_somewhere)
    return cache[walmgr]


def record_placement(ctx, r, walmgr):
    prog = ctx.prog
    prog.__dict__["_walmgr_adt"] = walmgr
    views, inlined_somewhere = manager_views(ctx, walmgr)
    for (b0, b) in views:
        if b0.path in inlined_somewhere:
            continue        # judged as part of its caller's view
        writes = [s for s in b.calls() if prog.local_target(s) is not None and
                  "WAL_WRITE" in sem_set(e for e in ctx.may.site_events(s) if ctx._concrete(e)) and
                  "WAL_SYNC" in sem_set(e for e in ctx.may.site_events(s) if ctx._concrete(e)) and
                  len(s.term["args"]) >= 3]
        if not writes:
            continue
        sl = Slicer(ctx.world, b, follow_local=False)
        for w in writes:
            tgt = prog.local_target(w)
            # classify the arguments of the record writer by type
            ver = data = hsh = None
            for i, a in enumerate(w.term["args"]):
                pl = place_of(a)
                if pl is None:
                    continue
                ts = prog.ty_str(b.locals[pl["l"]]) if not pl["p"] else ""
                if "NonZero" in ts:
                    ver = a
                elif ts == prog.ty_str(ctx.anchors.get("HASH_TY")):
                    hsh = a
                elif "[u8]" in ts:
                    data = a
            if ver is None or data is None:
                continue
            lv = sl.leaves_of_operand(ver)
            alloc = [l for l in lv if l[0] == "call"]
            ok = len(lv) == 1 and len(alloc) == 1
            if ok:
                t = b.blocks[alloc[0][2]]["term"]
                at = prog.local_target(Site(b, alloc[0][2], t))
                ok = at is not None and any(fw.body.path == at.path for fw in ctx.world.field_writes
                                            if fw.field[1] == walmgr and "NonZero" in prog.ty_str(ctx.world._field_ty(fw.field)))
            r.check(ok, "record-version", b,
                    "the version written at %s is the one just allocated (%s)" % (site_where(w), ", ".join(fmt_leaf(l) for l in lv)),
                    "the version written at %s has origins %s (expected: the allocator's result)" % (
                        site_where(w), sorted(fmt_leaf(l) for l in lv)), site_where(w))
            ld = sl.leaves_of_operand(data)
            if hsh is not None:
                lh = sl.leaves_of_operand(hsh)
                hash_of = set()
                for l in lh:
                    if l[0] == "call":
                        t = b.blocks[l[2]]["term"]
                        for a in t["args"]:
                            hash_of |= sl.leaves_of_operand(a)
            else:
                # the record writer computes the checksum itself: in its body, the hash-typed value comes from one call
                # on the payload parameter
                tv = ctx.flat(tgt)
                tsl = Slicer(ctx.world, tv, follow_local=False)
                dpar = [i for i in range(1, tv.argc + 1) if "[u8]" in prog.ty_str(tv.locals[i])]
                hcalls = [s2 for s2 in tv.calls() if prog.ty_str(tv.locals[s2.term["dest"]["l"]]) == prog.ty_str(
                    ctx.anchors.get("HASH_TY")) and not s2.term["dest"]["p"]]
                lh = set(("call", s2.path, s2.bb, ()) for s2 in hcalls)
                hash_of = set()
                good = len(dpar) == 1 and len(hcalls) == 1
                if good:
                    inner = set()
                    for a in hcalls[0].term["args"]:
                        inner |= tsl.leaves_of_operand(a)
                    good = bool(inner) and all(x[0] == "param" and x[1] == dpar[0] and not x[2] for x in inner)
                hash_of = set(ld) if good else set()
            r.check(bool(hash_of) and hash_of == ld and len(lh) == 1, "record-checksum", b,
                    "the checksum written at %s is the hash of the payload written (%s)" % (
                        site_where(w), ", ".join(fmt_leaf(l) for l in ld)),
                    "the checksum written at %s is the hash of %s but the payload is %s" % (
                        site_where(w), sorted(fmt_leaf(l) for l in hash_of), sorted(fmt_leaf(l) for l in ld)), site_where(w))
            # the target segment: a call f(version) whose result (a) is compared with the writer's segment id and
            # (b) is the id the new writer is opened for
            segcalls = []
            for s in b.calls():
                t2 = prog.local_target(s)
                if t2 is None or prog.ty_str(t2.locals[0]) != "u64" or len(s.term["args"]) < 2:
                    continue
                la = set()
                for a in s.term["args"][1:]:
                    la |= sl.leaves_of_operand(a)
                if la and la <= lv | set((x[0], x[1], x[2], ()) for x in lv if x[0] == "call"):
                    segcalls.append(s)
                elif any(l[0] == "call" and any(l[2] == x[2] for x in alloc) for l in la):
                    segcalls.append(s)
            r.check(len(segcalls) >= 1, "segment-of-version", b,
                    "the target segment is computed from the allocated version (%s)" % ", ".join(site_where(s) for s in segcalls),
                    "no segment id is computed from the allocated version in %s" % b.path)
            if not segcalls:
                continue
            seg_locs = set((b.path, s.bb) for s in segcalls)

            def loc(body, l):
                return l[2] if isinstance(l[2], tuple) else (body.path, l[2])
            # the decision and the open may sit in a private helper or a closure of this body: look through all of
            # them, tracing helper parameters and captured variables back to this body
            # (closures handed to extern combinators are not inlined: they stay part of the scope)
            scope = [b] + [prog.bodies[p] for p in sorted(prog.reachable_bodies([b0])) if prog.bodies[p].is_closure
                           and p not in b.inlined]
            # ... and private deciding helpers that are not part of the view (`Placement::decide(writer, target)`:
            # answers with a bool or a fieldless enum)
            for s in b.calls():
                t3 = prog.local_target(s)
                if t3 is None or t3.reachable or t3.is_closure or t3.path in b.inlined or t3 in scope:
                    continue
                rt = prog.types[t3.locals[0]]
                ra = prog.adts.get(rt.get("def")) if rt.get("k") == "adt" else None
                if rt.get("k") == "bool" or prog.ty_str(t3.locals[0]) == "bool" or (
                        ra and ra["kind"] == "Enum" and all(not v["fields"] for v in ra["variants"])):
                    scope.append(t3)
            # (b) open_writer(seg)
            n_open = 0
            for sb in scope:
                ssl = Slicer(ctx.world, sb, follow_local=False)
                opens = [s for s in sb.calls() if prog.local_target(s) is not None and
                         any(e.kind == "FS_OPEN" and "WAL" in e.classes and e.site.body.path in
                             prog.reachable_bodies([prog.local_target(s)]) for e in ctx.fx.effects) and
                         "WAL_WRITE" not in sem_set(e for e in ctx.may.site_events(s) if ctx._concrete(e)) and
                         prog.adt_of(sb.locals[place_of(s.term["args"][0])["l"]])[0] != walmgr
                         if s.term["args"] and place_of(s.term["args"][0]) is not None]
                for o in opens:
                    la = set()
                    for a in o.term["args"][1:]:
                        la |= ssl.leaves_up(a, depth=4)
                    if not la:
                        continue
                    n_open += 1
                    r.check(any(l[0] == "call" and loc(sb, l) in seg_locs for l in la) and len(la) == 1,
                            "writer-for-target-segment", sb,
                            "the writer opened at %s is for the segment of the allocated version" % site_where(o),
                            "the writer opened at %s is for segment %s, not the one computed from the version" % (
                                site_where(o), sorted(fmt_leaf(l) for l in la)), site_where(o))
            # (a) roll-over decision compares writer.segment_id with the target segment
            cmp_ok = False
            for sb in scope:
                ssl = Slicer(ctx.world, sb)
                for bb2 in sb.normal_blocks():
                    cands = [(st["rv"]["a"], st["rv"]["b"]) for st in sb.stmts(bb2)
                             if st["k"] == "assign" and st["rv"]["k"] == "binop" and st["rv"]["op"] in ("Ne", "Eq")]
                    tt = sb.blocks[bb2]["term"]
                    if tt["k"] == "call" and term_path(tt) in ("std::cmp::PartialEq::eq", "std::cmp::PartialEq::ne") \
                            and len(tt["args"]) == 2:
                        cands.append((tt["args"][0], tt["args"][1]))      # e.g. Option<u64> == Some(target)
                    for (ca, cb_) in cands:
                        sides = [ssl.leaves_up(ca, depth=4), ssl.leaves_up(cb_, depth=4)]
                        local = [ssl.leaves_of_operand(ca), ssl.leaves_of_operand(cb_)]
                        for x, y in ((0, 1), (1, 0)):
                            # (the writer's side may be a field of this very function's manager parameter)
                            if bool(sides[x]) and all(l[0] == "call" and loc(sb, l) in seg_locs for l in sides[x]) and \
                                    bool(local[y]) and all(_of_writer(ctx, ssl, l) for l in local[y]):
                                cmp_ok = True
                        for x, y in ((0, 1), (1, 0)):
                            tgt_side = bool(sides[x]) and all(l[0] == "call" and loc(sb, l) in seg_locs for l in sides[x])
                            wr_side = bool(sides[y]) and all(_of_writer(ctx, ssl, l) for l in sides[y])
                            if tgt_side and wr_side:
                                cmp_ok = True
            r.check(cmp_ok, "rollover-compare", b,
                    "roll-over is decided by comparing the active writer's segment with the target segment",
                    "cannot find the comparison between the active writer's segment id and the target segment in %s "
                    "(or its helpers)" % b.path)


def _of_writer(ctx, sl, l):
    """The leaf is a value read from a buffered segment writer: a field of it, or the result of one of its methods."""
    prog = ctx.prog
    from .c14 import owns_bufwriter
    if l[0] == "call":
        t = sl.call_at(l[2])
        body = sl.body_at(l[2])
        if not t["args"]:
            return False
        pl = place_of(t["args"][0])
        return pl is not None and owns_bufwriter(prog, ctx.world._place_ty(body, pl))
    if l[0] == "param" and l[2]:
        return _field_owns_bufwriter(prog, sl.body.locals[l[1]], l[2])
    if l[0] == "xparam" and l[2]:
        return _field_owns_bufwriter(prog, prog.bodies[l[1][0]].locals[l[1][1]], l[2])
    return False


def _field_owns_bufwriter(prog, ty, path):
    """The value is read out of a buffered writer: the root is one, or the first field on the way (of the manager, say)
    holds one."""
    from .c14 import owns_bufwriter
    d, _ = prog.adt_of(ty)
    a = prog.adts.get(d)
    if a is not None and a["kind"] == "Struct" and path and d == prog.__dict__.get("_walmgr_adt"):
        for f in a["variants"][0]["fields"]:
            if f["name"] == path[0]:
                return owns_bufwriter(prog, f["ty"])
    return owns_bufwriter(prog, ty)


def _pipeline_root(ctx, b):
    """From the body of an unlink up to the function that builds what is unlinked: through the closure it sits in (to
    the function that writes the closure) and through private helpers with one caller."""
    from ..prov import _closure_sites
    prog = ctx.prog
    cur = b
    for _ in range(5):
        if cur.is_closure:
            cs = _closure_sites(prog, cur.path)
            if len(cs) != 1:
                break
            cur = cs[0][0]
            continue
        if cur.reachable:
            break
        callers = [cs for (cs, how) in prog.callers_index().get(cur.path, []) if how in ("direct", "param")]
        if len(callers) != 1 or cur.argc < 1:
            break
        # stop at the function that is handed the bound (a plain integer parameter) rather than the segments
        if any(prog.ty_str(cur.locals[i]) == "u64" for i in range(1, cur.argc + 1)) and cur is not b:
            break
        cur = callers[0].body
    return cur


def _pipeline_guard(ctx, V, fs, root):
    """The unlink occurrence `fs` of view V lies in a loop over an iterator that went through
    `.filter(|seg| seg.id < bound)` with `bound` a parameter of the view's function."""
    from . import c04
    sl = Slicer(ctx.world, V)
    nexts = [s for s in V.calls() if (s.path or "").endswith("Iterator::next") and V.dominates(s.bb, fs.bb)
             and s.term["args"]]
    for h in nexts:
        filters, _start = c04._filter_chain(ctx, V, sl, h.term["args"][0])
        for fc in filters:
            fsl = Slicer(ctx.world, fc)
            rl = fsl.leaves_of_place({"l": 0, "p": []})
            for bb2 in fc.normal_blocks():
                for st in fc.stmts(bb2):
                    if not (st["k"] == "assign" and st["rv"]["k"] == "binop" and st["rv"]["op"] in ("Lt", "Gt")):
                        continue
                    a_, b__ = st["rv"]["a"], st["rv"]["b"]
                    if st["rv"]["op"] == "Gt":
                        a_, b__ = b__, a_
                    la_ = fsl.leaves_of_operand(a_)
                    item_field = bool(la_) and all(l[0] == "param" and l[1] >= 2 and l[2] for l in la_)
                    if not (item_field and any(l[0] == "binop" and l[2] == bb2 for l in rl)):
                        continue
                    for depth in (1, 2, 3):
                        lb_ = fsl.leaves_up(b__, depth=depth)
                        if lb_ and all(l[0] == "xparam" and not l[2] and l[1][0] == root.path for l in lb_):
                            return True
    return False


def prune_bound(ctx, r, walmgr):
    prog = ctx.prog
    for e in ctx.fx.of_kind("FS_UNLINK"):
        if not (e.classes <= {"WAL", "DIRSCAN:DB_ROOT"} and e.classes):
            continue
        b = e.site.body
        sl = Slicer(ctx.world, b)
        # dominated by the true edge of `id < bound` with bound a parameter
        ok = False
        owner = b
        if b.is_closure:
            # the unlink sits in a closure fed by an iterator pipeline (`.filter(|s| s.id < bound).try_fold(..)`): the
            # guard is the predicate of a filter step in front of it, its bound a captured parameter of the owner
            from . import c04
            for (cs0, how0) in prog.callers_index().get(b.path, []):
                if how0 != "extern-cb":
                    continue
                owner = cs0.body
                osl = Slicer(ctx.world, owner)
                filters, _start = c04._filter_chain(ctx, owner, osl, cs0.term["args"][0])
                for fc in filters:
                    fsl = Slicer(ctx.world, fc)
                    for bb2 in fc.normal_blocks():
                        for st in fc.stmts(bb2):
                            if not (st["k"] == "assign" and st["rv"]["k"] == "binop" and st["rv"]["op"] in ("Lt", "Gt")):
                                continue
                            a_, b__ = st["rv"]["a"], st["rv"]["b"]
                            if st["rv"]["op"] == "Gt":
                                a_, b__ = b__, a_
                            la_ = fsl.leaves_of_operand(a_)
                            lb_ = fsl.leaves_up(b__, depth=1)      # captured variable -> the owner's parameter
                            item_field = bool(la_) and all(l[0] == "param" and l[1] >= 2 and l[2] for l in la_)
                            bound_param = bool(lb_) and all(l[0] in ("xparam", "param") and not l[2] for l in lb_) and \
                                any(l[0] == "xparam" and l[1][0] == owner.path for l in lb_)
                            # the closure's value is this comparison
                            rl = fsl.leaves_of_place({"l": 0, "p": []})
                            if item_field and bound_param and any(l[0] == "binop" and l[2] == bb2 for l in rl):
                                ok = True
        # the id of a discovered segment: a u64 field of a crate struct that also holds the segment's path
        idn = set(f["name"] for a in prog.adts.values() if a["kind"] == "Struct" and
                  any("std::path::PathBuf" in prog.ty_str(f2["ty"]) for f2 in a["variants"][0]["fields"])
                  for f in a["variants"][0]["fields"] if prog.ty_str(f["ty"]) == "u64")
        for sw in b.normal_blocks():
            c = cfgutil.cmp_true_edge(b, sw)
            if c is None or c[0] not in ("Lt", "Gt", "Le", "Ge"):
                continue
            op, x, y, t_true, t_false = c
            lx = sl.leaves_of_operand(x)
            ly = sl.leaves_of_operand(y)
            lt_ok = (op == "Lt" and any(l[0] == "param" for l in ly) and any(l[-1] and l[-1][-1] in idn for l in lx)) or \
                    (op == "Gt" and any(l[0] == "param" for l in lx) and any(l[-1] and l[-1][-1] in idn for l in ly))
            if lt_ok and cfgutil.edge_dominates(b, (sw, t_true), e.site.bb):
                ok = True
            # `if id >= bound { continue }`: the unlink lies behind the false edge
            ge_ok = (op == "Ge" and any(l[0] == "param" for l in ly) and any(l[-1] and l[-1][-1] in idn for l in lx)) or \
                    (op == "Le" and any(l[0] == "param" for l in lx) and any(l[-1] and l[-1][-1] in idn for l in ly))
            if ge_ok and t_false is not None and cfgutil.edge_dominates(b, (sw, t_false), e.site.bb):
                ok = True
        if not ok:
            # the unlink sits in a helper / closure that is fed the segments to remove: judged in the view of the function
            # that builds the pipeline (`discover()?.into_iter().filter(|s| s.id < bound)` -> loop / try_fold -> unlink)
            root = _pipeline_root(ctx, b)
            if root is not None and root.path != b.path:
                V = ctx.flat(root)
                occ = [fs for fs in ctx.flat_sites_of(V, e.site) if fs.kind == "call" and not V.blocks[fs.bb].get("cleanup")]
                if occ and all(_pipeline_guard(ctx, V, fs, root) for fs in occ):
                    ok = True
                    owner = root
        r.check(ok, "unlink-below-bound", owner,
                "a segment is unlinked at %s only if its id is strictly below the bound parameter" % site_where(e.site),
                "the unlink at %s is not guarded by `segment id < bound`" % site_where(e.site), site_where(e.site))
        # the bound handed in by the caller(s): segment_of(version saved)
        for (cs, how) in prog.callers_index().get(owner.path, []):
            cb = cs.body
            csl = Slicer(ctx.world, cb)
            la = set()
            for a in cs.term["args"][1:]:
                la |= csl.leaves_of_operand(a)
            segs = [l for l in la if l[0] == "call"]
            good = False
            for l in segs:
                t = cb.blocks[l[2]]["term"]
                inner = set()
                for a in t["args"][1:]:
                    inner |= csl.leaves_of_operand(a)
                if inner and all(x[0] == "param" and not x[2] and x[1] > 1 for x in inner):
                    good = True
            r.check(good and len(la) == 1, "bound-from-version", cb,
                    "the prune bound at %s is segment_of(version parameter)" % site_where(cs),
                    "the prune bound at %s has origins %s" % (site_where(cs), sorted(fmt_leaf(l) for l in la)), site_where(cs))


def sentinel(ctx, r, must):
    prog = ctx.prog
    found = 0
    for e in ctx.fx.of_kind("FS_WRITE"):
        if "WAL" not in e.classes or e.site.kind != "call":
            continue
        b = e.site.body
        sl = Slicer(ctx.world, b)
        lv = sl.leaves_of_operand(e.site.term["args"][1])
        zero = bool(lv) and all(l[0] == "const" and l[1] == 0 for l in lv)
        if not zero:
            continue
        found += 1
        must.summarize(b)
        ok_names = sem_set(must.summ_ok[b.path])
        r.check({"WAL_FLUSH", "WAL_SYNC"} <= ok_names, "marker-synced", b,
                "the end marker written at %s is flushed and synced before %s returns Ok" % (site_where(e.site), b.path),
                "the end marker written at %s is not flushed+synced before %s returns Ok" % (site_where(e.site), b.path),
                site_where(e.site))
        # every occurrence of the marker write in the WAL manager's methods (the writer's own helpers inlined, a helper's
        # `match` on a literal argument decided) lies on the roll-over branch and acts on the writer taken out of the manager
        walmgr = ctx.anchors.get("WALMGR")
        mgr = [b0 for b0 in prog.bodies.values() if not b0.is_closure and b0.argc >= 1 and
               prog.adt_of(b0.locals[1])[0] == walmgr]
        fviews = [(b0, ctx.flat(b0)) for b0 in mgr]
        inl = set()
        for (_b0, V) in fviews:
            inl |= set(V.inlined)
        n_occ = 0
        for (b0, V) in fviews:
            if b0.path in inl:
                continue
            occ = [fs for fs in ctx.flat_sites_of(V, e.site) if not V.blocks[fs.bb].get("cleanup")]
            if not occ:
                continue
            is_drop = b0.raw.get("impl_trait") == "std::ops::Drop"
            from ..prov import TRANSPARENT
            vsl = Slicer(ctx.world, V, transparent=set(x for x in TRANSPARENT if not x.endswith("::take")))
            for fcs in occ:
                if fcs.kind != "call":
                    continue
                n_occ += 1
                d1 = False
                # dominated by the roll-over decision (a switch on a comparison of the writer's segment with the
                # target, or on a bool computed from it)
                for sw in V.normal_blocks():
                    c = cfgutil.switch_condition(V, sw)
                    if not c or c[0] not in ("call", "bool", "cmp"):
                        continue
                    tt, ff = cfgutil.true_false_edges(V, sw)
                    nm = c[1] if c[0] in ("call", "cmp") else ""
                    if c[0] == "cmp" and nm not in ("Ne", "Eq"):
                        continue
                    for edge_t in ((tt, ff) if c[0] == "cmp" else (tt,)):
                        if edge_t is not None and cfgutil.edge_dominates(V, (sw, edge_t), fcs.bb):
                            if c[0] == "cmp" or "is_none_or" in nm or "ne" in nm or c[0] == "bool":
                                d1 = True
                where = site_where(fcs)
                r.check(d1 and not is_drop, "marker-only-at-rollover", b0,
                        "in %s the end marker (%s) is written only on the roll-over branch" % (b0.path, where),
                        "in %s the end marker can be written at %s outside the roll-over branch" % (b0.path, where), where)
                # the sealed writer is the one taken out of the manager (it is never written again)
                la = vsl.leaves_of_operand(fcs.term["args"][0])
                r.check(any(l[0] == "call" and l[1].endswith("Option::take") for l in la), "sealed-writer-detached", b0,
                        "the sealed writer was taken out of the manager", "the sealed writer stays installed in the manager")
        r.check(n_occ >= 1, "marker-reached", b, "the marker write is reached from %d place(s) in the WAL manager" % n_occ,
                "the end-marker write at %s is not reached from the WAL manager (nothing seals a segment)" % site_where(e.site))
    r.check(found == 1, "marker-sites", None, "%d site(s) write an all-zero header" % found,
            "expected exactly one site writing the end marker, found %d" % found)
