"""C13 An abandoned transaction leaves no trace: effect confinement of begin/write/drop."""
from .. import effects
from ..ctx import sem, sem_set
from .base import Rule, site_construct, site_where, stable_path

PROP = "C13"

STAGING = {"STAGING", "STAGING_FILE"}
FORBIDDEN_SEM = {"INTENT_ADD", "INTENT_DEL", "INTENT_MUT", "WAL_WRITE", "WAL_FLUSH", "WAL_SYNC", "WAL_PRUNE",
                 "INDEX_MUTATE", "REFCNT_MUTATE", "BLOB_PUBLISH", "BLOB_UNLINK", "SNAP_WRITE:INDEX",
                 "SNAP_PUBLISH:INDEX", "SNAP_WRITE:SETTINGS", "SNAP_PUBLISH:SETTINGS"}


def _owned_structs(prog, path, seen=None):
    """Crate-local structs held by value (field of a field ...) by struct `path`, with the field path to each."""
    seen = seen if seen is not None else {}
    adt = prog.adts.get(path)
    if adt is None or adt["kind"] != "Struct":
        return seen
    for f in adt["variants"][0]["fields"]:
        t = prog.types[f["ty"]]
        if t.get("k") == "adt" and t.get("def") in prog.adts and t["def"] not in seen and t["def"] != path:
            seen[t["def"]] = f["name"]
            _owned_structs(prog, t["def"], seen)
    return seen


def txn_type(ctx):
    """The transaction type: the crate-local struct that owns a NamedTempFile by value - directly, or through private
    structs it holds by value (a staging-file newtype, say).  If several qualify, the one a caller can name."""
    prog = ctx.prog
    direct = []
    for path, adt in prog.adts.items():
        if adt["kind"] != "Struct":
            continue
        for f in adt["variants"][0]["fields"]:
            t = prog.types[f["ty"]]
            if t.get("k") == "adt" and effects.norm(t["def"]) == "tempfile::NamedTempFile":
                direct.append(path)
    hits = list(direct)
    for path, adt in prog.adts.items():
        if adt["kind"] == "Struct" and path not in hits and any(d in _owned_structs(prog, path) for d in direct):
            hits.append(path)
    if len(hits) > 1:
        # an internal staging struct may carry the temp file through the commit; the transaction type is the one a
        # caller can name
        pub = [h for h in hits if prog.adts[h].get("reachable")]
        if pub:
            hits = pub
    if len(hits) > 1:
        # the outermost owner
        outer = [h for h in hits if not any(h in _owned_structs(prog, o) for o in hits if o != h)]
        if outer:
            hits = outer
    return hits


def txn_parts(ctx, txn):
    """Where the transaction keeps its parts, as VFG field nodes ("F", struct, field): the key (a generic parameter), the
    byte counter (u64), the hasher, the buffered writer and the temp file - in the transaction struct itself or in a
    crate-local struct it holds by value."""
    prog = ctx.prog
    def is_newtype(sp):
        return len(prog.adts[sp]["variants"][0]["fields"]) == 1

    def unwrap(ty):
        # a single-field crate-local struct *is* its field (the value-flow graph gives it no node of its own)
        for _ in range(4):
            t = prog.types[ty]
            if t.get("k") == "adt" and t.get("def") in prog.adts and prog.adts[t["def"]]["kind"] == "Struct" \
                    and is_newtype(t["def"]):
                ty = prog.adts[t["def"]]["variants"][0]["fields"][0]["ty"]
            else:
                break
        return ty

    structs = [txn] + [sp for sp in _owned_structs(prog, txn).keys() if not is_newtype(sp)]
    parts = {"key": [], "size": [], "hasher": [], "writer": [], "temp": []}
    for sp in structs:
        for f in prog.adts[sp]["variants"][0]["fields"]:
            fty = unwrap(f["ty"])
            ts = prog.ty_str(fty)
            t = prog.types[fty]
            node = ("F", sp, f["name"])
            if t.get("k") == "param":
                parts["key"].append(node)
            elif ts == "u64":
                parts["size"].append(node)
            elif "blake3::Hasher" in ts:
                parts["hasher"].append(node)
            elif ts.startswith("std::io::BufWriter<"):
                parts["writer"].append(node)
            elif t.get("k") == "adt" and effects.norm(t["def"]) == "tempfile::NamedTempFile":
                parts["temp"].append(node)
    return parts


def newtype_tail(ctx, node):
    """Field names inside the single-field structs the field `node` is wrapped in (`StagedLen(u64)` -> ("0",))."""
    prog = ctx.prog
    out = []
    for f in prog.adts[node[1]]["variants"][0]["fields"]:
        if f["name"] != node[2]:
            continue
        ty = f["ty"]
        for _ in range(4):
            t = prog.types[ty]
            a = prog.adts.get(t.get("def")) if t.get("k") == "adt" else None
            if a and a["kind"] == "Struct" and len(a["variants"][0]["fields"]) == 1:
                out.append(a["variants"][0]["fields"][0]["name"])
                ty = a["variants"][0]["fields"][0]["ty"]
            else:
                break
    return tuple(out)


def path_ends_in(path, name, tail=()):
    """Does a leaf path end in the field `name`, possibly followed by (a prefix of) the newtype fields inside it?"""
    path = tuple(path or ())
    for k in range(len(tail), -1, -1):
        if k and path[-k:] != tuple(tail[:k]):
            continue
        rest = path[:len(path) - k] if k else path
        if rest and rest[-1] == name:
            return True
    return False


def txn_methods(ctx, txn):
    """(borrowing methods, consuming methods, constructors) among externally reachable bodies."""
    prog = ctx.prog
    borrow, consume, ctor = [], [], []
    for b in ctx.api_roots():
        ret_d, _ = prog.adt_of(b.locals[0])
        rt = prog.types[b.locals[0]]
        returns_txn = any(prog.types[i].get("def") == txn for i in prog.find_in_type(
            b.locals[0], lambda t: t.get("k") == "adt"))
        if b.argc >= 1:
            t1 = prog.types[b.locals[1]]
            if t1.get("k") == "adt" and t1["def"] == txn:
                consume.append(b)
                continue
            if t1.get("k") == "ref" and prog.types[t1["in"]].get("def") == txn:
                borrow.append(b)
                continue
        if returns_txn:
            ctor.append(b)
    return borrow, consume, ctor


def may_effects(ctx, body):
    """(fs effects incl. drops, lock classes acquired, semantic events) reachable from body."""
    reach = ctx.prog.reachable_bodies([body])
    fx = [e for e in ctx.fx.effects if e.site.body.path in reach]
    acq = ctx.locks.acquires(body.path)
    evs = ctx.may.all_events(body.path)
    names = sem_set(e for e in evs if ctx._concrete(e))
    return fx, acq, names


def rules(ctx, tier):
    out = []
    txns = txn_type(ctx)
    r = Rule("R1", "begin/write touch nothing but the transaction's own staging file",
             "an abandoned transaction has already changed the log, the index, cas/ or the intents")
    if len(txns) != 1:
        r.bad("txn-type", None, "expected one struct owning a NamedTempFile, found %d" % len(txns))
        out.append(r.finish())
        return out
    txn = txns[0]
    borrow, consume, ctor = txn_methods(ctx, txn)
    for b in ctor + borrow:
        # Debug/Display impls only format
        fx, acq, names = may_effects(ctx, b)
        bad_fx = [e for e in fx if e.kind not in ("FS_STAT",) and not (e.classes and e.classes <= STAGING)]
        r.check(not bad_fx, "effects-of:%s" % b.path.split("::")[-1], b,
                "%s: %d fs effect(s), all on staging" % (b.path, len(fx)),
                "%s may %s" % (b.path, "; ".join(e.describe() for e in bad_fx[:3])),
                "%s:%d" % (b.file, b.line))
        r.check(not acq, "locks-of:%s" % b.path.split("::")[-1], b, "%s acquires no lock" % b.path,
                "%s may acquire %s" % (b.path, sorted(acq)), "%s:%d" % (b.file, b.line))
        hit = names & FORBIDDEN_SEM
        r.check(not hit, "events-of:%s" % b.path.split("::")[-1], b,
                "%s cannot reach the log, the index, cas/ or the intents" % b.path,
                "%s may cause %s" % (b.path, sorted(hit)), "%s:%d" % (b.file, b.line))
    r.check(len(ctor) >= 1, "ctor", None, "%d constructor(s) of %s among the API roots" % (len(ctor), txn),
            "no externally reachable function returns %s" % txn)
    writers = [b for b in borrow if any(e.kind == "FS_WRITE" for e in may_effects(ctx, b)[0])]
    r.check(len(writers) >= 1, "writer", None, "%d borrowing method(s) write the staging file" % len(writers),
            "no borrowing method of %s writes the staging file (anchor lost)" % txn)
    r.need(8, "constructor + borrowing methods x3")
    out.append(r.finish())

    r = Rule("R2", "dropping a transaction only removes its staging file",
             "abandoning a transaction has an effect outside staging/")
    adt = ctx.prog.adts[txn]
    r.check(not adt.get("has_drop"), "no-drop-impl", None, "%s has no Drop impl" % txn,
            "%s has a Drop impl: %s (its effects must be reviewed)" % (txn, adt.get("drop_fn")))
    # find a type index for the struct
    tix = None
    for i, t in enumerate(ctx.prog.types):
        if t.get("k") == "adt" and t["def"] == txn:
            tix = i
            break
    n_unlink = 0
    if tix is not None:
        for d in ctx.prog.drop_targets(tix):
            if d[0] == "local":
                r.bad("field-drop:%s" % d[1].path, None, "field drop runs crate code %s" % d[1].path)
                continue
            eff = effects.DROP_EFFECTS.get(d[1])
            if eff is None or eff == "LOCK_REL":
                if eff == "LOCK_REL":
                    r.bad("field-drop:guard", None, "%s owns a lock guard" % txn)
                continue
            owner = d[3]
            classes = set(ctx.world.vfg.labels.get(owner, ())) if owner else set()
            if eff == "FS_UNLINK":
                n_unlink += 1
            r.check(bool(classes) and classes <= STAGING, "field-drop:%s:%s" % (owner[2] if owner else "?", eff), None,
                    "drop of %s.%s: %s on %s" % (txn.split("::")[-1], owner[2] if owner else "?", eff, sorted(classes)),
                    "drop of %s.%s has effect %s on %s" % (txn.split("::")[-1], owner[2] if owner else "?", eff,
                                                           sorted(classes) or "an unclassified path"))
    r.check(n_unlink >= 1, "raii-unlink", None, "the staging file is unlinked by the field's drop",
            "no field of %s unlinks the staging file on drop" % txn)
    r.need(4, "no Drop impl, temp file unlink+close, writer flush/close")
    out.append(r.finish())

    r = Rule("R3", "commit is reachable only through the method that consumes the transaction",
             "a borrowed transaction can publish: a later drop or second commit acts on a committed transaction")
    commit_sem = {"INTENT_ADD", "BLOB_PUBLISH", "WAL_WRITE"}
    n = 0
    for b in consume:
        _, _, names = may_effects(ctx, b)
        if names & commit_sem:
            n += 1
            r.ok("consuming-commit:%s" % b.path.split("::")[-1], b, "%s takes self by value and commits" % b.path)
    r.check(n >= 1, "commit-entry", None, "%d consuming commit entry point(s)" % n,
            "no by-value method of %s reaches the commit effects" % txn)
    for b in borrow + ctor:
        _, _, names = may_effects(ctx, b)
        r.check(not (names & commit_sem), "no-commit-from:%s" % b.path.split("::")[-1], b,
                "%s cannot commit" % b.path, "%s (which does not consume the transaction) may cause %s" % (
                    b.path, sorted(names & commit_sem)))
    r.need(4, "finish + the non-consuming methods")
    out.append(r.finish())

    r = Rule("R4", "a failed commit reverts only through the intent guard, which touches only the intents",
             "cleaning up after a failed commit changes the index, the log or cas/")
    guards = intent_guard_drops(ctx)
    for b in guards:
        fx, acq, names = may_effects(ctx, b)
        r.check(not fx, "guard-drop-fs", b, "%s has no fs effect" % b.path,
                "%s may %s" % (b.path, "; ".join(e.describe() for e in fx[:3])))
        others = set(c[0] for c, _ in acq if not (c[0] == "INTENTS" or c[0].startswith("INTENTS:")))
        r.check(not others, "guard-drop-locks", b, "%s acquires only the intents lock" % b.path,
                "%s may acquire %s" % (b.path, sorted(others)))
        bad = names - {"INTENT_ADD", "INTENT_DEL", "INTENT_MUT", "INTENT_READ"}
        r.check(not bad, "guard-drop-events", b, "%s only touches the intents container" % b.path,
                "%s may cause %s" % (b.path, sorted(bad)))
    r.need(3, "the intent guard's Drop impl")
    out.append(r.finish())

    r = Rule("R5", "staging files are not named after the key",
             "two transactions on the same key share a staging file")
    g = ctx.world.vfg
    n = 0
    for e in ctx.fx.of_kind("FS_OPEN"):
        if not (e.mode and "temp" in e.mode):
            continue
        site = e.site
        b = site.body
        # parameters of generic key type
        tainted = set()
        for i in range(1, b.argc + 1):
            t = ctx.prog.types[ctx.prog.strip_refs(b.locals[i])]
            if t.get("k") == "param":
                seen = set()
                work = [("L", b.path, i)]
                while work:
                    x = work.pop()
                    if x in seen:
                        continue
                    seen.add(x)
                    work.extend(g.edges.get(x, ()))
                tainted |= seen
        n += 1
        bad = [a for a in site.term["args"] if g.node_of_operand(b, a) in tainted]
        r.check(not bad, "temp-name", b, "temp file at %s is created from the staging dir only" % site_where(site),
                "a key-typed parameter flows into the temp file creation at %s" % site_where(site), site_where(site))
        # the name is random and the creation exclusive: the library default, unless a builder says otherwise
        from ..prov import Slicer
        sl = Slicer(ctx.world, b, follow_local=False)
        chain = []
        cur = site
        for _ in range(12):
            if not cur.term["args"]:
                break
            lv = [l for l in sl.leaves_of_operand(cur.term["args"][0])]
            nxt = [l for l in lv if l[0] == "call" and (l[1] or "").startswith("tempfile::Builder::")]
            if len(nxt) != 1 or len(lv) != 1:
                break
            from ..core import Site
            cur = Site(b, nxt[0][2], b.blocks[nxt[0][2]]["term"])
            chain.append(cur)
        weak = []
        if "custom" in (e.mode or ()):
            weak.append("the file is created by a caller-supplied function (no exclusive-create guarantee)")
        for c in chain:
            if (c.path or "").endswith("::rand_bytes"):
                a = c.term["args"][1] if len(c.term["args"]) > 1 else {}
                v = a.get("const", {}).get("v") if "const" in a else None
                if v is None or v < 4:
                    weak.append("rand_bytes(%s): the name is not random" % ("?" if v is None else v))
        r.check(not weak, "temp-unique", b,
                "temp file at %s gets a fresh random name and is created exclusively" % site_where(site),
                "the staging file created at %s is not private to its transaction: %s" % (site_where(site), "; ".join(weak)),
                site_where(site))
    r.need(2, "temp file creation site: name inputs + uniqueness")
    out.append(r.finish())
    return out


def intent_guard_drops(ctx):
    """Drop impls whose body mutates the intents container."""
    out = []
    for adt in ctx.prog.adts.values():
        fn = adt.get("drop_fn")
        if not fn or fn not in ctx.prog.bodies:
            continue
        b = ctx.prog.bodies[fn]
        names = sem_set(e for e in ctx.may.all_events(b.path) if ctx._concrete(e))
        if names & {"INTENT_MUT", "INTENT_READ"}:
            out.append(b)
    return out
