"""C11 Exclusive ownership of a database directory: lock-before-touch on all paths."""
from .. import cfgutil, effects, flow
from ..ctx import sem, sem_set
from ..events import is_cas_class
from .base import Rule, site_construct, site_where, stable_path

PROP = "C11"

MUTATING = {"FS_WRITE", "FS_WRITEFILE", "FS_TRUNCATE", "FS_COPY", "FS_LINK", "FS_WRITE_AT", "FS_CHMOD",
            "FS_RENAME", "FS_UNLINK", "FS_MKDIR", "FS_RMDIR", "FS_RMDIR_ALL", "TEMP_ESCAPE", "FS_FLUSH", "FS_SYNC"}


def is_mutating(e):
    if e.kind in MUTATING:
        return True
    if e.kind == "FS_OPEN":
        m = e.mode or set()
        return bool(m & {"create", "write", "truncate", "append", "create_new", "temp", "unknown"}) or \
            any(x.endswith("?") for x in m)
    return False


def pre_lock_allowed(e):
    """(kind, class) pairs that may precede the lock: creating the two top directories (idempotent)
    and opening the LOCK file itself."""
    if e.kind == "FS_MKDIR" and e.classes and e.classes <= {"STAGING", "CAS_ROOT", "DB_ROOT", "DB_PARENT"}:
        return True
    if e.kind == "FS_OPEN" and e.classes == frozenset(["LOCK"]):
        return True
    return False


def handle_struct(ctx):
    """The struct that keeps the locked File: owner of a File-typed field labelled LOCK."""
    out = []
    for path, adt in ctx.prog.adts.items():
        if adt["kind"] != "Struct":
            continue
        for f in adt["variants"][0]["fields"]:
            if ctx.prog.ty_str(f["ty"]) == "std::fs::File" and "LOCK" in ctx.world.vfg.labels.get(("F", path, f["name"]), ()):
                out.append((path, f["name"]))
    return out


def rules(ctx, tier):
    out = []
    opens = ctx.open_roots()
    must = ctx.must(None)
    ENTRY = must.entry_sets(opens)
    reach = ctx.prog.reachable_bodies(opens)

    r = Rule("R1", "the directory lock is taken before anything under the db root is modified",
             "a losing opener replays, checkpoints or prunes under the owner's feet")
    r.check(len(opens) >= 1, "open-roots", None, "%d API root(s) take the directory lock: %s" % (
        len(opens), ", ".join(b.path for b in opens)), "no API root takes the directory lock")
    n_mut = 0
    for e in ctx.fx.effects:
        if e.site.body.path not in reach or not is_mutating(e) or e.site.kind != "call":
            continue
        S = must.at_site(ENTRY, e.site)
        if S is None:
            continue
        n_mut += 1
        names = sem_set(S)
        if "FLOCK" in names:
            r.ok("after-lock:%s:%s" % (e.kind, site_construct(e.site)), e.site.body,
                 "%s(%s) at %s happens after the lock" % (e.kind, ",".join(sorted(e.classes)), site_where(e.site)))
        else:
            r.check(pre_lock_allowed(e), "before-lock:%s:%s" % (e.kind, "+".join(sorted(e.classes)) or "?"),
                    e.site.body,
                    "%s(%s) at %s precedes the lock and is on the allow-list" % (
                        e.kind, ",".join(sorted(e.classes)), site_where(e.site)),
                    "%s(%s) at %s can happen before the directory lock is held" % (
                        e.kind, ",".join(sorted(e.classes)) or "?", site_where(e.site)), site_where(e.site))
    r.need(15, "mutating effect sites on the open path")
    out.append(r.finish())

    r = Rule("R2", "a failed lock attempt returns without any further effect",
             "the losing open modifies files of the live database before it reports AlreadyOpened")
    flocks = [e for e in ctx.fx.of_kind("FLOCK_TRY") if "LOCK" in e.classes]
    for e in flocks:
        site = e.site
        b = site.body
        rf = must.rf(b)
        errs = rf.err_edges_of(site.bb)
        r.check(len(errs) >= 1, "err-edge", b, "the lock result at %s is tested" % site_where(site),
                "the result of the lock attempt at %s is not branched on" % site_where(site), site_where(site))
        for (sb, tb) in errs:
            blocks = cfgutil.reach(b, tb)
            bad = []
            for bb in blocks:
                t = b.blocks[bb]["term"]
                if t["k"] not in ("call", "drop"):
                    continue
                from ..core import Site
                s2 = Site(b, bb, t)
                for ev in ctx.may.site_events(s2):
                    if ev[0] in MUTATING or ev[0] in ("FS_OPEN", "FS_READFILE", "CONT"):
                        bad.append((s2, ev))
            r.check(not bad, "err-path-effect-free", b,
                    "no effect between the failed lock at %s and the return" % site_where(site),
                    "after a failed lock at %s the code still does %s" % (
                        site_where(site), "; ".join("%s at %s" % (ev[0], site_where(s)) for s, ev in bad[:3])),
                    site_where(site))
            # the error edge ends in an Err return
            rets = [bb for bb in blocks if b.blocks[bb]["term"]["k"] == "return"]
            r.check(len(rets) >= 1, "err-path-returns", b, "the failed-lock path returns", "the failed-lock path does not return")
    r.need(3, "lock attempt: tested, effect-free error path, returns")
    out.append(r.finish())

    r = Rule("R3", "the lock attempt never blocks", "a second open hangs instead of failing with AlreadyOpened")
    blocking = ctx.fx.of_kind("FLOCK_BLOCKING")
    for e in blocking:
        r.bad("blocking-flock:%s" % site_construct(e.site), e.site.body,
              "blocking file lock at %s" % site_where(e.site), site_where(e.site))
    r.check(len(flocks) == 1, "single-flock", None, "exactly one try_lock site on the LOCK file",
            "%d try_lock sites on the LOCK file (expected 1)" % len(flocks))
    out.append(r.finish())

    r = Rule("R4", "the lock lives as long as the handle: the locked File is a field of the handle, never unlocked, "
                   "and the handle leaves the crate only behind Arc",
             "the lock is released while clones / OrphanStats still use the database")
    hs = handle_struct(ctx)
    r.check(len(hs) == 1, "handle-field", None, "the locked File is kept in %s" % (hs and "%s.%s" % hs[0]),
            "expected exactly one struct field of type File labelled LOCK, found %d" % len(hs))
    for e in ctx.fx.of_kind("FLOCK_REL"):
        r.bad("unlock:%s" % site_construct(e.site), e.site.body, "explicit unlock at %s" % site_where(e.site),
              site_where(e.site))
    if len(hs) == 1:
        hpath, hfield = hs[0]
        # the very File that was locked is the one stored in the field
        g = ctx.world.vfg
        for e in flocks:
            root = ctx.world.root_place(e.site.body, e.site.term["args"][0])
            start = g.node_of_place(e.site.body, root) if root else None
            seen = set()
            work = [start] if start else []
            while work:
                x = work.pop()
                if x in seen:
                    continue
                seen.add(x)
                work.extend(g.edges.get(x, ()))
            r.check(("F", hpath, hfield) in seen, "locked-file-kept", e.site.body,
                    "the File locked at %s is the one stored in %s.%s" % (site_where(e.site), hpath, hfield),
                    "the File locked at %s does not flow into %s.%s: the lock dies with a local" % (
                        site_where(e.site), hpath, hfield), site_where(e.site))
        # the field is only written by the constructor aggregate
        for w in ctx.world.field_writes:
            if w.field == ("F", hpath, hfield):
                r.bad("rewrite-lock-field", w.body, w.describe())
        # the handle is exposed by value nowhere: reachable signatures mention it only under Arc / &
        prog = ctx.prog
        for b in ctx.api_roots():
            ret = b.locals[0]
            if _by_value_outside_arc(prog, ret, hpath):
                r.bad("handle-by-value:%s" % b.path.split("::")[-1], b,
                      "%s returns %s by value (outside Arc)" % (b.path, hpath))
        r.ok("handle-behind-arc", None, "no externally reachable function returns %s by value" % hpath)
        # explicit drops / takes of the lock field
        for b in prog.bodies.values():
            for site in b.sites(("drop",)):
                pl = site.term["place"]
                n = ctx.world.vfg.node_of_place(b, pl)
                if n == ("F", hpath, hfield):
                    r.bad("drop-lock-field", b, "the lock field is dropped separately at %s" % site_where(site))
    # ... and no longer: no second descriptor shares the advisory lock (a duplicate keeps the directory locked until
    # whoever holds it lets go - a background thread, say - although every handle has been dropped)
    for e in ctx.fx.of_kind("FS_DUP"):
        if "LOCK" in e.classes:
            r.bad("dup-lock-descriptor", e.site.body,
                  "the locked descriptor is duplicated at %s: the duplicate shares the advisory lock and can outlive the "
                  "handle, so the next open fails with AlreadyOpened although no handle exists" % site_where(e.site),
                  site_where(e.site))
    r.need(2, "handle field, handle behind Arc")
    out.append(r.finish())

    r = Rule("R5", "one way in: a single construction site of the handle, and every public constructor goes "
                   "through the locking root",
             "a second constructor hands out a handle without taking the lock")
    if len(hs) == 1:
        hpath, _ = hs[0]
        ctor_sites = []
        for b in ctx.prog.bodies.values():
            for bb in b.normal_blocks():
                for s in b.stmts(bb):
                    if s["k"] == "assign" and s["rv"]["k"] == "agg" and s["rv"].get("def") == hpath:
                        ctor_sites.append((b, bb, s))
        r.check(len(ctor_sites) == 1, "single-ctor", ctor_sites[0][0] if ctor_sites else None,
                "%s is built at exactly one site (%s)" % (hpath, ctor_sites and ctor_sites[0][0].path),
                "%s is built at %d sites" % (hpath, len(ctor_sites)))
        if ctor_sites:
            cb = ctor_sites[0][0]
            # the aggregate is built only where the lock is known to have been taken successfully - by this body or by
            # a helper it calls (must-happened-before with Ok-sensitivity)
            must.summarize(cb)
            IN = must.rel_in[cb.path]
            ENTRY_open = must.entry_sets(ctx.open_roots())
            base = ENTRY_open.get(cb.path)
            locked = []
            for (_, bb, _) in ctor_sites:
                S = IN.get(bb)
                have = set() if S is None or S is flow.ALL else set(S)
                if base is not None and base is not flow.ALL:
                    have |= set(base)       # what every call chain from an open entry point has done before
                locked.append(S is not None and S is not flow.ALL and "FLOCK" in sem_set(have))
            reach_lock = all(locked) or "FLOCK" in sem_set(e for e in ctx.may.all_events(cb.path) if ctx._concrete(e))
            r.check(reach_lock, "ctor-locks", cb, "the constructing body is the one that takes the lock",
                    "the body that builds %s does not take the directory lock" % hpath)
            if reach_lock:
                r.check(all(locked), "ctor-after-lock", cb, "the handle is built only after the lock succeeded",
                        "the handle can be built on a path where the lock did not succeed")
        # public functions that return something containing the handle reach the constructor
        prog = ctx.prog
        for b in ctx.api_roots():
            if b.argc >= 1 and _mentions(prog, b.locals[1], hpath):
                continue        # methods on an existing handle
            if _mentions(prog, b.locals[0], hpath) and not any(_mentions(prog, b.locals[i], hpath)
                                                              for i in range(1, b.argc + 1)):
                rb = prog.reachable_bodies([b])
                r.check(ctor_sites and ctor_sites[0][0].path in rb, "public-ctor:%s" % b.path.split("::")[-1], b,
                        "%s obtains the handle from the locking constructor" % b.path,
                        "%s returns a handle without going through the locking constructor" % b.path)
    r.need(3, "single constructor, it locks, public constructors")
    out.append(r.finish())
    return out


def _mentions(prog, ty_ix, adt):
    return bool(prog.find_in_type(ty_ix, lambda t: t.get("k") == "adt" and t.get("def") == adt))


def _by_value_outside_arc(prog, ty_ix, adt):
    """Does the type contain `adt` by value on a path that does not go through Arc/Rc/& ?"""
    seen = set()
    work = [ty_ix]
    while work:
        i = work.pop()
        if i in seen:
            continue
        seen.add(i)
        t = prog.types[i]
        k = t.get("k")
        if k == "adt":
            if t["def"] == adt:
                return True
            if t["def"] in ("std::sync::Arc", "std::rc::Rc", "std::sync::Weak"):
                continue
            if t["def"] in prog.adts:
                for v in prog.adts[t["def"]]["variants"]:
                    for f in v["fields"]:
                        work.append(f["ty"])
            work.extend(a for a in t["args"] if isinstance(a, int))
        elif k in ("ref", "ptr"):
            continue
        elif k == "tuple":
            work.extend(t["args"])
        elif k in ("array", "slice"):
            work.append(t["in"])
    return False
