"""C07 Exact reclamation and deduplication at quiescence: nothing dropped, nothing leaked by construction."""
from .. import cfgutil, effects, balance
from ..core import Site, term_path, FN_TRAIT_CALLS
from ..ctx import sem, sem_set, ANCHOR_FIELDS
from ..prov import Slicer, fmt_leaf, binops_in
from ..vfg import place_of
from . import c04
from .base import Rule, site_construct, site_where, stable_path
from .c13 import txn_type

PROP = "C07"


def run_balance(ctx, r, tier, what=("balance", "push-only-zero", "zero-is-pushed", "push-origin", "insert-outcome",
                                    "remove-outcome", "dec-result")):
    prog = ctx.prog
    n_paths = 0
    for p in ctx.apply_roots():
        b = prog.bodies[p]
        ab = balance.ApplyBody(ctx, ctx.apply_view(p))
        for pr in ab.problems:
            r.bad("apply-body", b, pr)
        results = ab.paths(unroll=1 if tier == "quick" else 2)
        seen = set()
        for kind, st in results:
            if kind != "return":
                continue
            js = balance.judge_path(ab, st)
            if js is None:
                continue
            n_paths += 1
            for (ok, construct, msg) in js:
                if construct not in what:
                    continue
                key = (construct, msg)
                if key in seen:
                    continue
                seen.add(key)
                r.check(ok, construct, b, msg, msg.replace("path [", "on path ["), "%s:%d" % (b.file, b.line))
        r.note("%s: %d Ok path(s) enumerated (loops unrolled %d time(s))" % (p, n_paths, 1 if tier == "quick" else 2))
    return n_paths


def _stmt_order(b, bb1, op1, bb2, op2):
    """The first binop `op1*` in bb1 comes before the first binop `op2*` in bb2 (same block: statement order)."""
    if bb1 != bb2:
        return b.dominates(bb1, bb2)
    i1 = i2 = None
    for i, st in enumerate(b.stmts(bb1)):
        if st["k"] == "assign" and st["rv"]["k"] == "binop":
            if i1 is None and st["rv"]["op"].startswith(op1):
                i1 = i
            if i2 is None and st["rv"]["op"].startswith(op2):
                i2 = i
    return i1 is not None and i2 is not None and i1 < i2


def primitives(ctx, r):
    """The two refcount primitives mean what the balance rule assumes: inc adds one and reports "was zero";
    dec fails on absent/zero, subtracts one, removes the entry and reports the hash exactly when it reached zero."""
    prog = ctx.prog
    A = ctx.anchors
    for b in prog.bodies.values():
        if b.is_closure:
            continue
        direct = [cu for cu in ctx.world.container_uses if cu.site.body.path == b.path and
                  ANCHOR_FIELDS.get(cu.field) == "REFCNT" and cu.mutable]
        if not direct or any(ANCHOR_FIELDS.get(cu.field) == "KEYMAP" and cu.mutable for cu in ctx.world.container_uses
                             if cu.site.body.path == b.path):
            continue
        if any(cu.method == "clear" for cu in direct):
            continue
        sl = Slicer(ctx.world, b, follow_local=False)
        rt = prog.ty_str(b.locals[0])
        adds = [(bb, o) for bb in b.normal_blocks() for o in binops_in(b, bb) if o[1].startswith("Add")]
        subs = [(bb, o) for bb in b.normal_blocks() for o in binops_in(b, bb) if o[1].startswith("Sub")]
        if balance.enum_indicator(prog, b.locals[0]) is not None and not subs and adds:
            # the answer is a two-variant enum instead of a bool: one increment by one, and the variant answered when
            # the count was zero differs from the other one
            ok_add = len(adds) == 1 and all(l[0] == "const" and l[1] == 1 for l in sl.leaves_of_operand(adds[0][1][3]))
            fv = balance.first_variant(prog, b)
            r.check(ok_add and fv is not None, "inc-primitive", b,
                    "%s: count += 1 and answers %s when the count was 0" % (
                        b.path, prog.adts[balance.enum_indicator(prog, b.locals[0])]["variants"][fv]["name"] if fv is not None else "?"),
                    "%s does not implement 'add one, report whether it was zero' (adds: %d, a variant tied to the zero "
                    "test: %s)" % (b.path, len(adds), fv is not None))
        elif rt == "bool":
            ok_add = len(adds) == 1 and all(l[0] == "const" and l[1] == 1 for l in sl.leaves_of_operand(adds[0][1][3])) and not subs
            # return value: Eq(count, 0) evaluated before the add
            lv = sl.leaves_of_place({"l": 0, "p": []})
            eqs = [l for l in lv if l[0] == "binop" and l[1] == "Eq"]
            ok_ret = len(lv) == 1 and len(eqs) == 1
            if ok_ret and adds:
                ebb = eqs[0][2]

                def eq_with(v):
                    return any(all(x[0] == "const" and x[1] == v for x in sl.leaves_of_operand(o[3])) or
                               all(x[0] == "const" and x[1] == v for x in sl.leaves_of_operand(o[2]))
                               for o in binops_in(b, ebb) if o[1] == "Eq")
                # "was zero" evaluated before the add, or "is now one" evaluated after it
                before = b.dominates(ebb, adds[0][0]) and (ebb != adds[0][0] or True) and eq_with(0) and \
                    _stmt_order(b, ebb, "Eq", adds[0][0], "Add") 
                after = b.dominates(adds[0][0], ebb) and eq_with(1) and _stmt_order(b, adds[0][0], "Add", ebb, "Eq")
                ok_ret = before or after
            r.check(ok_add and ok_ret, "inc-primitive", b,
                    "%s: count += 1 and returns (count was 0)" % b.path,
                    "%s does not implement 'add one, report whether it was zero' (adds: %d, return: %s)" % (
                        b.path, len(adds), sorted(fmt_leaf(l) for l in lv)))
        elif rt.startswith("std::result::Result<std::option::Option<"):
            ok_sub = len(subs) == 1 and all(l[0] == "const" and l[1] == 1 for l in sl.leaves_of_operand(subs[0][1][3])) and not adds
            rf = ctx.must(None).rf(b)
            some_ok = none_ok = False
            removes = [cu for cu in direct if cu.method == "remove"]
            for bb in b.normal_blocks():
                for s in b.stmts(bb):
                    if s["k"] == "assign" and s["lhs"]["l"] == 0 and s["rv"]["k"] == "agg" and s["rv"].get("vn") == "Ok":
                        lv = sl.leaves_of_operand(s["rv"]["ops"][0])
                        is_none = bool(lv) and all(l[0] == "agg" and str(l[1]).endswith("::None") for l in lv)
                        # dominated by Eq(count,0) edge after the subtraction
                        for sw in b.normal_blocks():
                            c = cfgutil.eq_edges(b, sw)
                            if c is None or not subs or not b.dominates(subs[0][0], sw):
                                continue
                            zero = all(x[0] == "const" and x[1] == 0 for x in sl.leaves_of_operand(c[1])) or \
                                all(x[0] == "const" and x[1] == 0 for x in sl.leaves_of_operand(c[0]))
                            if not zero:
                                continue
                            if not is_none and cfgutil.edge_dominates(b, (sw, c[2]), bb):
                                some_ok = bool(removes) and all(cfgutil.edge_dominates(b, (sw, c[2]), cu.site.bb) for cu in removes)
                            if is_none and cfgutil.edge_dominates(b, (sw, c[3]), bb):
                                none_ok = True
            if ok_sub and not (some_ok and none_ok):
                # `Ok(reached_zero.then_some(hash))` with `reached_zero = (count == 0)` taken after the subtraction, and
                # the entry removed under the same flag
                for bb in b.normal_blocks():
                    for s_ in b.stmts(bb):
                        if not (s_["k"] == "assign" and s_["lhs"]["l"] == 0 and s_["rv"]["k"] == "agg" and
                                s_["rv"].get("vn") == "Ok" and s_["rv"]["ops"]):
                            continue
                        lv = sl.leaves_of_operand(s_["rv"]["ops"][0])
                        if len(lv) != 1 or list(lv)[0][0] != "call" or list(lv)[0][1].split("::")[-1] not in ("then_some", "then"):
                            continue
                        tcall = b.blocks[list(lv)[0][2]]["term"]
                        fl = sl.leaves_of_operand(tcall["args"][0])
                        eqs = [l for l in fl if l[0] == "binop" and l[1] == "Eq"]
                        if len(fl) != 1 or len(eqs) != 1:
                            continue
                        ebb = eqs[0][2]
                        zero = any(all(x[0] == "const" and x[1] == 0 for x in sl.leaves_of_operand(o[k]))
                                   for o in binops_in(b, ebb) if o[1] == "Eq" for k in (2, 3))
                        after = bool(subs) and b.dominates(subs[0][0], ebb) and _stmt_order(b, subs[0][0], "Sub", ebb, "Eq")
                        rem_ok = bool(removes)
                        for cu in removes:
                            guarded = False
                            for sw in b.normal_blocks():
                                c = cfgutil.switch_condition(b, sw)
                                if c and c[0] in ("bool", "cmp"):
                                    src = sl.leaves_of_operand(c[1]) if c[0] == "bool" else set(eqs if c[5] == ebb else ())
                                    tt, ff = cfgutil.true_false_edges(b, sw)
                                    if set(src) == set(eqs) and tt is not None and cfgutil.edge_dominates(b, (sw, tt), cu.site.bb):
                                        guarded = True
                            rem_ok = rem_ok and guarded
                        if zero and after and rem_ok:
                            some_ok = none_ok = True
            r.check(ok_sub and some_ok and none_ok, "dec-primitive", b,
                    "%s: count -= 1; at zero removes the entry and returns the hash, otherwise None" % b.path,
                    "%s does not implement 'subtract one, at zero remove and report' (subs: %d, some-arm: %s, none-arm: %s)" % (
                        b.path, len(subs), some_ok, none_ok))


def rules(ctx, tier):
    out = []
    prog = ctx.prog

    r = Rule("R1", "every dereferenced blob is offered for deletion: the list returned by the apply step reaches the "
                   "delete callback, losing elements only to the intents filter",
             "a blob whose last reference was removed stays in cas/ forever")
    n = 0
    for (V, owner, dels, applies_v) in c04.delete_sections(ctx):
        b = V
        for site in dels:
            n += 1
            # the callback site is reached whenever the list is non-empty: the only branch around it tests is_empty(list)
            ops = ctx.world.vfg._tuple_ops(b, place_of(site.term["args"][1])["l"])
            V = ctx.world.borrowed_local(b, ops[0]) if ops else None
            skips = []
            appl = applies_v
            for a in appl:
                region = cfgutil.reach(b, a.term["t"]) & c04._can_reach(b, site.bb)
                for x in region:
                    t = b.blocks[x]["term"]
                    if t["k"] != "switch":
                        continue
                    for tgt in b.succs(x):
                        if site.bb in cfgutil.reach(b, tgt):
                            continue
                        # this edge skips the delete: it must be `list.is_empty()` or an error exit
                        c = cfgutil.switch_condition(b, x)
                        rf = ctx.rf(b)
                        blocks = cfgutil.reach(b, tgt)
                        if not any(b.blocks[y]["term"]["k"] == "return" for y in blocks):
                            continue        # this edge ends in a panic: nothing returns, nothing is skipped
                        if any(rf.forwarded.get(y) == "err" for y in blocks) and not any(rf.forwarded.get(y) == "ok" for y in blocks):
                            continue
                        okc = False
                        if c and c[0] == "call" and c[1].endswith("Vec::is_empty"):
                            okc = ctx.world.borrowed_local(b, c[2]["args"][0]) == V
                        skips.append((x, okc))
            r.check(all(o for _, o in skips), "delete-unless-empty", owner,
                    "in %s the delete callback at %s is skipped only when the list is empty (or on error)" % (owner.path, site_where(site)),
                    "in %s the delete callback at %s can be skipped although the list is not empty (%s)" % (
                        owner.path, site_where(site), ", ".join("%s:%d" % (b.blocks[x]["span"].get("file", b.file), b.blocks[x]["span"]["line"]) for x, o in skips if not o)),
                    site_where(site))
            # errors of the callback propagate: its result is branched on, or handed on as the result of a helper
            # whose result is branched on
            rf = ctx.rf(b)
            tested = bool(rf.err_edges_of(site.bb))
            if not tested:
                # forwarded through map_err into a local that the caller tests: no path from the call to an Ok return
                # of the view avoids a branch on a Result that depends on it -> approximated by provenance
                sl_ = Slicer(ctx.world, b, skip_err=False)
                for sw in b.normal_blocks():
                    c = cfgutil.switch_condition(b, sw)
                    if c and c[0] == "discr":
                        if any(l[0] == "call" and l[2] == site.bb for l in sl_.leaves_of_place(c[1])):
                            tested = True
            if not tested:
                # the Result travels on (map_err, `?` of the caller of an inlined helper): follow it forward to a branch
                carriers = {site.term["dest"]["l"]} if not site.term["dest"]["p"] else set()
                changed = True
                while changed:
                    changed = False
                    for l2, defs in b.assignments().items():
                        if l2 in carriers:
                            continue
                        for (dbb, j, rv) in defs:
                            src = None
                            if j != "term" and rv["k"] == "use":
                                src = place_of(rv["op"])
                            elif j == "term" and rv.get("args") and (term_path(rv) or "").split("::")[-1] in (
                                    "map_err", "branch", "map", "into", "from", "or_else", "and_then", "inspect_err"):
                                src = place_of(rv["args"][0])
                            if src is not None and not src["p"] and src["l"] in carriers:
                                carriers.add(l2)
                                changed = True
                for sw in b.normal_blocks():
                    c = cfgutil.switch_condition(b, sw)
                    if c and c[0] == "discr" and not c[1]["p"] and c[1]["l"] in carriers:
                        tested = True
            r.check(tested, "delete-error-propagates", owner,
                    "a failed delete makes %s return an error" % owner.path, "the result of the delete callback in %s is ignored" % owner.path)
    r.check(n >= 1, "callback-sites", None, "%d delete-callback site(s)" % n, "expected at least 1 delete-callback site, found %d" % n)
    r.need(3, "at least one callback site x2 + anchor (today: 2 sites)")
    out.append(r.finish())

    r = Rule("R2", "reference-count balance on every path of the apply step; a hash is handed to the delete list exactly "
                   "when its count reached zero",
             "decrement on a same-content re-put deletes a live blob; a missing decrement on repoint leaks one")
    run_balance(ctx, r, tier)
    primitives(ctx, r)
    r.need(8, "paths of the apply body + the two primitives")
    out.append(r.finish())

    r = Rule("R3", "staging is RAII: the transaction owns its temp file by value and nothing detaches it",
             "a staging file survives its transaction")
    txns = txn_type(ctx)
    for e in ctx.fx.of_kind("TEMP_ESCAPE"):
        r.bad("temp-escape:%s" % site_construct(e.site), e.site.body,
              "%s at %s detaches a temp file from its RAII owner" % (site_construct(e.site), site_where(e.site)), site_where(e.site))
    for e in ctx.fx.of_kind("LEAK"):
        r.bad("leak:%s" % site_construct(e.site), e.site.body, "%s at %s" % (site_construct(e.site), site_where(e.site)), site_where(e.site))
    if len(txns) == 1:
        adt = prog.adts[txns[0]]
        owns = [f for f in adt["variants"][0]["fields"] if prog.types[f["ty"]].get("k") == "adt" and
                effects.norm(prog.types[f["ty"]]["def"]) == "tempfile::NamedTempFile"]
        r.check(len(owns) == 1, "owns-temp", None, "%s owns its NamedTempFile by value (%s)" % (txns[0], owns and owns[0]["name"]),
                "%s does not own a NamedTempFile by value" % txns[0])
    # the publish body removes the staging file in its "destination exists" arm
    for e in ctx.fx.of_kind("FS_RENAME"):
        if not (e.classes2 and e.classes2 <= {"CAS_BLOB"}):
            continue
        for (b, rsite) in ctx.result_views(e.site):
            rf = ctx.rf(b)
            errs = rf.err_edges_of(rsite.bb)
            for bb, kind in rf.forwarded.items():
                if kind != "ok":
                    continue
                oks = rf.ok_edges_of(rsite.bb)
                if oks and cfgutil.edges_dominate(b, oks, bb):
                    continue
                # Ok exit on the error arm: must pass an unlink of the staging path
                unl0 = [x.site for x in ctx.fx.effects if x.site.body.path == b.path and x.kind == "FS_UNLINK"
                        and x.classes <= {"STAGING_FILE"} and x.classes]
                unl = [fs for u in unl0 for fs in ctx.flat_sites_of(b, u)] if getattr(b, "is_flat", False) else unl0
                ok = any(b.dominates(u.bb, bb) and rf.ok_edges_of(u.bb) and
                         cfgutil.edges_dominate(b, rf.ok_edges_of(u.bb), bb) for u in unl)
                r.check(ok, "exists-arm-unlinks-staging", e.site.body,
                        "when the destination already exists, %s removes the staging file before returning Ok" % b.path,
                        "%s can return Ok on the 'already exists' arm and leave the staging file behind" % b.path)
    r.ok("scan", None, "no keep/persist/into_temp_path/forget on temp objects")
    r.need(2, "ownership + scan")
    out.append(r.finish())

    r = Rule("R4", "errors of the blob unlink propagate; only NotFound is tolerated",
             "a blob that could not be deleted is silently left behind (or a real error is reported as success)")
    # judged at the unlink syscall, in the flat view of the function that supplies the path when the syscall sits in a
    # private helper (whose outcome enum the caller turns into an error report)
    occs = []
    for (b_, site_, kb0_) in ctx.concrete_occurrences("BLOB_UNLINK"):
        for (b2_, s2_) in ctx.result_views(site_):
            occs.append((b2_, s2_, kb0_))
    for (b, site, kb0) in occs:
        if (site.path or "") not in ("std::fs::remove_file",):
            continue
        rf = ctx.rf(b)
        errs = rf.err_edges_of(site.bb)
        r.check(bool(errs), "unlink-tested:%s" % kb0.path.split("::")[-1], kb0,
                "the unlink at %s is tested" % site_where(site), "the result of the unlink at %s is not tested" % site_where(site),
                site_where(site))
        sl = Slicer(ctx.world, b)
        for (sb, tb) in errs:
            # on the error edge: reaching an Ok/continue path requires a kind() comparison
            blocks = cfgutil.reach(b, tb)
            fw = [rf.forwarded.get(y) for y in blocks if rf.forwarded.get(y) is not None]
            if fw and site.bb not in blocks and all(x == "err" for x in fw):
                # this edge only propagates (`result.map_err(..)?` after the tolerated kind was dealt with elsewhere)
                r.ok("unlink-error-propagates:%s" % kb0.path.split("::")[-1], kb0,
                     "an error edge of the unlink at %s leads only to an Err return" % site_where(site))
                continue
            kinds = []
            for sw in blocks:
                c = cfgutil.cmp_true_edge(b, sw)
                if c is None or c[0] not in ("Eq", "Ne"):
                    continue
                la = sl.leaves_of_operand(c[1]) | sl.leaves_of_operand(c[2])
                if any(x[0] == "call" and x[1] == "std::io::Error::kind" for x in la):
                    # (switch, edge on which the kind is the tolerated one, edge on which it is another kind)
                    kinds.append((sw, c[3], c[4]) if c[0] == "Eq" else (sw, c[4], c[3]))
            r.check(len(kinds) >= 1, "tolerates-only-a-kind:%s" % kb0.path.split("::")[-1], kb0,
                    "a failed unlink at %s is tolerated only after a test of the error kind" % site_where(site),
                    "a failed unlink at %s is tolerated without looking at the error kind" % site_where(site), site_where(site))
            for (sw, t_eq, t_ne) in kinds:
                # the not-equal edge must end in an error report (Err return or a pushed error message)
                nb = cfgutil.reach(b, t_ne, removed_blocks=[sb])
                errish = any(rf.forwarded.get(y) == "err" for y in nb) or any(
                    (b.blocks[y]["term"]["k"] == "call" and term_path(b.blocks[y]["term"]) == "std::vec::Vec::push") for y in nb)
                if not errish and getattr(b, "is_flat", False):
                    # in a view the error may be built by an inlined closure / helper and handed up through wrappers
                    # (`Some(Err(e))` .. `.unwrap_or(..)`): an `Err(..)` value is built on the way
                    errish = any(st_["k"] == "assign" and st_["rv"]["k"] == "agg" and st_["rv"].get("def") == "std::result::Result"
                                 and st_["rv"].get("vn") == "Err" for y in nb for st_ in b.stmts(y))
                r.check(errish, "other-kinds-reported:%s" % kb0.path.split("::")[-1], kb0,
                        "any other error of the unlink at %s is reported" % site_where(site),
                        "errors other than the tolerated kind of the unlink at %s are dropped" % site_where(site), site_where(site))
    r.need(6, "unlink sites: tested + kind test + reported")
    out.append(r.finish())

    # "nothing less" under concurrency rests on the intents protocol (C04): the delete happens under the protocol
    # lock, in one hold with the apply step
    shared = dict((x.rid, x) for x in c04.rules(ctx, tier))
    for (src, rid, title) in (("R1", "R5", "a dereferenced blob is unlinked under the protocol lock (shared with C04-R1)"),
                              ("R4", "R6", "apply and delete happen under one continuous hold of the protocol lock (shared with C04-R4)"),
                              ("R3", "R8", "content is stored before it is referenced: the intent is registered first, the publish "
                                           "step is not skipped, and the index is updated behind it (shared with C04-R3)")):
        x = shared.get(src)
        if x is not None:
            x.rid = rid
            x.title = title
            x.scenario = ("a concurrent commit of the content being reclaimed registers, publishes and applies in the gap; the "
                          "stale delete then removes its blob: at quiescence a key references a missing file")
            for o in x.obs:
                o.scenario = x.scenario
            out.append(x)

    # the counts the reclamation decision rests on survive a restart: the snapshot loader bumps the count of every
    # loaded key's hash once (shared with C02-R5 / C12-R3)
    from . import c02
    r = Rule("R7", "reference counts after a reopen are again 'number of keys per hash': the loader fills the key map and "
                   "bumps the count of each loaded key's hash exactly once",
             "after a checkpoint and reopen a hash shared by n keys has count 1: removing one sharer unlinks the blob "
             "the others still reference (or the count stays high and the blob is never reclaimed)")
    c02.loader_refcounts(ctx, r, c02.snapshot_loader(ctx))
    r.need(2, "loader fills the map + refcount per key")
    out.append(r.finish())
    return out
