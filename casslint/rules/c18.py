"""C18 Blob identity depends only on content; hash <-> path mapping: one datum, one hash, one path."""
from .. import cfgutil, effects
from ..core import Site, term_path
from ..ctx import sem, sem_set
from ..prov import Slicer, fmt_leaf, binops_in, root_local
from ..vfg import place_of
from .base import Rule, site_construct, site_where, stable_path
from .c13 import txn_type, txn_methods

PROP = "C18"


def rules(ctx, tier):
    out = []
    prog = ctx.prog
    A = ctx.anchors
    must = ctx.must(None)
    txns = txn_type(ctx)
    txn = txns[0] if len(txns) == 1 else None

    r = Rule("R1", "one datum: each write call feeds the same bytes exactly once to the length counter, the hasher and the file",
             "hash, recorded size and file content are computed over different bytes")
    if txn is None:
        r.bad("txn-type", None, "transaction type not found")
    else:
        borrow, consume, ctor = txn_methods(ctx, txn)
        wkeys = set(e.site.key() for e in ctx.fx.effects if e.kind == "FS_WRITE")
        writers = [b for b in borrow if any(s.key() in wkeys for s in ctx.flat(b).sites(("call",)))]
        r.check(len(writers) == 1, "write-method", None, "write method: %s" % ", ".join(b.path for b in writers),
                "expected one borrowing method that writes the staging file, found %d" % len(writers))
        for b in writers:
            one_datum(ctx, r, must, b, txn)
    r.need(4, "writer + three consumers of the data parameter")
    out.append(r.finish())

    r = Rule("R2", "one hash: the hash registered for the index and the hash that names the published file are the same "
                   "value, finalize() of the transaction's hasher; the size registered is the transaction's counter",
             "the index records a hash other than the one the file is stored under")
    if txn is not None:
        one_hash(ctx, r, txn)
    r.need(3, "hash to intent, hash to publish, size to intent")
    out.append(r.finish())

    r = Rule("R3", "one path: the CAS path is a function of the CAS root and the hash alone, computed without side effects",
             "the same content is stored under two paths (or two contents under one)")
    one_path(ctx, r)
    r.need(3, "path builder, relative path purity")
    out.append(r.finish())

    r = Rule("R4", "tiling: the three path components are consecutive slices of the 64 hex digits, and parsing "
                   "concatenates the last three components in order and decodes exactly 64 digits",
             "two hashes map to one path, or a path parses back to another hash")
    tiling(ctx, r)
    r.need(4, "three slices + parser")
    out.append(r.finish())

    # placement: the key is bound to a hash only after THIS transaction's file was renamed to the path of that hash
    from . import c03, order
    r = Rule("R5", "placement: on the commit path the log record / index update of a put is always preceded by the "
                   "successful publish (rename onto the hash-derived path) of this transaction's own staging file",
             "a 'content already stored' shortcut skips the publish on the strength of a stale look at the index: the "
             "commit returns Ok with the right hash and size, but no file exists at the hash-derived path")
    croots = c03.commit_roots(ctx)
    r.check(len(croots) >= 1, "commit-root", None, "commit entry point(s): %s" % ", ".join(b.path for b in croots),
            "no live API root publishes a blob")
    if croots:
        order.require_before(ctx, r, must, must.entry_sets(croots), "WAL_WRITE", ["PUBLISHED"], tag=":commit")
    c03.publish_body_contract(ctx, r, must)
    r.need(3, "commit root, log writes behind the publish, publish contract")
    out.append(r.finish())
    out.append(one_apply_function(ctx, "R6"))
    return out


def one_datum(ctx, r, must, b0, txn):
    """Judged on the flat view of the write method: counter, hasher and buffered writer may live in a private struct of
    the transaction whose `append` does the three steps."""
    prog = ctx.prog
    from .c13 import txn_parts
    parts = txn_parts(ctx, txn)
    size_f, hasher_f = parts["size"], parts["hasher"]
    b = ctx.flat(b0)
    sl = Slicer(ctx.world, b)
    g = ctx.world.vfg
    # data parameter: the &[u8] parameter
    data_params = [i for i in range(1, b.argc + 1) if "[u8]" in prog.ty_str(b.locals[i])]
    if len(data_params) != 1 or len(size_f) != 1 or len(hasher_f) != 1:
        r.bad("shape", b0, "cannot identify data parameter / size / hasher of %s" % b0.path)
        return
    dp = data_params[0]
    data_leaf = lambda lv: bool(lv) and all(l[0] == "param" and l[1] == dp and not l[2] for l in lv)
    size_name = size_f[0][2]
    from .c13 import newtype_tail, path_ends_in
    size_tail = newtype_tail(ctx, size_f[0])

    def is_size_leaf(z):
        return z[0] == "param" and path_ends_in(z[2], size_name, size_tail)

    def strip_newtypes(pl):
        # a write through the field of a single-field struct is a write of the place that holds the struct
        p = list(pl["p"])
        while p and isinstance(p[-1], dict) and "f" in p[-1] and p[-1].get("adt") in g.newtypes:
            p.pop()
        return {"l": pl["l"], "p": p}

    # (a) size += data.len(): writes of the counter field in the view
    ws = []
    for bb in b.normal_blocks():
        for st in b.stmts(bb):
            if st["k"] != "assign" or not st["lhs"]["p"]:
                continue
            lhs = strip_newtypes(st["lhs"])
            root = lhs if any(isinstance(e, dict) and "f" in e for e in lhs["p"]) else \
                ctx.world._root_place(b, {"l": lhs["l"], "p": []})
            if g.node_of_place(b, root) == size_f[0]:
                ws.append((bb, st))
    okc = False
    for (wbb, st) in ws:
        rv = st["rv"]
        lv = sl.leaves_of_rv(rv, wbb)
        for l in lv:
            if l[0] == "binop" and l[1].startswith("Add"):
                ops_here = [(None, rv["op"], rv["a"], rv["b"])] if rv["k"] == "binop" else binops_in(b, l[2])
                for (lhs, op, a, bo) in ops_here:
                    if not op.startswith("Add"):
                        continue
                    la, lb = sl.leaves_of_operand(a), sl.leaves_of_operand(bo)
                    for (x, y) in ((la, lb), (lb, la)):
                        if x and all(is_size_leaf(z) for z in x):
                            lens = [z for z in y if z[0] == "call" and z[1].endswith("::len")]
                            if lens and len(y) == 1:
                                t = b.blocks[lens[0][2]]["term"]
                                if data_leaf(sl.leaves_of_operand(t["args"][0])):
                                    okc = True
    r.check(okc and len(ws) == 1, "count", b0, "size += data.len() (once)",
            "the size counter of %s is not advanced exactly once by data.len() (writes: %d)" % (b0.path, len(ws)))
    # (b) hasher.update(data) exactly once, on every Ok path
    ups = [s for s in b.calls() if (s.path or "").startswith("blake3::Hasher::update")]
    okh = len(ups) == 1 and data_leaf(sl.leaves_of_operand(ups[0].term["args"][1])) and \
        ctx.world.recv_field(b, ups[0].term["args"][0]) == hasher_f[0]
    r.check(okh, "hash", b0, "hasher.update(data) (once)",
            "%s does not feed exactly the data parameter to the transaction's hasher once (%d update call(s))" % (b0.path, len(ups)))
    # (c) write_all(data) exactly once
    wkeys = set(e.site.key() for e in ctx.fx.effects if e.kind == "FS_WRITE" and e.site.kind == "call")
    wr = [s for s in b.calls() if s.key() in wkeys]
    okw = len(wr) == 1 and data_leaf(sl.leaves_of_operand(wr[0].term["args"][1])) and \
        (wr[0].path or "").endswith("write_all")
    r.check(okw, "file", b0, "writer.write_all(data) (once)",
            "%s does not write exactly the data parameter to the staging file once with write_all (%d write call(s))" % (b0.path, len(wr)))
    # all three on every path to Ok
    rf = ctx.rf(b)
    for bb, kind in rf.forwarded.items():
        if kind != "ok":
            continue
        doms = True
        for s in ups + wr:
            if not b.dominates(s.bb, bb):
                doms = False
        for (wbb, _st) in ws:
            if not b.dominates(wbb, bb):
                doms = False
        if wr:
            oks = rf.ok_edges_of(wr[0].bb)
            doms = doms and bool(oks) and cfgutil.edges_dominate(b, oks, bb)
        r.check(doms, "all-three-before-ok", b0, "count, hash and file write all precede the Ok return",
                "%s can return Ok without having counted, hashed and written the data" % b0.path)


def one_hash(ctx, r, txn):
    prog = ctx.prog
    from .c13 import txn_parts, _owned_structs
    parts = txn_parts(ctx, txn)
    size_f = [n[2] for n in parts["size"]]
    size_owner = [n[1] for n in parts["size"]]
    from .c13 import newtype_tail, path_ends_in
    size_tail = newtype_tail(ctx, parts["size"][0]) if parts["size"] else ()
    txn_family = set([txn]) | set(_owned_structs(prog, txn).keys())
    hash_ty = ctx.anchors.get("HASH")
    from .c06 import rooted_in_txn_field, leaf_root_adt
    done = set()
    chains = ctx.sem_chains("BLOB_PUBLISH")
    if not chains:
        others = [e for e in ctx.fx.effects if e.kind not in ("FS_RENAME", "FS_UNLINK", "FS_OPEN", "FS_STAT", "FS_READ",
                                                               "FS_READ_AT", "FS_CLOSE", "FS_MKDIR")
                  and "CAS_BLOB" in (e.classes | (e.classes2 or frozenset()))]
        r.bad("publish-site", others[0].site.body if others else None,
              "no rename of a staging file onto a CAS path: the file at path(hash) is not put there by an atomic "
              "replace%s - whatever already sits at that path stays, whether or not it has that hash" % (
                  " (found instead: %s at %s)" % (others[0].kind, site_where(others[0].site)) if others else ""))
    for chain in chains:
        # the frame that both registers the intent and (directly or through callees) publishes
        from .c04 import intent_owner
        ow = intent_owner(ctx, chain)
        pub = ow[2] if ow is not None else chain[0]
        if pub.key() in done:
            continue
        done.add(pub.key())
        b = pub.body
        sl = Slicer(ctx.world, b)
        regs = [s for s in b.calls() if "INTENT_ADD" in sem_set(ctx.may.site_events(s)) and prog.local_target(s) is not None
                and ctx.dominates_threaded(b, s.bb, pub.bb) and s.bb != pub.bb]

        def hash_args(site):
            res = set()
            for a in site.term["args"]:
                pl = place_of(a)
                if pl is None:
                    continue
                ty = ctx.world._place_ty(b, pl)
                if prog.adt_of(ty)[0] == hash_ty:
                    res |= sl.leaves_up(a, depth=5)
                else:
                    d, _ = prog.adt_of(ty)
                    if d in prog.adts and prog.types[prog.strip_refs(ty)].get("k") == "adt":
                        for f in prog.adts[d]["variants"][0]["fields"]:
                            if prog.adt_of(f["ty"])[0] == hash_ty:
                                res |= sl.leaves_up(a, path=(f["name"],), depth=5)
            return res

        def size_args(site):
            res = set()
            for a in site.term["args"]:
                pl = place_of(a)
                if pl is None:
                    continue
                ty = ctx.world._place_ty(b, pl)
                d, _ = prog.adt_of(ty)
                if d in prog.adts and prog.types[prog.strip_refs(ty)].get("k") == "adt":
                    for f in prog.adts[d]["variants"][0]["fields"]:
                        if prog.ty_str(f["ty"]) == "u64":
                            res |= sl.leaves_up(a, path=(f["name"],), depth=5)
            return res
        from ..prov import expand_down
        _ha = hash_args

        def hash_args(site):      # values that merely pass through a crate helper (the guard carries the hash it was
            return expand_down(ctx.world, b, _ha(site))     # registered with) are traced to what the helper was given
        hp = hash_args(pub)
        fin = lambda lv: bool(lv) and all(l[0] == "call" and l[1] == "blake3::Hasher::finalize" for l in lv) and len(lv) == 1
        r.check(fin(hp), "publish-hash", b, "the published file is named after finalize() (%s)" % ", ".join(fmt_leaf(l) for l in hp),
                "the hash naming the published file has origins %s" % sorted(fmt_leaf(l) for l in hp), site_where(pub))
        for reg in regs:
            hr = hash_args(reg)
            r.check(fin(hr) and hr == hp, "intent-hash", b,
                    "the hash registered for the index is the same finalize() result",
                    "the hash registered at %s (%s) is not the value that names the file (%s)" % (
                        site_where(reg), sorted(fmt_leaf(l) for l in hr), sorted(fmt_leaf(l) for l in hp)), site_where(reg))
            sz = expand_down(ctx.world, b, size_args(reg))
            oks = bool(sz) and bool(size_f) and all(
                l[0] in ("param", "xparam") and leaf_root_adt(prog, b, l) in txn_family and
                path_ends_in(l[2], size_f[0], size_tail) for l in sz)
            r.check(oks, "intent-size", b,
                    "the size registered is the transaction's byte counter",
                    "the size registered at %s has origins %s" % (site_where(reg), sorted(fmt_leaf(l) for l in sz)), site_where(reg))
        # finalize is called on the transaction's own hasher
        for l in hp:
            if l[0] == "call":
                t = sl.call_at(l[2])
                inner = sl.at(l[2]).leaves_up(t["args"][0], depth=5)
                r.check(rooted_in_txn_field(ctx, sl.at(l[2]), inner, txn, "blake3::Hasher"), "own-hasher", b,
                        "finalize() is called on the transaction's own hasher", "finalize() is called on another hasher")


def one_path(ctx, r):
    prog = ctx.prog
    hash_ty = ctx.anchors.get("HASH")
    g = ctx.world.vfg
    # path builders: local fns returning PathBuf labelled CAS_BLOB
    builders = [b for b in prog.bodies.values() if not b.is_closure and "CAS_BLOB" in g.labels.get(("L", b.path, 0), ())
                and prog.adt_of(b.locals[0])[0] == "std::path::PathBuf"]
    r.check(len(builders) == 1, "path-builder", builders[0] if builders else None,
            "CAS path builder: %s" % ", ".join(b.path for b in builders), "expected one CAS path builder, found %d" % len(builders))
    for b in builders:
        sl = Slicer(ctx.world, b, follow_local=False)
        lv = sl.leaves_of_place({"l": 0, "p": []})
        ok = len(lv) == 1 and list(lv)[0][0] == "call" and list(lv)[0][1] == "std::path::Path::join"
        inputs = set()
        rel = None
        if ok:
            t = b.blocks[list(lv)[0][2]]["term"]
            base = sl.leaves_of_operand(t["args"][0])
            comp = sl.leaves_of_operand(t["args"][1])
            inputs = base | comp
            okb = all(l[0] == "call" and prog.local_target(Site(b, l[2], b.blocks[l[2]]["term"])) is not None or
                      (l[0] == "param" and l[1] == 1) for l in base)
            okc = len(comp) == 1 and list(comp)[0][0] == "call"
            if okc:
                t2 = b.blocks[list(comp)[0][2]]["term"]
                rel = prog.local_target(Site(b, list(comp)[0][2], t2))
                arg = sl.leaves_of_operand(t2["args"][0])
                okc = rel is not None and all(l[0] == "param" and prog.adt_of(b.locals[l[1]])[0] == hash_ty for l in arg)
            ok = okb and okc
        r.check(ok, "path-inputs", b, "%s = cas_root.join(relative_path(hash))" % b.path,
                "%s builds the CAS path from %s" % (b.path, sorted(fmt_leaf(l) for l in inputs) or sorted(fmt_leaf(l) for l in lv)))
        if rel is not None:
            rb = prog.reachable_bodies([rel])
            fx = [e for e in ctx.fx.effects if e.site.body.path in rb]
            statics = [s for p in rb for s in prog.bodies[p].calls() if (s.path or "").startswith(("std::env::", "std::time::", "std::process::"))]
            r.check(not fx and not statics, "relative-path-pure", rel, "%s has no effect and reads only its argument" % rel.path,
                    "%s has effects or reads ambient state" % rel.path)
            r.check(rel.argc == 1 and prog.adt_of(rel.locals[1])[0] == hash_ty, "relative-path-args", rel,
                    "%s takes only the hash" % rel.path, "%s takes more than the hash" % rel.path)


def _origin(V, op, proj=(), depth=0):
    """Where an operand's value comes from, through single-definition copies, reborrows, casts and tuple
    aggregates (component-wise). Returns
      ("call", bb, proj)            defined by the call ending block bb (proj = remaining field path)
      ("cidx", k, from_end, place)  `&slice[k]` / `&slice[-k]` (a slice-pattern binding)
      ("agg", rv, bb)               another aggregate
      ("param", l, proj) / None."""
    pl = place_of(op) if not ("l" in op and "p" in op) else op
    for _ in range(60):
        if pl is None:
            return None
        fs = []
        for e in pl["p"]:
            if e == "deref" or (isinstance(e, dict) and "dc" in e):
                continue
            if isinstance(e, dict) and "f" in e:
                fs.append(e["f"])
                continue
            if isinstance(e, dict) and "cidx" in e:
                return ("cidx", e["cidx"], bool(e.get("from_end")), pl)
            return None
        proj = tuple(fs) + tuple(proj)
        l = pl["l"]
        defs = V.assignments().get(l, [])
        if not defs and 1 <= l <= V.argc:
            return ("param", l, proj)
        if len(defs) > 1:
            # copies of one statement (a flat view duplicates blocks when it threads jumps) are one definition
            uniq = []
            for d in defs:
                if not any(d[1] != "term" and u[1] != "term" and d[2] == u[2] for u in uniq):
                    uniq.append(d)
            defs = uniq
        if len(defs) > 1 and proj:
            # `match .. { [.., a, b, c] => Some([a, b, c]), _ => None }`: of the variants the value can be, the payload
            # that is asked for exists in one only
            full = [d for d in defs if d[1] != "term" and d[2]["k"] == "agg" and d[2].get("ak") == "adt" and d[2]["ops"]]
            rest = [d for d in defs if d not in full]
            if len(full) == 1 and all(d[1] != "term" and d[2]["k"] == "agg" and not d[2]["ops"] for d in rest):
                defs = full
        if len(defs) != 1:
            return None
        bb, j, rv = defs[0]
        if j == "term":
            return ("call", bb, proj)
        k = rv["k"]
        if k in ("use", "cast"):
            pl = place_of(rv["op"])
            continue
        if k == "ref":
            pl = rv["place"]
            continue
        if k == "agg" and rv.get("ak") == "tuple" and proj:
            pl = place_of(rv["ops"][proj[0]])
            proj = proj[1:]
            continue
        if k == "agg" and rv.get("ak") == "adt" and proj and isinstance(proj[0], int) and proj[0] < len(rv["ops"]):
            # `Some([a, b, c])` returned by an inlined helper and taken apart again
            pl = place_of(rv["ops"][proj[0]])
            proj = proj[1:]
            continue
        if k == "agg":
            return ("agg", rv, bb)
        return None
    return None


_STR_VIEW = ("deref", "as_str", "as_ref", "borrow", "as_bytes", "as_mut_str", "clone", "to_owned", "to_string")


def _str_span(V, op, bases, proj=(), depth=0):
    """[lo, hi) of the hex string that a string operand denotes (hi None = end of the string); the string itself
    is whatever call first produced it (recorded in `bases`)."""
    from .c16 import _const_range, _const_value
    o = _origin(V, op, proj)
    if o is None or o[0] != "call" or depth > 12:
        return None
    bb, proj = o[1], o[2]
    t = V.blocks[bb]["term"]
    p = (t["callee"].get("resolved") or t["callee"].get("path") or "")
    last = p.split("::")[-1]
    args = t["args"]
    if last == "index" and "Index" in (t["callee"].get("path") or "") and len(args) == 2 and not proj:
        s0 = _str_span(V, args[0], bases, (), depth + 1)
        rng = _const_range(V, args[1])
        if s0 is None or rng is None:
            return None
        lo = s0[0] + (rng[0] or 0)
        hi = s0[0] + rng[1] if rng[1] is not None else s0[1]
        return (lo, hi)
    if last in ("split_at", "split_at_checked") and len(args) == 2 and len(proj) == 1:
        s0 = _str_span(V, args[0], bases, (), depth + 1)
        n = _const_value(V, args[1])
        if s0 is None or n is None:
            return None
        return (s0[0], s0[0] + n) if proj[0] == 0 else (s0[0] + n, s0[1])
    if last in _STR_VIEW and len(args) == 1 and not proj:
        return _str_span(V, args[0], bases, (), depth + 1)
    if last == "encode" and p.startswith("hex::") and len(args) == 1 and not proj:
        # the hex string of a run of the hash's bytes is that run of the hash's hex string (two digits per byte)
        bs = _byte_span(V, args[0], bases)
        if bs is not None:
            return (2 * bs[0], None if bs[1] is None else 2 * bs[1])
    if not proj:
        bases.add(V.origin_key(bb))
        return (0, None)
    return None


def _byte_span(V, op, bases, depth=0):
    """[lo, hi) of a byte array that an operand denotes: `[a[k]]`, `[a[k], a[k+1]]`, `&a[i..j]` (slice-pattern bindings and
    constant sub-slices), through copies and reborrows.  The array is recorded in `bases`."""
    pl = place_of(op) if not ("l" in op and "p" in op) else op
    for _ in range(24):
        if pl is None or depth > 6:
            return None
        for i, e in enumerate(pl["p"]):
            if isinstance(e, dict) and ("cidx" in e or "sub_from" in e):
                if e.get("from_end"):
                    return None
                root = cfgutil.canon_place(V, {"l": pl["l"], "p": pl["p"][:i]})
                bases.add(("bytes", root[0], tuple(root[1])))
                if "cidx" in e:
                    return (e["cidx"], e["cidx"] + 1)
                return (e["sub_from"], e["sub_to"])
        defs = V.assignments().get(pl["l"], [])
        if len(defs) != 1 or defs[0][1] == "term":
            return None
        rv = defs[0][2]
        if rv["k"] in ("use", "cast"):
            pl = place_of(rv["op"])
            continue
        if rv["k"] == "ref":
            pl = rv["place"]
            continue
        if rv["k"] == "agg" and rv.get("ak") == "array" and rv["ops"]:
            spans = [_byte_span(V, o, bases, depth + 1) for o in rv["ops"]]
            if any(x is None or x[1] is None for x in spans):
                return None
            for a, b2 in zip(spans, spans[1:]):
                if a[1] != b2[0]:
                    return None
            return (spans[0][0], spans[-1][1])
        return None
    return None


def _is_strish(prog, V, op):
    pl = place_of(op)
    if pl is None:
        return False
    s = prog.ty_str(V.locals[pl["l"]]).replace("&", "").replace("mut ", "").strip()
    return s in ("str", "std::string::String") and not [e for e in pl["p"] if e != "deref"]


def _path_seq(ctx, V, op, bases, depth=0):
    """The components a path value is assembled from, in order: From/new/join calls, then the pushes on it."""
    prog = ctx.prog
    if depth > 10:
        return None
    if _is_strish(prog, V, op):
        sp = _str_span(V, op, bases)
        return None if sp is None else [sp]
    o = _origin(V, op)
    if o is None or o[0] != "call" or o[2]:
        return None
    bb = o[1]
    t = V.blocks[bb]["term"]
    p = (t["callee"].get("resolved") or t["callee"].get("path") or "")
    last = p.split("::")[-1]
    args = t["args"]
    if p.endswith("std::path::Path::join") and len(args) == 2:
        base = _path_seq(ctx, V, args[0], bases, depth + 1)
        comp = _path_seq(ctx, V, args[1], bases, depth + 1)
        seq = None if base is None or comp is None else base + comp
    elif p == "std::path::PathBuf::new" and not args:
        seq = []
    elif last in ("from", "new", "into", "to_path_buf", "to_owned", "clone", "deref", "as_path", "as_ref", "borrow") and len(args) == 1:
        seq = _path_seq(ctx, V, args[0], bases, depth + 1)
    else:
        return None
    if seq is None:
        return None
    # in-place appends to the value this call created
    dest = t["dest"]["l"]
    holders = {dest}
    changed = True
    while changed:
        changed = False
        for l, defs in V.assignments().items():
            for (dbb, j, rv) in defs:
                if j != "term" and rv["k"] == "use" and "move" in rv["op"] and not rv["op"]["move"]["p"] \
                        and rv["op"]["move"]["l"] in holders and l not in holders and l != 0:
                    holders.add(l)
                    changed = True
    pushes = [c for c in V.calls() if (c.path or "") == "std::path::PathBuf::push" and c.term["args"]
              and ctx.world.borrowed_local(V, c.term["args"][0]) in holders]
    pushes.sort(key=lambda c: sum(1 for d in pushes if V.dominates(d.bb, c.bb)))
    for a, b2 in zip(pushes, pushes[1:]):
        if not V.dominates(a.bb, b2.bb):
            return None
    for c in pushes:
        comp = _path_seq(ctx, V, c.term["args"][1], bases, depth + 1)
        if comp is None or not V.dominates(bb, c.bb):
            return None
        seq = seq + comp
    return seq


def _buffer_local(V, op, depth=0):
    """The buffer an operand views, as a canonical place (local, field names): a local vector, or a vector field of a
    local accumulator struct - through reborrows, deref/as_slice calls and `&self` / `&mut self` of inlined helpers."""
    pl = place_of(op)
    if pl is None or depth > 8:
        return None
    c = cfgutil.canon_place(V, {"l": pl["l"], "p": list(pl["p"]) + ["deref"]}) if \
        V.prog.types[V.locals[pl["l"]]].get("k") == "ref" and not pl["p"] else cfgutil.canon_place(V, pl)
    defs = V.assignments().get(c[0], [])
    if not c[1] and len(defs) == 1 and defs[0][1] == "term":
        t = defs[0][2]
        last = (t["callee"].get("resolved") or t["callee"].get("path") or "").split("::")[-1]
        if last in ("deref", "as_slice", "as_ref", "borrow", "as_bytes", "as_str", "deref_mut", "as_mut_slice") and len(t["args"]) == 1:
            return _buffer_local(V, t["args"][0], depth + 1)
    return c


def _append_sequence(ctx, V, buf):
    """The slice-pattern bindings appended to the byte buffer `buf`, in order: [(k, from_end), ..] or None."""
    apps = [c for c in V.calls() if (c.path or "").split("::")[-1] in ("extend_from_slice", "extend", "push_str", "write_all",
                                                                        "extend_from_within", "append")
            and c.term["args"] and _buffer_local(V, c.term["args"][0]) == buf]
    apps.sort(key=lambda c: sum(1 for d in apps if V.dominates(d.bb, c.bb)))
    for a, b2 in zip(apps, apps[1:]):
        if not V.dominates(a.bb, b2.bb):
            return None
    seq = []

    def nth_from_end(t, bb):
        """`it.next()` with `it = path.components().rev()`: the k-th such call yields the k-th component from the end."""
        it = ctx.world.borrowed_local(V, t["args"][0]) if t["args"] else None
        if it is None:
            return None
        o_it = _origin(V, {"l": it, "p": []})
        if o_it is None or o_it[0] != "call" or o_it[2]:
            return None
        t_rev = V.blocks[o_it[1]]["term"]
        if (t_rev["callee"].get("path") or "").split("::")[-1] != "rev" or not t_rev["args"]:
            return None
        o_c = _origin(V, t_rev["args"][0])
        if o_c is None or o_c[0] != "call" or \
                (V.blocks[o_c[1]]["term"]["callee"].get("path") or "").split("::")[-1] != "components":
            return None
        # every use of the iterator is a `next` on it, and they are totally ordered
        uses = [c for c in V.calls() if any(ctx.world.borrowed_local(V, a) == it or
                                            (place_of(a) is not None and place_of(a)["l"] == it) for a in c.term["args"])]
        nexts = [c for c in uses if (c.path or "").endswith("Iterator::next")]
        if len(uses) != len(nexts):
            return None
        nexts.sort(key=lambda c: sum(1 for d in nexts if V.dominates(d.bb, c.bb)))
        for a, b2 in zip(nexts, nexts[1:]):
            if not V.dominates(a.bb, b2.bb) or a.bb in cfgutil.reach(V, a.term["t"]):
                return None
        for k, c in enumerate(nexts):
            if c.bb == bb:
                return [(k + 1, True)]
        return None

    def comp(op, depth=0, proj=()):
        o = _origin(V, op, proj)
        if o is None or depth > 10:
            return None
        if o[0] == "cidx":
            return [(o[1], o[2])]
        if o[0] == "call":
            t0 = V.blocks[o[1]]["term"]
            last0 = (t0["callee"].get("resolved") or t0["callee"].get("path") or "").split("::")[-1]
            pj = tuple(o[2])
            if last0 == "zip" and (t0["callee"].get("path") or "").startswith("std::option::Option") and \
                    len(pj) >= 2 and pj[0] == 0 and pj[1] in (0, 1) and len(t0["args"]) == 2:
                # `a.zip(b)`: component i of the payload is the payload of the i-th operand
                return comp(t0["args"][pj[1]], depth + 1, (0,) + pj[2:])
            if last0 == "next" and pj == (0,):
                y = nth_from_end(t0, o[1])
                if y is not None:
                    return y
        if o[0] == "agg" and o[1].get("ak") == "array":
            out = []
            for x in o[1]["ops"]:
                y = comp(x, depth + 1)
                if y is None or len(y) != 1:
                    return None
                out += y
            return out
        if o[0] != "call":
            return None
        t = V.blocks[o[1]]["term"]
        last = (t["callee"].get("resolved") or t["callee"].get("path") or "").split("::")[-1]
        if last in ("as_encoded_bytes", "as_os_str", "as_bytes", "as_ref", "deref", "borrow", "to_str", "as_str",
                    "next", "into_iter", "iter", "copied", "cloned", "as_slice", "unwrap", "expect") and t["args"]:
            return comp(t["args"][0], depth + 1)
        return None
    for c in apps:
        y = comp(c.term["args"][1])
        if y is None:
            return None
        seq += y
    return seq


def tiling(ctx, r):
    prog = ctx.prog
    hash_ty = ctx.anchors.get("HASH")
    n_hex = 2 * (prog.consts.get("types::HASH_SIZE", {}).get("v") or 32)
    # the relative-path function: takes the hash, returns a PathBuf
    for b in prog.bodies.values():
        if b.is_closure or b.argc != 1 or prog.adt_of(b.locals[1])[0] != hash_ty:
            continue
        if prog.adt_of(b.locals[0])[0] != "std::path::PathBuf":
            continue
        V = ctx.flat(b)
        bases = set()
        seq = _path_seq(ctx, V, {"move": {"l": 0, "p": []}}, bases)
        if seq is None:
            r.bad("tiles", b, "cannot follow how %s assembles the path from slices of the hex string" % b.path)
            continue
        r.check(len(bases) == 1, "hex-source", b, "all components are slices of one hex string (%s)" % ", ".join(
            str(k) for k in sorted(bases, key=str)), "the path components are cut from different strings: %s" % sorted(bases, key=str))
        fmt = lambda x: "[%s..%s)" % (x[0], "end" if x[1] is None else x[1])
        seq = [(lo, None if hi == n_hex else hi) for (lo, hi) in seq]
        rs = sorted(seq, key=lambda x: x[0])
        pos = 0
        ok = True
        for (lo, hi) in rs:
            if lo != pos:
                ok = False
            pos = hi
        ok = ok and pos is None and len(rs) >= 1 and all(x[1] is None or x[1] <= n_hex for x in rs)
        r.check(ok, "tiles", b, "components tile the hex string: %s" % ", ".join(fmt(x) for x in rs),
                "the component ranges %s do not tile [0, %d) in order" % (", ".join(fmt(x) for x in rs), n_hex))
        starts = [x[0] for x in seq]
        r.check(starts == sorted(starts), "join-order", b,
                "components are joined in order %s" % starts, "components are joined in order %s" % starts)
    # parser: last three components, in order, decoded into exactly HASH_SIZE bytes
    from .c16 import parsers
    for b in parsers(ctx):
        if prog.adt_of(b.locals[1])[0] != "std::path::Path":
            continue
        V = ctx.flat(b)
        decs = [s for s in V.calls() if (s.path or "").startswith("hex::decode")]
        okd = False
        bufs = set()
        for d in decs:
            # destination is a fixed [u8; HASH_SIZE] array
            dst = ctx.world.borrowed_local(V, d.term["args"][1]) if len(d.term["args"]) > 1 else None
            if dst is not None:
                t = prog.types[prog.strip_refs(V.locals[dst])]
                n = t.get("n")
                if n is None:
                    for (dbb, j, rv) in V.assignments().get(place_of(d.term["args"][1])["l"], []):
                        if j != "term" and rv["k"] == "cast":
                            n = prog.types[prog.strip_refs(rv["from"])].get("n")
                okd = n == (prog.consts.get("types::HASH_SIZE", {}).get("v") or 32)
            src = _buffer_local(V, d.term["args"][0]) if d.term["args"] else None
            if src is not None:
                bufs.add(src)
        r.check(okd, "parse-exact-length", b, "%s decodes into exactly HASH_SIZE bytes (hex::decode_to_slice rejects any other length)" % b.path,
                "%s does not decode into a fixed HASH_SIZE buffer" % b.path)
        # slice pattern [.., a, b, c] appended in the order a, b, c
        seq = _append_sequence(ctx, V, list(bufs)[0]) if len(bufs) == 1 else None
        okp = seq == [(3, True), (2, True), (1, True)]
        r.check(okp, "parse-last-three-in-order", b, "%s concatenates components [-3], [-2], [-1] in that order" % b.path,
                "%s does not concatenate the last three components in order (appended: %s)" % (
                    b.path, "cannot follow" if seq is None else ", ".join("[%s%d]" % ("-" if fe else "", k) for k, fe in seq)))


def _join_order(b, sl):
    """Leaves of the components in the order they are appended by nested Path::join calls, or None."""
    lv = sl.leaves_of_place({"l": 0, "p": []})
    if len(lv) != 1 or list(lv)[0][0] != "call":
        return None
    order = []
    cur = list(lv)[0]
    for _ in range(6):
        t = b.blocks[cur[2]]["term"]
        if cur[1] == "std::path::Path::join":
            order.insert(0, sl.leaves_of_operand(t["args"][1]))
            base = sl.leaves_of_operand(t["args"][0])
            nxt = [l for l in base if l[0] == "call"]
            if len(nxt) != 1:
                order.insert(0, base)
                break
            if nxt[0][1] != "std::path::Path::join":
                order.insert(0, base)
                break
            cur = nxt[0]
        else:
            break
    return order


def one_apply_function(ctx, rid):
    """Replay applies a logged operation with the very code that applied it when it was logged: every function that
    writes the key map on behalf of the replay callback is one the live apply step uses too (a replay-only twin of the
    apply function is a second implementation that can disagree with the first - in the size it records, say)."""
    from . import c02
    from ..ctx import ANCHOR_FIELDS
    prog = ctx.prog
    r = Rule(rid, "replay re-applies operations with the function that applied them live: the key map is written on the "
                  "replay path only by functions the live apply step also uses",
             "a 'fast' replay-only apply function swaps the hash of an overwritten key but keeps the old size: after a "
             "restart the key's recorded size is that of its previous content")
    writers = set(cu.site.body.path for cu in ctx.world.container_uses
                  if ANCHOR_FIELDS.get(cu.field) == "KEYMAP" and cu.mutable)
    live = prog.reachable_bodies(ctx.live_roots())
    cbs = c02.replay_callbacks(ctx)
    replay = prog.reachable_bodies(cbs)
    n = 0
    for p in sorted(writers & set(replay)):
        n += 1
        r.check(p in live, "replay-writer:%s" % p.split("::")[-1], prog.bodies[p],
                "%s writes the key map for replay and for the live path alike" % p,
                "%s writes the key map only when the log is replayed: live and replayed operations are applied by "
                "different code" % p)
    r.check(bool(cbs), "replay-callback", None, "%d replay callback(s)" % len(cbs), "cannot find the replay callback")
    r.need(2, "replay callback + the functions that write the key map for it")
    return r.finish()
