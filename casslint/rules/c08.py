"""C08 Orphan scan exact; clean-up complete and harmless: the clean-up half and the scan's shape."""
from .. import cfgutil
from ..core import Site, term_path
from ..ctx import sem, sem_set
from ..prov import Slicer, fmt_leaf
from ..vfg import place_of
from . import c04
from .base import Rule, site_construct, site_where, stable_path

PROP = "C08"


def report_struct(ctx):
    """The report type: the crate-local struct with several Vec<hash> / Vec<PathBuf> fields that is
    returned by the scan (the body that reads the CAS directory tree)."""
    prog = ctx.prog
    hash_ty = ctx.anchors.get("HASH")
    best = None
    for path, adt in prog.adts.items():
        if adt["kind"] != "Struct":
            continue
        hv = pv = 0
        for f in adt["variants"][0]["fields"]:
            d, args = prog.adt_of(f["ty"])
            if d == "std::vec::Vec" and args:
                if prog.adt_of(args[0])[0] == hash_ty:
                    hv += 1
                elif prog.adt_of(args[0])[0] == "std::path::PathBuf":
                    pv += 1
        if hv >= 2 and pv >= 1:
            # the report is the type a caller gets (an internal accumulator struct of the scan may look alike)
            if best is None or (adt.get("reachable") and not prog.adts[best].get("reachable")):
                best = path
    return best


def scan_body(ctx, report):
    """(flat view of the function that builds the report, the aggregate statement in that view): per-directory
    helpers of the scan are part of the view."""
    for b in ctx.prog.bodies.values():
        for bb in b.normal_blocks():
            for i, s in enumerate(b.stmts(bb)):
                if s["k"] == "assign" and s["rv"]["k"] == "agg" and s["rv"].get("def") == report:
                    from .. import flat as flatmod
                    prog = ctx.prog
                    hash_ty = ctx.anchors.get("HASH")

                    def carries_lists(ty):
                        # &mut Vec<hash|PathBuf>, or &mut of a crate-local struct with such fields
                        t = prog.types[ty]
                        if not (t.get("k") == "ref" and t.get("mut")):
                            return False
                        def has_list(ix, seen=()):
                            tt = prog.types[ix]
                            if tt.get("k") == "adt" and tt.get("def") == "std::vec::Vec":
                                a = [x for x in tt.get("args", []) if isinstance(x, int)]
                                return bool(a) and prog.adt_of(a[0])[0] in (hash_ty, "std::path::PathBuf")
                            if tt.get("k") == "adt" and tt.get("def") in prog.adts and tt["def"] not in seen:
                                return any(has_list(f["ty"], seen + (tt["def"],))
                                           for v in prog.adts[tt["def"]]["variants"] for f in v["fields"])
                            return False
                        return has_list(t["in"])

                    def policy(site, tgt, how):
                        # only the helpers that fill the report's lists through a reference are part of the scan
                        if how != "direct" or tgt.reachable or tgt.is_closure:
                            return False
                        return any(carries_lists(tgt.locals[k]) for k in range(1, tgt.argc + 1))
                    V = flatmod.flatten(prog, b, policy, 3)
                    for fb in V.normal_blocks():
                        if V.origin_key(fb) == (b.path, bb):
                            st = V.blocks[fb]["stmts"][i]
                            if st["k"] == "assign" and st["rv"]["k"] == "agg" and st["rv"].get("def") == report:
                                return V, st
                    return b, s
    return None, None


def cleanup_views(ctx, report):
    """[(entry point, its flat view, the unlink/rename sites in the view)] for the API functions on the report that
    remove something - in their own body or in private helpers they share (a `dispose(how)` helper whose `match` on
    the literal argument is decided per entry point)."""
    out = []
    keys = {}
    for e in ctx.fx.effects:
        if e.kind in ("FS_UNLINK", "FS_RENAME") and e.site.kind == "call":
            keys[e.site.key()] = e
    # path builders stay calls (`cas_file_path(hash)`): the rules read "the path of this hash" off the call
    prog = ctx.prog
    builders = tuple(sorted(p_ for p_, bd in prog.bodies.items() if not bd.is_closure and
                            prog.adt_of(bd.locals[0])[0] in ("std::path::PathBuf", "std::path::Path")))
    for b in ctx.api_roots():
        if b.argc >= 1 and ctx.prog.adt_of(b.locals[1])[0] == report:
            V = ctx.flat(b, stop=builders)
            rem = [(fs, keys[fs.key()]) for fs in V.sites(("call",)) if fs.key() in keys and not V.blocks[fs.bb].get("cleanup")]
            if rem:
                out.append((b, V, rem))
    return out


def cleanup_roots(ctx, report):
    return [b for (b, _V, _r) in cleanup_views(ctx, report)]


def rules(ctx, tier):
    out = []
    prog = ctx.prog
    L = ctx.locks
    report = report_struct(ctx)
    P, _ = c04.protocol_lock(ctx)
    fcont = c04.filter_containers(ctx)

    r = Rule("R1", "clean-up re-validates each orphan under the protocol lock before removing it",
             "a blob that became referenced (or that a concurrent put of the same content is committing) after the "
             "scan is deleted by clean-up")
    if report is None:
        r.bad("report-type", None, "cannot find the orphan report struct")
        out.append(r.finish())
        return out
    croots = cleanup_roots(ctx, report)
    r.check(len(croots) >= 3, "cleanup-entry-points", None,
            "clean-up entry points: %s" % ", ".join(b.path.split("::")[-1] for b in croots),
            "expected 3 clean-up entry points on %s, found %d" % (report, len(croots)))
    n_unlink = 0
    cviews = cleanup_views(ctx, report)
    unlink_keys = set(s_.key() for s_ in ctx.sem_sites("BLOB_UNLINK"))
    g_ = ctx.world.vfg
    for (b, V, rem) in cviews:
        for (fs, e) in rem:
            # a blob unlink: by its own classification, or (the path being a parameter of a private helper) by the
            # class of the path it is handed in this view
            if fs.key() not in unlink_keys and not (e.kind == "FS_UNLINK" and "CAS_BLOB" in g_.labels_of_operand(
                    V, fs.term["args"][0])):
                continue
            site = V.orig_site(fs)
            n_unlink += 1
            h = L.must_held_at(site)
            cs = set(c for c, _ in (h or ()))
            r.check(bool(P) and P <= cs, "held:%s" % site_construct(site), b,
                    "%s at %s under %s" % (site_construct(site), site_where(site), sorted(cs)),
                    "%s at %s without the protocol lock" % (site_construct(site), site_where(site)), site_where(site))
            c04.check_direct_unlink(ctx, r, fs, fcont, kb=b)
            membership_guard(ctx, r, V, fs, report, kb=b)
    r.need(10, "3 entry points: lock held + two guards each")
    out.append(r.finish())

    r = Rule("R2", "only reported garbage is removed: every removed path comes from a list of the same report",
             "clean-up deletes something the scan did not report (a fresh scan result, or a path from the index)")
    from ..prov import TRANSPARENT, ITER_PRESERVING
    for (b0, b, rem) in cviews:
        sl = Slicer(ctx.world, b, transparent=TRANSPARENT | ITER_PRESERVING)
        for (site, e) in rem:
            leaves = sl.leaves_of_operand(site.term["args"][0])
            ok = True
            why = []
            for l in leaves:
                if l[0] == "param" and l[1] == 1 and l[2]:
                    why.append("self.%s" % ".".join(l[2]))
                elif l[0] == "call":
                    # path built from a hash: the hash must come from a list of self or be a checked parameter
                    t = b.blocks[l[2]]["term"]
                    hl = set()
                    for a in t["args"][1:]:
                        hl |= sl.leaves_of_operand(a)
                    for x in hl:
                        if x[0] == "param" and x[1] == 1 and x[2]:
                            why.append("path-of(self.%s)" % ".".join(x[2]))
                        elif x[0] == "param" and x[1] > 1:
                            why.append("path-of(param#%d, membership-checked)" % x[1])
                        else:
                            ok = False
                            why.append("path-of(%s)" % fmt_leaf(x))
                    if not hl:
                        ok = False
                else:
                    ok = False
                    why.append(fmt_leaf(l))
            r.check(ok and bool(leaves), "operand:%s" % site_construct(site), b0,
                    "%s at %s removes %s" % (e.kind, site_where(site), ", ".join(sorted(set(why)))),
                    "%s at %s removes a path with origins %s (not a list of the report)" % (
                        e.kind, site_where(site), ", ".join(sorted(set(why)))), site_where(site))
    r.need(5, "unlink/rename operands in the clean-up methods")
    out.append(r.finish())

    sb, agg = scan_body(ctx, report)
    r = Rule("R3", "the report lists come from the right places",
             "a list is filled from the wrong directory (e.g. staging files reported as invalid CAS files and "
             "then deleted, or the other way round)")
    if sb is None:
        r.bad("scan-body", None, "cannot find the body that builds the report")
    else:
        g = ctx.world.vfg
        adt = prog.adts[report]
        for f in adt["variants"][0]["fields"]:
            d, args = prog.adt_of(f["ty"])
            if d != "std::vec::Vec" or not args:
                continue
            labels = set(g.labels.get(("F", report, f["name"]), ()))
            el = prog.adt_of(args[0])[0]
            if el == "std::path::PathBuf":
                cas = {x for x in labels if "CAS" in x}
                stg = {x for x in labels if "STAGING" in x}
                pure = bool(labels) and all(x.startswith("DIRSCAN:") for x in labels) and not (cas and stg)
                r.check(pure, "list-class:%s" % f["name"], sb,
                        "%s holds paths read from %s" % (f["name"], sorted(labels)),
                        "%s holds paths of mixed or non-scan origin: %s" % (f["name"], sorted(labels) or "none"))
        # hash lists: pushed values derive from the directory walk or from the index-derived map
        hash_list_origins(ctx, r, sb, agg, report)
    r.need(3, "path lists and hash lists of the report")
    out.append(r.finish())

    r = Rule("R4", "every entry of the CAS directory walk is classified",
             "a stray file is silently skipped: it is neither an orphan nor invalid, and clean-up never removes it")
    if sb is not None:
        walk_classifies(ctx, r, sb)
    r.need(3, "the three directory loops over cas/")
    out.append(r.finish())

    r = Rule("R5", "the integrity verdict is 'true' only if both the size and the hash (of the same file) match",
             "a corrupted blob is reported as intact")
    integrity_verdict(ctx, r)
    r.need(2, "verifier returns")
    out.append(r.finish())

    r = Rule("R6", "polarity: orphan = on disk and not in the index; missing = in the index and not seen on disk; "
                   "corrupted = verifier said false",
             "referenced blobs are reported as orphans (and then deleted), or orphans as referenced")
    if sb is not None:
        polarity(ctx, r, sb, agg, report)
    r.need(3, "orphan / missing / corrupted pushes")
    out.append(r.finish())

    r = Rule("R7", "clean-up is complete: a clean-up entry point that walks lists of the report walks each of them on every "
                   "path to its Ok return (or skips a list only because that list is empty)",
             "clean-up returns Ok having removed nothing: leftover staging files or stray files stay behind although "
             "they were reported, and the store is not restored to the exact state of C07")
    cleanup_complete(ctx, r, report)
    r.need(3, "report lists walked by the clean-up entry points")
    out.append(r.finish())

    r = Rule("R8", "verification is on exactly when the caller's setting says so: the switch handed to the scan is one value "
                   "of the caller (a parameter, one configuration field, or a literal), not a combination",
             "the start-up scan verifies only when some other option is set as well: with verification on, damaged "
             "referenced blobs are not reported as corrupted")
    if sb is not None:
        verify_switch(ctx, r, sb)
    r.need(1, "verification switch of the scan")
    out.append(r.finish())

    r = Rule("R9", "the scan looks at the entries of cas/ the way every other access does - through the path, following "
                   "links: what kind of thing an entry is, is never taken from the directory entry itself "
                   "(`DirEntry::file_type` / `DirEntry::metadata` / `symlink_metadata` do not follow symbolic links)",
             "a shard directory relocated behind a symlink works for every put and get, but the scan takes it for an "
             "invalid file, reports the blobs under it as missing - and the clean-up unlinks the link")
    NOFOLLOW = ("std::fs::DirEntry::file_type", "std::fs::DirEntry::metadata", "std::fs::symlink_metadata")
    n = 0
    for e in ctx.fx.of_kind("FS_STAT"):
        if not any(c in ("DIRSCAN:CAS_ROOT", "DIRSCAN:CAS_DIR", "CAS_DIR", "CAS_BLOB", "CAS_ROOT") for c in e.classes):
            continue
        n += 1
        r.check((e.site.path or "") not in NOFOLLOW, "stat:%s" % site_construct(e.site), e.site.body,
                "%s at %s follows links" % (e.site.path, site_where(e.site)),
                "%s at %s classifies an entry of cas/ without following symbolic links" % (e.site.path, site_where(e.site)),
                site_where(e.site))
    r.need(3, "stat calls on entries of cas/")
    out.append(r.finish())
    return out


def verify_switch(ctx, r, sb):
    prog = ctx.prog
    scan = prog.bodies.get(sb.path)
    if scan is None:
        r.bad("scan-fn", None, "cannot identify the scan function")
        return
    bools = [i for i in range(1, scan.argc + 1) if prog.ty_str(scan.locals[i]) == "bool"]
    n = 0
    for (csite, how) in prog.callers_index().get(scan.path, []):
        if how != "direct":
            continue
        b = csite.body
        sl = Slicer(ctx.world, b)
        for i in bools:
            if i - 1 >= len(csite.term["args"]):
                continue
            lv = sl.leaves_up(csite.term["args"][i - 1], depth=3)
            n += 1
            # one value per caller: a helper shared by two entry points is handed each one's own setting
            per_root = {}
            for l in lv:
                root_ = l[1][0] if l[0] in ("xparam", "xupvar") and isinstance(l[1], tuple) else b.path
                per_root.setdefault(root_, []).append(l)
            plain = bool(lv) and all(l[0] in ("param", "xparam", "const", "upvar", "xupvar") for l in lv) and \
                all(len(v) == 1 for v in per_root.values())
            r.check(plain, "verify-arg:%s" % stable_path(b), b,
                    "the switch handed to the scan at %s is %s" % (site_where(csite), ", ".join(fmt_leaf(l) for l in lv)),
                    "the verification switch handed to the scan at %s is computed from %s: verification requested by the "
                    "caller can be silently off" % (site_where(csite), sorted(fmt_leaf(l) for l in lv)), site_where(csite))
    if not bools:
        # the scan reads the switch itself from a settings value it is handed: nothing is combined at a call site
        r.ok("verify-arg:in-scan", scan, "%s takes no boolean switch (it reads its settings itself)" % scan.path)
    elif n == 0:
        r.bad("verify-arg", scan, "no call site of %s found" % scan.path)


def cleanup_complete(ctx, r, report):
    prog = ctx.prog
    must = ctx.must(None)
    vec_fields = set(f["name"] for f in prog.adts[report]["variants"][0]["fields"]
                     if prog.adt_of(f["ty"])[0] == "std::vec::Vec")
    for (b0, b, removes) in cleanup_views(ctx, report):
        from ..prov import TRANSPARENT, ITER_PRESERVING
        sl = Slicer(ctx.world, b, transparent=TRANSPARENT | ITER_PRESERVING)
        walks = {}
        for s in b.calls():
            if (s.path or "") != "std::iter::IntoIterator::into_iter" or not s.term["args"]:
                continue
            lv = sl.leaves_of_operand(s.term["args"][0])
            if len(lv) == 1:
                l = list(lv)[0]
                if l[0] == "param" and l[1] == 1 and len(l[2]) == 1 and l[2][0] in vec_fields:
                    walks.setdefault(l[2][0], []).append(s)
        if not walks:
            continue
        rf = ctx.rf(b)
        ok_exits = [x for x, k in rf.forwarded.items() if k == "ok" or isinstance(k, tuple)]
        for f, sites in sorted(walks.items()):
            bad = []
            for x in ok_exits:
                if any(b.dominates(s.bb, x) for s in sites):
                    continue
                # skipped only because this very list is empty
                excused = False
                for sw in b.normal_blocks():
                    c = cfgutil.switch_condition(b, sw)
                    if not c or c[0] != "call" or not (c[1] or "").endswith("::is_empty"):
                        continue
                    rv = c[2]
                    lv = sl.leaves_of_operand(rv["args"][0])
                    if not (len(lv) == 1 and list(lv)[0][0] == "param" and list(lv)[0][2] == (f,)):
                        continue
                    t_true, t_false = cfgutil.true_false_edges(b, sw)
                    tgt = t_false if c[3] else t_true
                    if tgt is not None and cfgutil.edge_dominates(b, (sw, tgt), x):
                        excused = True
                if not excused:
                    bad.append(x)
            r.check(not bad, "walks:%s" % f, b0,
                    "%s walks report.%s on every path to its Ok return" % (b.path.split("::")[-1], f),
                    "%s can return Ok (%s) without having walked report.%s: what the scan reported there is left behind" % (
                        b.path, ", ".join("%s:%d" % (b.file, b.blocks[x]["span"]["line"]) for x in bad), f))


def _any_is_membership(ctx, b, sl, t, hl):
    """`recv.iter().any(|x| x == h)` with recv a list of the report (a field of self) and h one of the leaves `hl`."""
    prog = ctx.prog
    if len(t["args"]) < 2:
        return False
    # the iterator: (a reference to) the result of `.iter()` / `.into_iter()` on a field of the first parameter
    cur = t["args"][0]
    recv = set()
    for _ in range(4):
        lv = sl.leaves_of_operand(cur)
        pl = place_of(cur)
        if pl is not None and not pl["p"]:
            v = ctx.world.borrowed_local(b, cur)
            if v is not None:
                lv = sl.leaves_of_place({"l": v, "p": []})
        calls = [x for x in lv if x[0] == "call" and x[1].split("::")[-1] in ("iter", "into_iter") and
                 not isinstance(x[2], tuple)]
        if len(lv) == 1 and calls:
            cur = b.blocks[calls[0][2]]["term"]["args"][0]
            continue
        recv = lv
        break
    if not any(x[0] == "param" and x[1] == 1 and x[2] for x in recv):
        return False
    cpl = place_of(t["args"][1])
    cd = prog.closure_def_of_type(b.locals[cpl["l"]]) if cpl is not None and not cpl["p"] else None
    cb = prog.bodies.get(cd) if cd else None
    if cb is None:
        return False
    csl = Slicer(ctx.world, cb)
    ret = csl.leaves_of_place({"l": 0, "p": []})
    for x in ret:
        sides = None
        if x[0] == "call" and x[1] == "std::cmp::PartialEq::eq" and not isinstance(x[2], tuple):
            a = cb.blocks[x[2]]["term"]["args"]
            sides = (a[0], a[1])
        elif x[0] == "binop" and x[1] == "Eq" and not isinstance(x[2], tuple):
            for st in cb.stmts(x[2]):
                if st["k"] == "assign" and st["rv"]["k"] == "binop" and st["rv"]["op"] == "Eq":
                    sides = (st["rv"]["a"], st["rv"]["b"])
        if sides is None or len(ret) != 1:
            return False
        for (i_, c_) in ((sides[0], sides[1]), (sides[1], sides[0])):
            li = csl.leaves_of_operand(i_)
            lc = csl.leaves_up(c_, depth=1)
            item = bool(li) and all(y[0] == "param" and y[1] >= 2 for y in li)
            capt = bool(lc) and all((y[0] == "xparam" and y[1][0] == b.path and ("param", y[1][1], y[2]) in hl) or
                                    (y[0] == "param" and y in hl and cb.path == b.path) for y in lc)
            if item and capt:
                return True
    return False


def membership_guard(ctx, r, b, site, report, kb=None):
    kb = kb or b
    """If the unlinked hash is a plain parameter (not a loop item of a report list), the unlink must be
    behind a positive membership test in a list of the report."""
    sl = Slicer(ctx.world, b)
    hl = set()
    for l in sl.leaves_of_operand(site.term["args"][0]):
        if l[0] == "call":
            t = b.blocks[l[2]]["term"]
            for a in t["args"][1:]:
                hl |= sl.leaves_of_operand(a)
    if not any(x[0] == "param" and x[1] > 1 for x in hl):
        return
    ok = False
    for bb in b.normal_blocks():
        c = cfgutil.switch_condition(b, bb)
        if not c or c[0] not in ("call", "bool"):
            continue
        leaves = sl.leaves_of_operand(c[1]) if c[0] == "bool" else {("call", c[1], c[4], ())}
        neg = c[3] if c[0] == "call" else False
        for l in leaves:
            if l[0] == "call" and l[1].endswith("Iterator::any") and not isinstance(l[2], tuple):
                # `list.iter().any(|x| x == hash)`: membership spelt as a search
                t = b.blocks[l[2]]["term"]
                if _any_is_membership(ctx, b, sl, t, hl):
                    tt, ff = cfgutil.true_false_edges(b, bb)
                    edge = ff if neg else tt
                    if edge is not None and cfgutil.edge_dominates(b, (bb, edge), site.bb):
                        ok = True
                continue
            if l[0] != "call" or not l[1].endswith("::contains"):
                continue
            t = b.blocks[l[2]]["term"]
            recv = sl.leaves_of_operand(t["args"][0])
            arg = sl.leaves_of_operand(t["args"][1]) if len(t["args"]) > 1 else set()
            if any(x[0] == "param" and x[1] == 1 and x[2] for x in recv) and (arg & hl):
                tt, ff = cfgutil.true_false_edges(b, bb)
                edge = ff if neg else tt
                if edge is not None and cfgutil.edge_dominates(b, (bb, edge), site.bb):
                    ok = True
    r.check(ok, "membership:%s" % kb.path.split("::")[-1], kb,
            "%s removes the given hash only if it is in the report's orphan list" % b.path,
            "%s removes a caller-supplied hash without checking that the scan reported it" % b.path, site_where(site))


def _field_locals(ctx, b, agg, report):
    """report field name -> the list that is moved into it, as a canonical place (local, field names): a local
    vector, or a vector field of an accumulator struct that a helper fills through a reference."""
    out = {}
    for name, op in zip(agg["rv"]["fields"], agg["rv"]["ops"]):
        pl = place_of(op)
        if pl is None:
            continue
        h = cfgutil.canon_place(b, pl)
        for _ in range(6):
            if h[1]:
                break
            defs = b.assignments().get(h[0], [])
            if len(defs) == 1 and defs[0][1] != "term" and defs[0][2]["k"] == "use":
                p2 = place_of(defs[0][2]["op"])
                if p2 is not None:
                    h = cfgutil.canon_place(b, p2)
                    continue
            break
        out[name] = h
    return out


def _pushes_to(ctx, b, handle):
    if not isinstance(handle, tuple):
        handle = (handle, ())
    out = []
    for s in b.calls():
        if (s.path or "") in ("std::vec::Vec::push",) and s.term["args"]:
            if not handle[1] and ctx.world.borrowed_local(b, s.term["args"][0]) == handle[0]:
                out.append(s)
            elif cfgutil.canon_of_borrow(b, s.term["args"][0]) == handle:
                out.append(s)
    return out


def _hash_parsers(ctx):
    """Local functions that turn a path into a hash (by signature)."""
    prog = ctx.prog
    hash_ty = ctx.anchors.get("HASH")
    out = set()
    for b in prog.bodies.values():
        if b.is_closure or b.argc != 1:
            continue
        if prog.adt_of(b.locals[1])[0] != "std::path::Path":
            continue
        if any(prog.types[i].get("def") == hash_ty for i in prog.find_in_type(b.locals[0], lambda t: t.get("k") == "adt")):
            out.add(b.path)
    return out


def hash_list_origins(ctx, r, sb, agg, report):
    """Each hash list of the report is filled either with hashes parsed from paths of the CAS walk, or
    with keys of a map that was filled from an index read."""
    prog = ctx.prog
    g = ctx.world.vfg
    hash_ty = ctx.anchors.get("HASH")
    fl = _field_locals(ctx, sb, agg, report)
    sl = Slicer(ctx.world, sb)
    adt = prog.adts[report]
    parsers = _hash_parsers(ctx)
    for f in adt["variants"][0]["fields"]:
        d, args = prog.adt_of(f["ty"])
        if d != "std::vec::Vec" or not args or prog.adt_of(args[0])[0] != hash_ty:
            continue
        l = fl.get(f["name"])
        if l is None:
            r.bad("hash-list:%s" % f["name"], sb, "cannot follow the list stored in %s" % f["name"])
            continue
        pushes = _pushes_to(ctx, sb, l)
        verdict = []
        if not pushes:
            # the list is collected from an iterator pipeline (`map.into_keys().filter(..).collect()`)
            h0 = l if isinstance(l, tuple) else (l, ())
            _f, start = c04._filter_chain(ctx, sb, sl, {"copy": {"l": h0[0], "p": []}})
            lv0 = sl.leaves_of_operand(start)
            if lv0 and start is not None and all(x[0] == "call" and _map_filled_from_index(ctx, sb, sl, x) for x in lv0):
                r.ok("hash-list:%s" % f["name"], sb, "%s is collected from the keys of a map filled from the index" % f["name"])
                continue
        for p in pushes:
            kinds = set()
            for x in sl.leaves_of_operand(p.term["args"][1]):
                if x[0] == "agg" and str(x[1]).endswith("Option::None"):
                    continue        # the `None` arm of a combinator: no value is pushed from it
                if x[0] != "call":
                    kinds.add("other:" + fmt_leaf(x))
                    continue
                site = Site(sb, x[2], sb.blocks[x[2]]["term"])
                # (a) parsed from a walked CAS path
                reach = prog.reachable_bodies([t for t, how in prog.call_targets(site)]) if prog.call_targets(site) else {}
                tgt = prog.local_target(site)
                parsed = (tgt is not None and tgt.path in parsers) or any(pp in reach for pp in parsers)
                if parsed:
                    labs = set()
                    for a in site.term["args"]:
                        labs |= g.labels_of_operand(sb, a)
                        for y in sl.leaves_of_operand(a):
                            if y[0] == "call":
                                for a2 in sb.blocks[y[2]]["term"]["args"]:
                                    labs |= g.labels_of_operand(sb, a2)
                    if any("DIRSCAN" in z and "CAS" in z for z in labs):
                        kinds.add("parsed-from-cas-walk")
                    else:
                        kinds.add("parsed-from:%s" % sorted(labs))
                    continue
                # (b) key of a local map filled from the index
                if _map_filled_from_index(ctx, sb, sl, x):
                    kinds.add("key-of-index-derived-map")
                    continue
                kinds.add("call:" + x[1])
            verdict.append(kinds)
        ok = bool(pushes) and all(k and k <= {"parsed-from-cas-walk", "key-of-index-derived-map"} for k in verdict)
        r.check(ok, "hash-list:%s" % f["name"], sb,
                "%s is filled (%d push site(s)) with %s" % (f["name"], len(pushes),
                                                           sorted(set().union(*verdict)) if verdict else []),
                "%s is filled with values of origin %s" % (f["name"], [sorted(k) for k in verdict] or "nowhere"))


def _map_filled_from_index(ctx, sb, sl, leaf):
    """leaf = ("call", callee, bb, ..) that created a local map/set; it counts as index-derived if some
    insert into the same local takes a key read through the index read view."""
    # find the local defined by that call
    t = sb.blocks[leaf[2]]["term"]
    if t["dest"]["p"]:
        return False
    cands = {t["dest"]["l"]}
    # follow moves forward
    changed = True
    while changed:
        changed = False
        for l, defs in sb.assignments().items():
            for (bb, j, rv) in defs:
                if j != "term" and rv["k"] == "use":
                    pl = place_of(rv["op"])
                    if pl is not None and not pl["p"] and pl["l"] in cands and l not in cands:
                        cands.add(l)
                        changed = True
    for s in sb.calls():
        if (s.path or "").endswith("::extend") and s.term["args"] and \
                ctx.world.borrowed_local(sb, s.term["args"][0]) in cands and len(s.term["args"]) > 1:
            # map.extend(state.iter().map(..)): the pipeline starts at an index read
            trail = []
            _f, start = c04._filter_chain(ctx, sb, sl, s.term["args"][1], extra=("map",), trail=trail)
            for z in list(sl.leaves_of_operand(start)) + trail:
                if z[0] == "call" and "INDEX_READ" in sem_set(
                        ctx.may.site_events(Site(sb, z[2], sb.blocks[z[2]]["term"]))):
                    return True
        if not (s.path or "").endswith("::insert") or not s.term["args"]:
            continue
        if ctx.world.borrowed_local(sb, s.term["args"][0]) not in cands:
            continue
        for a in s.term["args"][1:]:
            for y in sl.leaves_of_operand(a):
                if y[0] == "call":
                    s2 = Site(sb, y[2], sb.blocks[y[2]]["term"])
                    if "INDEX_READ" in sem_set(ctx.may.site_events(s2)):
                        return True
                    # iterator chain: next(iter) where iter comes from an index read
                    for a2 in s2.term["args"]:
                        for z in sl.leaves_of_operand(a2):
                            if z[0] == "call" and "INDEX_READ" in sem_set(
                                    ctx.may.site_events(Site(sb, z[2], sb.blocks[z[2]]["term"]))):
                                return True
    return False


def walk_classifies(ctx, r, sb):
    """For each loop over a ReadDir of the CAS tree: from the Some(entry) edge the loop header can only be
    reached again through a block that records the entry (push / insert) or descends into it (read_dir)."""
    g = ctx.world.vfg
    classify = set()
    prog = ctx.prog
    listers = set()         # crate-local helpers that list a directory they are given
    for e in ctx.fx.effects:
        if (e.site.path or "").endswith("fs::read_dir") or (e.site.path or "").endswith("Path::read_dir"):
            listers.add(e.site.body.path)
    for s in sb.calls():
        p = s.path or ""
        tg = prog.local_target(s)
        if p in ("std::vec::Vec::push", "std::collections::HashSet::insert", "std::collections::HashMap::insert",
                 "std::fs::read_dir", "std::collections::BTreeSet::insert") or (tg is not None and tg.path in listers):
            classify.add(s.bb)
    n = 0
    for s in sb.calls():
        # the loop over a directory listing: `next` of a ReadDir, or of an adaptor over one (a `list_dir` helper that
        # maps the error of each entry) - told by what the iterator was read from
        if (s.path or "") != "std::iter::Iterator::next" or not s.term["args"]:
            continue
        labels = g.labels_of_operand(sb, s.term["args"][0])
        if (s.callee.get("resolved") or "") != "<std::fs::ReadDir as std::iter::Iterator>::next" and \
                not any(x.startswith("DIRSCAN:") for x in labels):
            continue
        if not any("CAS" in x for x in labels):
            if any("STAGING" in x for x in labels):
                r.note("staging loop at %s: entries that are not regular files are skipped (not armed)" % site_where(s))
            continue
        n += 1
        # Some edge
        tgt = s.term["t"]
        some_t = None
        for bb in cfgutil.reach(sb, tgt):
            c = cfgutil.switch_condition(sb, bb)
            if c and c[0] == "discr" and not c[1]["p"] and c[1]["l"] == s.term["dest"]["l"]:
                e = cfgutil.switch_edges(sb, bb)
                some_t = e.get(1, e["otherwise"] if 0 in e else None)
                break
        if some_t is None:
            r.bad("loop:%d" % n, sb, "cannot find the Some edge of the directory loop at %s" % site_where(s))
            continue
        again = cfgutil.reach(sb, some_t, removed_blocks=classify)
        # error exits are fine; coming back to the `next` call without classification is not
        r.check(s.bb not in again, "walk-loop-%d" % n, sb,
                "every entry of the loop at %s is recorded or descended into before the next one is read" % site_where(s),
                "an entry of the directory loop at %s can be skipped without being recorded anywhere" % site_where(s),
                site_where(s))


def integrity_verdict(ctx, r):
    prog = ctx.prog
    # the verifier: a local fn returning Result<bool,_> that reads file content of a DIRSCAN CAS path and compares
    for b in prog.bodies.values():
        if b.is_closure:
            continue
        evs = ctx.fx.by_site
        reads = [e for e in ctx.fx.effects if e.site.body.path == b.path and e.kind == "FS_READFILE"
                 and any("CAS" in c for c in e.classes) and "blake3" in (e.site.path or "")]
        if not reads:
            continue
        sl = Slicer(ctx.world, b)
        rf = ctx.must(None).rf(b)
        n = 0
        for bb in b.normal_blocks():
            for s in b.stmts(bb):
                if not (s["k"] == "assign" and s["lhs"]["l"] == 0 and not s["lhs"]["p"] and s["rv"]["k"] == "agg"
                        and s["rv"].get("vn") == "Ok"):
                    continue
                op = s["rv"]["ops"][0]
                leaves = sl.leaves_of_operand(op)
                n += 1
                if all(l[0] == "const" and l[1] == 0 for l in leaves):
                    r.ok("verdict-false", b, "an Ok(false) return at %s:%d" % (b.file, s.get("line", 0)))
                    continue
                # must be eq(actual, expected) with actual from finalize of a hasher fed by the same path param
                good = False
                for l in leaves:
                    if l[0] == "call" and l[1] in ("std::cmp::PartialEq::eq",):
                        t = b.blocks[l[2]]["term"]
                        la = sl.leaves_of_operand(t["args"][0]) | sl.leaves_of_operand(t["args"][1])
                        has_hash = any(x[0] == "call" and x[1] == "blake3::Hasher::finalize" for x in la)
                        has_expected = any(x[0] == "param" for x in la)
                        good = has_hash and has_expected
                # dominated by the size-equal edge
                size_ok = False
                for bb2 in b.normal_blocks():
                    c = cfgutil.cmp_true_edge(b, bb2)
                    if c is None or c[0] not in ("Eq", "Ne"):
                        continue
                    op_, a, bo, t_true, t_false = c
                    eq_edge = t_true if op_ == "Eq" else t_false
                    la = sl.leaves_of_operand(a) | sl.leaves_of_operand(bo)
                    if any(x[0] == "call" and x[1].endswith("Metadata::len") for x in la) and \
                            any(x[0] == "param" and x[2] for x in la) and \
                            cfgutil.edge_dominates(b, (bb2, eq_edge), bb):
                        size_ok = True
                r.check(good and size_ok, "verdict-true", b,
                        "the non-constant verdict at %s:%d is (hash of the file == expected) behind the size check" % (
                            b.file, s.get("line", 0)),
                        "the verdict returned at %s:%d is not 'hash equal' behind 'size equal' (hash compare: %s, size "
                        "gate: %s)" % (b.file, s.get("line", 0), good, size_ok), "%s:%d" % (b.file, s.get("line", 0)))
        # the hashed file is the path parameter
        for e in reads:
            la = sl.leaves_of_operand(e.site.term["args"][1])
            r.check(all(x[0] == "param" for x in la) and bool(la), "hash-input", b,
                    "the hash is computed over the path given to the verifier",
                    "the verifier hashes %s, not the path it was given" % sorted(fmt_leaf(x) for x in la))


def polarity(ctx, r, sb, agg, report):
    prog = ctx.prog
    hash_ty = ctx.anchors.get("HASH")
    fl = _field_locals(ctx, sb, agg, report)
    sl = Slicer(ctx.world, sb)
    adt = prog.adts[report]
    hash_lists = [f["name"] for f in adt["variants"][0]["fields"]
                  if prog.adt_of(f["ty"])[0] == "std::vec::Vec" and prog.adt_of(f["ty"])[1]
                  and prog.adt_of(prog.adt_of(f["ty"])[1][0])[0] == hash_ty]
    for name in hash_lists:
        l = fl.get(name)
        if l is None:
            continue
        pushes_ = _pushes_to(ctx, sb, l)
        if not pushes_:
            # collected from a pipeline: the filter predicate decides membership
            h0 = l if isinstance(l, tuple) else (l, ())
            filters, start = c04._filter_chain(ctx, sb, sl, {"copy": {"l": h0[0], "p": []}})
            kinds = set()
            for fc in filters:
                fsl = Slicer(ctx.world, fc)
                rl = fsl.leaves_of_place({"l": 0, "p": []})
                neg = False
                # `!set.contains(x)`: Not of a contains call
                for bb2 in fc.normal_blocks():
                    for st in fc.stmts(bb2):
                        if st["k"] == "assign" and st["lhs"]["l"] == 0 and st["rv"]["k"] == "unop" and st["rv"]["op"] == "Not":
                            neg = True
                if any(x[0] == "call" and x[1] == "std::collections::HashSet::contains" for x in rl):
                    kinds.add("seen-contains:%s" % ("false" if neg else "true"))
            if filters:
                r.check("seen-contains:false" in kinds, "polarity:%s:missing" % name, sb,
                        "%s = keys of the index-derived map that the disk walk did not see (filter: %s)" % (name, sorted(kinds)),
                        "%s is collected under a filter %s (expected: not seen on disk)" % (name, sorted(kinds)))
            continue
        for p in pushes_:
            pushed = sl.leaves_of_operand(p.term["args"][1])
            verdicts = []
            for bb in sb.normal_blocks():
                c = cfgutil.switch_condition(sb, bb)
                if not c:
                    continue
                edges = cfgutil.switch_edges(sb, bb)
                listed = [v for v in edges if v != "otherwise"]
                for val, tgt in edges.items():
                    if tgt is None or not cfgutil.edge_dominates(sb, (bb, tgt), p.bb):
                        continue
                    if val == "otherwise" and listed in ([0], [1]):
                        val = 1 - listed[0]        # the catch-all arm of a two-valued test is the other value
                    if c[0] == "discr":
                        lv = sl.leaves_of_place(c[1])
                        for x in lv:
                            if x[0] == "call":
                                verdicts.append((x[1], val, x[2]))
                    elif c[0] in ("call", "bool"):
                        lv = sl.leaves_of_operand(c[1]) if c[0] == "bool" else {("call", c[1], c[4], ())}
                        for x in lv:
                            if x[0] == "call":
                                verdicts.append((x[1], val, x[2]))
            # classify
            kinds = set()
            for (callee, val, cbb) in verdicts:
                same = False
                t = sb.blocks[cbb]["term"]
                for a in t["args"][1:]:
                    if sl.leaves_of_operand(a) & pushed:
                        same = True
                if callee in ("std::collections::HashMap::get", "std::collections::BTreeMap::get") and same:
                    kinds.add("index-lookup:%s" % ("None" if val == 0 else "Some"))
                if callee in ("std::collections::HashSet::contains",) and same:
                    kinds.add("seen-contains:%s" % ("false" if val == 0 else "true"))
                if _is_verifier(ctx, sb, cbb):
                    kinds.add("verifier:%s" % val)
            desc = "%s push at %s under %s" % (name, site_where(p), sorted(kinds))
            if "index-lookup:None" in kinds and not any(k.startswith("verifier") for k in kinds):
                r.ok("polarity:%s:orphan" % name, sb, desc + " => orphan = on disk, not in the index")
            elif "seen-contains:false" in kinds:
                r.ok("polarity:%s:missing" % name, sb, desc + " => missing = in the index, not seen on disk")
            elif any(k.startswith("verifier") for k in kinds) and "index-lookup:Some" in kinds or \
                    ("index-lookup:1" in kinds):
                vf = [k for k in kinds if k.startswith("verifier")]
                r.check("verifier:0" in vf, "polarity:%s:corrupted" % name, sb, desc + " => corrupted = verifier false",
                        "%s is filled when the verifier says %s" % (name, vf))
            else:
                r.bad("polarity:%s" % name, sb,
                      "cannot establish what decides the push to %s at %s (dominating tests: %s)" % (
                          name, site_where(p), sorted(kinds)), site_where(p))


def _is_verifier(ctx, b, cbb):
    t = b.blocks[cbb]["term"]
    if t["k"] != "call":
        return False
    tgt = ctx.prog.local_target(Site(b, cbb, t))
    if tgt is None:
        return False
    return any(e.site.body.path == tgt.path and e.kind == "FS_READFILE" and "blake3" in (e.site.path or "")
               for e in ctx.fx.effects)
