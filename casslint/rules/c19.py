"""C19 Creation-time settings and format version gate every open: validate-before-touch."""
from .. import cfgutil
from ..core import Site, term_path
from ..ctx import sem, sem_set
from ..prov import Slicer, fmt_leaf
from ..vfg import place_of
from . import c11
from .base import Rule, site_construct, site_where

PROP = "C19"

PRE_VALIDATION_OK = {"LOCK", "STAGING", "CAS_ROOT", "CAS_DIR", "SETTINGS", "SETTINGS_TMP", "DB_ROOT", "DB_PARENT"}


def settings_struct(ctx):
    """The persisted settings struct: the type deserialised from the SETTINGS file, found as the
    local struct whose value is handed to the SETTINGS publisher / returned by the SETTINGS reader."""
    hits = set()
    for e in ctx.fx.of_kind("FS_READFILE"):
        if "SETTINGS" in e.classes:
            b = e.site.body
            for i in ctx.prog.find_in_type(b.locals[0], lambda t: t.get("k") == "adt" and t.get("def") in ctx.prog.adts):
                a = ctx.prog.adts[ctx.prog.types[i]["def"]]
                if a["kind"] == "Struct":
                    hits.add(ctx.prog.types[i]["def"])
    return sorted(hits)


def rules(ctx, tier):
    out = []
    prog = ctx.prog
    opens = ctx.open_roots()
    must = ctx.must(None)
    ENTRY = must.entry_sets(opens)
    reach = prog.reachable_bodies(opens)
    loaders = [e for e in ctx.fx.of_kind("FS_READFILE") if "SETTINGS" in e.classes]
    sstructs = settings_struct(ctx)

    r = Rule("R1", "settings are loaded and compared before anything but the lock file, the top directories "
                   "and the settings file itself is touched",
             "an open with the wrong segment size replays/checkpoints/prunes the log before it is rejected")
    r.check(len(loaders) == 1, "settings-loader", loaders[0].site.body if loaders else None,
            "settings are read in %s" % (loaders and loaders[0].site.body.path),
            "expected exactly one site reading the SETTINGS file, found %d" % len(loaders))
    n = 0
    for e in ctx.fx.effects:
        if e.site.body.path not in reach or e.site.kind != "call" or not c11.is_mutating(e):
            continue
        if e.classes and e.classes <= PRE_VALIDATION_OK:
            continue
        if e.classes and e.classes <= {"INDEX_TMP", "SETTINGS_TMP"}:
            # parameter-relative temp writes: judged at the publishing call sites below
            continue
        S = must.at_site(ENTRY, e.site)
        if S is None:
            continue
        n += 1
        r.check("SETTINGS_CHECKED" in sem_set(S), "after-settings:%s:%s" % (e.kind, "+".join(sorted(e.classes)) or "?"),
                e.site.body,
                "%s(%s) at %s happens after the settings were loaded" % (e.kind, ",".join(sorted(e.classes)),
                                                                        site_where(e.site)),
                "%s(%s) at %s can happen before the stored settings are loaded" % (
                    e.kind, ",".join(sorted(e.classes)) or "?", site_where(e.site)), site_where(e.site))
    for site in ctx.sem_sites("SNAP_PUBLISH:INDEX"):
        S = must.at_site(ENTRY, site)
        if S is not None:
            r.check("SETTINGS_CHECKED" in sem_set(S), "after-settings:SNAP_PUBLISH:INDEX", site.body,
                    "index snapshot at %s is published after the settings were loaded" % site_where(site),
                    "the index snapshot can be written before the stored settings are loaded", site_where(site))
    # the comparison: in the body that calls the loader there is a switch on (stored.X != configured.X)
    cmp_sites = compare_sites(ctx, loaders, sstructs)
    r.check(len(cmp_sites) >= 1, "compare", cmp_sites[0][0] if cmp_sites else None,
            "stored vs configured: %s" % "; ".join("%s.%s at %s:%d" % (c[0].path.split("::")[-1], c[2], c[0].file, c[3])
                                                   for c in cmp_sites),
            "no branch compares a stored settings field with the configured value")
    for (b, bb, field, line, mismatch_t, match_t, load_bb) in cmp_sites:
        # mismatch edge: effect-free, returns
        blocks = cfgutil.reach(b, mismatch_t)
        bad = []
        for x in blocks:
            t = b.blocks[x]["term"]
            if t["k"] in ("call", "drop"):
                for ev in ctx.may.site_events(Site(b, x, t)):
                    if ev[0] in c11.MUTATING or ev[0] in ("FS_OPEN", "CONT"):
                        bad.append((x, ev))
        r.check(not bad, "mismatch-effect-free:%s" % field, b,
                "a %s mismatch returns without touching anything" % field,
                "after a %s mismatch the code still does %s" % (field, "; ".join(ev[0] for _, ev in bad[:3])),
                "%s:%d" % (b.file, line))
        r.check(any(b.blocks[x]["term"]["k"] == "return" for x in blocks), "mismatch-returns:%s" % field, b,
                "the mismatch path returns", "the mismatch path does not return")
        # the heavy work (anything that can mutate outside the allow-list) cannot bypass the comparison
        some_edge = _some_edge_of(ctx, b, load_bb)
        if some_edge is not None:
            heavy = []
            for x in b.normal_blocks():
                t = b.blocks[x]["term"]
                if t["k"] != "call":
                    continue
                for ev in ctx.may.site_events(Site(b, x, t)):
                    if ev[0] in c11.MUTATING and isinstance(ev[1], frozenset) and ev[1] and not ev[1] <= PRE_VALIDATION_OK \
                            and not ev[1] <= {"INDEX_TMP", "SETTINGS_TMP"}:
                        heavy.append(x)
            bypass = cfgutil.reach(b, some_edge[1], removed_blocks=[bb])
            hit = sorted(set(heavy) & bypass)
            r.check(not hit, "no-bypass:%s" % field, b,
                    "with stored settings present, %d heavy call(s) are only reachable through the %s comparison" % (
                        len(set(heavy)), field),
                    "with stored settings present, the call at %s:%d is reachable without the %s comparison" % (
                        b.file, b.blocks[hit[0]]["span"]["line"] if hit else 0, field))
    r.need(8, "post-settings effect sites, comparison, mismatch path")
    out.append(r.finish())

    r = Rule("R2", "loading the settings only reads the settings file",
             "a rejected open has already modified the directory")
    for e in loaders:
        b = e.site.body
        rb = prog.reachable_bodies([b])
        fx = [x for x in ctx.fx.effects if x.site.body.path in rb and x.kind not in ("FS_CLOSE",)]
        bad = [x for x in fx if not (x.kind == "FS_READFILE" and x.classes == frozenset(["SETTINGS"]))]
        r.check(not bad, "loader-effects", b, "%s only reads SETTINGS" % b.path,
                "%s may %s" % (b.path, "; ".join(x.describe() for x in bad[:3])))
        r.check(not ctx.locks.acquires(b.path), "loader-locks", b, "%s takes no lock" % b.path,
                "%s takes locks" % b.path)
    r.need(2, "settings loader")
    out.append(r.finish())

    r = Rule("R3", "version gate: the loader returns settings only if the stored version equals the build's",
             "a database of another on-disk format is opened and mis-parsed")
    version_gate(ctx, r, loaders, sstructs)
    r.need(2, "Ok(Some) return(s) of the loader, version comparison")
    out.append(r.finish())

    r = Rule("R4", "the stored directory-layout flag wins; a fresh database uses the flag it just stored",
             "the blob directory layout assumed at run time differs from the one on disk")
    stored_flag_wins(ctx, r, loaders, sstructs)
    r.need(2, "flag operand of the blob-manager constructor")
    out.append(r.finish())

    r = Rule("R5", "settings are written only when none exist",
             "an open overwrites the stored settings with the caller's")
    for site in ctx.sem_sites("SNAP_PUBLISH:SETTINGS"):
        # walk up to the body that branches on the load result
        chain_ok = False
        for (b, bb, field, line, mismatch_t, match_t, load_bb) in cmp_sites:
            none_edge = _none_edge_of(ctx, b, load_bb)
            if none_edge is None:
                continue
            # the call (in b) that leads to the publish site
            for x in b.normal_blocks():
                t = b.blocks[x]["term"]
                if t["k"] != "call":
                    continue
                evs = ctx.may.site_events(Site(b, x, t))
                if "SNAP_PUBLISH:SETTINGS" in sem_set(e2 for e2 in evs if ctx._concrete(e2)):
                    chain_ok = cfgutil.edge_dominates(b, none_edge, x)
                    r.check(chain_ok, "publish-only-when-absent", b,
                            "settings are saved only on the no-settings branch (%s:%d)" % (b.file, b.blocks[x]["span"]["line"]),
                            "settings can be (re)written although stored settings exist (%s:%d)" % (
                                b.file, b.blocks[x]["span"]["line"]))
    r.need(1, "settings publish site")
    out.append(r.finish())

    r = Rule("R6", "the remembered directory layout is never undone: nothing removes or renames directories under cas/, and "
                   "the publish step skips creating the shard directory only under the stored flag",
             "with a pre-created tree a shard directory is removed; the next blob hashing into it cannot be published: a "
             "put fails (or behaves differently) depending on the creation-time choice")
    from ..events import is_cas_class
    n = 0
    for e in ctx.fx.effects:
        if e.kind in ("FS_RMDIR", "FS_RMDIR_ALL") and any(is_cas_class(c) or c.startswith("PARENT:CAS") for c in e.classes):
            r.bad("rmdir-under-cas:%s" % site_construct(e.site), e.site.body,
                  "%s removes a directory under cas/ at %s" % (site_construct(e.site), site_where(e.site)), site_where(e.site))
        if e.kind == "FS_RENAME" and any(c in ("CAS_DIR", "CAS_ROOT") for c in e.classes | e.classes2):
            r.bad("rename-dir-under-cas:%s" % site_construct(e.site), e.site.body,
                  "a directory under cas/ is renamed at %s" % site_where(e.site), site_where(e.site))
    # publish step: the rename is dominated by the Ok edge of mkdir(parent), or by the edge of the stored flag that
    # skips it - judged on the flat view of the commit path (the mkdir may sit in a helper of its own)
    for e in ctx.fx.of_kind("FS_RENAME"):
        if not (e.classes2 and e.classes2 <= {"CAS_BLOB"}):
            continue
        ob = e.site.body
        mgr = prog.adt_of(ob.locals[1])[0] if ob.argc >= 1 else None
        mgr_flags = set(f["name"] for f in prog.adts[mgr]["variants"][0]["fields"]
                        if prog.ty_str(f["ty"]) == "bool") if mgr in prog.adts else set()
        b = ctx.flat(ctx.scope_root(ob))
        rf = ctx.rf(b)
        sl = Slicer(ctx.world, b)
        for fsite in ctx.flat_sites_of(b, e.site):
            mk = [s for s in b.sites() if any(x.kind == "FS_MKDIR" and any(
                is_cas_class(c) or c.startswith("PARENT:CAS") for c in x.classes) for x in ctx.effects_at(s))]
            edges = []
            for m in mk:
                # the attempt is enough here: if it failed and the failure were ignored, the rename fails for want of
                # the directory (that a failure is not ignored is C14-R1's business)
                edges += [(m.bb, x) for x in b.succs(m.bb)]
            # the stored layout setting, as the manager keeps it: a bool, or a fieldless enum made from it
            mgr_marks = set(mgr_flags)
            if mgr in prog.adts:
                for f_ in prog.adts[mgr]["variants"][0]["fields"]:
                    d_ = prog.adt_of(f_["ty"])[0]
                    a_ = prog.adts.get(d_)
                    if a_ is not None and a_.get("kind") == "Enum" and not any(v_["fields"] for v_ in a_["variants"]):
                        mgr_marks.add(f_["name"])

            def from_setting(lv, depth=0):
                """the value is computed from the stored setting and from `path.parent()` only"""
                if not lv or depth > 4:
                    return False
                for l in lv:
                    if l[0] == "param" and l[2] and l[2][-1] in mgr_marks:
                        continue
                    if l[0] == "const":
                        continue
                    if l[0] == "call" and l[1] == "std::path::Path::parent":
                        continue
                    if l[0] == "call" and l[1].split("::")[-1] in ("filter", "then", "then_some", "not", "and", "or"):
                        t_ = b.blocks[l[2]]["term"]
                        sub = set()
                        for a_ in t_["args"]:
                            pl_ = place_of(a_)
                            cd_ = prog.closure_def_of_type(b.locals[pl_["l"]]) if pl_ is not None and not pl_["p"] else None
                            if cd_:
                                # what the closure computes from: its return value in terms of its captures
                                cb_ = prog.bodies.get(cd_)
                                csl_ = Slicer(ctx.world, cb_) if cb_ is not None else None
                                caps = []
                                for (dbb, j, rv) in b.assignments().get(pl_["l"], []):
                                    if j != "term" and rv["k"] == "agg":
                                        caps = rv["ops"]
                                for x_ in (csl_.leaves_of_place({"l": 0, "p": []}) if csl_ else ()):
                                    if x_[0] == "upvar" and x_[1] < len(caps):
                                        sub |= sl.leaves_of_operand(caps[x_[1]], x_[2])
                                    elif x_[0] == "const":
                                        sub.add(x_)
                                    else:
                                        sub.add(("unknown", "closure", ()))
                            else:
                                sub |= sl.leaves_of_operand(a_)
                        if from_setting(sub, depth + 1):
                            continue
                    return False
                return True
            for sw in b.normal_blocks():
                c = cfgutil.switch_condition(b, sw)
                lv = None
                if c and c[0] == "bool":
                    lv = sl.leaves_of_operand(c[1])
                elif c and c[0] == "discr":
                    lv = sl.leaves_of_place(c[1])
                    if lv and all(l[0] == "call" and l[1] == "std::path::Path::parent" for l in lv):
                        lv = None       # (a path without a parent: below)
                if lv and from_setting(lv) and any(not (l[0] == "call" and l[1] == "std::path::Path::parent") and l[0] != "const"
                                                   for l in lv):
                    # `!flag` is lowered as Not: switch_condition keeps the operand; accept either edge that bypasses mkdir
                    for t in set(b.succs(sw)):
                        if t is not None and b.blocks[t]["term"]["k"] != "unreachable" and not any(
                                m.bb in cfgutil.reach(b, t) and not b.dominates(fsite.bb, m.bb) for m in mk):
                            edges.append((sw, t))
            # a path without a parent has no directory to create
            for sw in b.normal_blocks():
                c = cfgutil.switch_condition(b, sw)
                if c and c[0] == "discr":
                    lv = sl.leaves_of_place(c[1])
                    if lv and all(l[0] == "call" and l[1] == "std::path::Path::parent" for l in lv):
                        ed = cfgutil.switch_edges(b, sw)
                        none_t = ed.get(0, ed["otherwise"] if 1 in ed else None)
                        if none_t is not None:
                            edges.append((sw, none_t))
            n += 1
            r.check(bool(edges) and cfgutil.edges_dominate(b, edges, fsite.bb), "parent-dir-exists", ob,
                    "the publish rename at %s happens after the shard directory was created, or under the stored 'pre-created' flag" % site_where(e.site),
                    "the publish rename at %s can happen without the shard directory having been created and without the "
                    "stored flag vouching for it" % site_where(e.site), site_where(e.site))
    r.need(1, "publish rename")
    out.append(r.finish())
    r = Rule("R7", "the stored 'pre-created' flag never runs ahead of the tree it vouches for: within an open, no shard "
                   "directory is created after the settings file has been published",
             "the first open crashes (or fails) between writing the settings and finishing the directory tree: the "
             "stored flag says 'pre-created' over a partial tree, every later open trusts it, and puts whose hash "
             "lands in a missing directory fail for ever")
    from . import order
    ENTRY_may = ctx.may.entry_sets(ctx.open_roots())
    n = order.require_not_before(ctx, r, ENTRY_may, "CAS_MKDIR", ["SNAP_PUBLISH:SETTINGS"])
    r.need(1, "shard-directory creation sites reachable from open")
    out.append(r.finish())
    return out


def _load_result_switch(ctx, b, load_bb):
    """The switch on the discriminant of the Option returned (inside the Result) by the loader call."""
    for bb in b.normal_blocks():
        c = cfgutil.switch_condition(b, bb)
        if not c or c[0] != "discr":
            continue
        pl = c[1]
        ty = ctx.world._place_ty(b, pl)
        t = ctx.prog.types[ty]
        if t.get("k") == "adt" and t["def"] == "std::option::Option":
            sl = Slicer(ctx.world, b)
            lv = sl.leaves_of_place(pl)
            if any(l[0] == "call" and l[2] == load_bb for l in lv):
                return bb
    return None


def _some_edge_of(ctx, b, load_bb):
    sw = _load_result_switch(ctx, b, load_bb)
    if sw is None:
        return None
    e = cfgutil.switch_edges(b, sw)
    t = e.get(1)
    if t is None and 0 in e:
        t = e["otherwise"]
    return (sw, t) if t is not None else None


def _none_edge_of(ctx, b, load_bb):
    sw = _load_result_switch(ctx, b, load_bb)
    if sw is None:
        return None
    e = cfgutil.switch_edges(b, sw)
    t = e.get(0)
    if t is None and 1 in e:
        t = e["otherwise"]
    return (sw, t) if t is not None else None


def guard_summary(ctx, tgt):
    """For a crate-local validation helper: the comparisons it makes between values rooted at its parameters (or a
    parameter and a constant) such that every Ok return lies behind the 'equal' edge.
    Returns [(kind, x, y)] with kind 'pp' (x, y = (param, path)) or 'pc' (x = (param, path), y = constant)."""
    prog = ctx.prog
    rt = prog.types[tgt.locals[0]]
    if not (rt.get("k") == "adt" and rt["def"] == "std::result::Result") or tgt.is_closure:
        return []
    rf = ctx.must(None).rf(tgt)
    oks = [bb for bb, k in rf.forwarded.items() if k == "ok"]
    if not oks:
        return []
    sl = Slicer(ctx.world, tgt)
    out = []
    for sw in tgt.normal_blocks():
        c = cfgutil.eq_edges(tgt, sw)
        if c is None:
            continue
        a, bop, t_eq, t_ne = c
        if t_eq is None or not all(cfgutil.edge_dominates(tgt, (sw, t_eq), x) for x in oks):
            continue
        la, lb = sl.leaves_of_operand(a), sl.leaves_of_operand(bop)
        if len(la) != 1 or len(lb) != 1:
            continue
        x, y = list(la)[0], list(lb)[0]
        for (p, q) in ((x, y), (y, x)):
            if p[0] == "param" and p[2] and q[0] == "param" and q[2] and p[1] != q[1] and p[2][-1] == q[2][-1]:
                out.append(("pp", (p[1], p[2]), (q[1], q[2])))
                break
            if p[0] == "param" and p[2] and q[0] == "const":
                out.append(("pc", (p[1], p[2]), q[1]))
                break
    return out


def compare_sites(ctx, loaders, sstructs):
    """(body, switch bb, field, line, mismatch target, match target, loader-call bb) for every switch
    that compares <result of the settings loader>.F with <parameter>.F."""
    out = []
    prog = ctx.prog
    if not loaders:
        return out
    loader_body = loaders[0].site.body.path
    for (csite, how) in prog.callers_index().get(loader_body, []):
        b = csite.body
        sl = Slicer(ctx.world, b)
        for bb in b.normal_blocks():
            c = cfgutil.cmp_true_edge(b, bb)
            if c is None:
                continue
            op, a, bop, t_true, t_false = c
            if op not in ("Eq", "Ne"):
                continue
            la = sl.leaves_of_operand(a)
            lb = sl.leaves_of_operand(bop)
            def stored(ls):
                return [l for l in ls if l[0] == "call" and l[2] == csite.bb and l[3]]
            def configured(ls):
                return [l for l in ls if l[0] == "param" and l[2]]
            for (x, y) in ((la, lb), (lb, la)):
                s, cfg = stored(x), configured(y)
                if s and cfg and len(x) == 1 and len(y) == 1 and s[0][3][-1] == cfg[0][2][-1]:
                    field = s[0][3][-1]
                    mismatch = t_true if op == "Ne" else t_false
                    match = t_false if op == "Ne" else t_true
                    out.append((b, bb, field, b.blocks[bb]["span"]["line"], mismatch, match, csite.bb))
        # the comparison may be delegated to a validation helper: `check(&stored, &config)?`
        rf = ctx.must(None).rf(b)
        for site in b.calls():
            tgt = prog.local_target(site)
            if tgt is None or site.bb == csite.bb:
                continue
            for (kind, x, y) in guard_summary(ctx, tgt):
                if kind != "pp":
                    continue
                for (p, q) in ((x, y), (y, x)):
                    if p[0] - 1 >= len(site.term["args"]) or q[0] - 1 >= len(site.term["args"]):
                        continue
                    ls = sl.leaves_of_operand(site.term["args"][p[0] - 1], p[1])
                    lc = sl.leaves_of_operand(site.term["args"][q[0] - 1], q[1])
                    s_ = [l for l in ls if l[0] == "call" and l[2] == csite.bb and l[3]]
                    c_ = [l for l in lc if l[0] == "param" and l[2]]
                    if s_ and c_ and len(ls) == 1 and len(lc) == 1:
                        oks = rf.ok_edges_of(site.bb)
                        errs = rf.err_edges_of(site.bb)
                        if len(oks) == 1 and len(errs) == 1 and oks[0][0] == errs[0][0]:
                            out.append((b, oks[0][0], p[1][-1], b.blocks[site.bb]["span"]["line"], errs[0][1], oks[0][1],
                                        csite.bb))
                        break
    return out


def version_gate(ctx, r, loaders, sstructs):
    prog = ctx.prog
    for e in loaders:
        # judged on the flat view of the loader: the version comparison may sit in a private `require_current_version`
        b0 = e.site.body
        b = ctx.flat(b0)
        occ = [fs for fs in ctx.flat_sites_of(b, e.site) if fs.kind == "call"]
        esite = occ[0] if occ else e.site
        if not occ:
            b = b0
        sl = Slicer(ctx.world, b)
        # candidate comparisons: <parsed>.version  vs  constant equal to a named crate constant
        gates = []
        for bb in b.normal_blocks():
            c = cfgutil.cmp_true_edge(b, bb)
            if c is None:
                continue
            op, a, bop, t_true, t_false = c
            if op not in ("Eq", "Ne"):
                continue
            for (x, y) in ((a, bop), (bop, a)):
                lx = sl.leaves_of_operand(x)
                ly = sl.leaves_of_operand(y)
                if len(lx) == 1 and len(ly) == 1:
                    l1 = list(lx)[0]
                    l2 = list(ly)[0]
                    if l1[0] == "call" and l1[-1] and l2[0] == "const":
                        named = [p for p, cst in prog.consts.items() if cst.get("v") == l2[1] and "VERSION" in p.upper()]
                        gates.append((bb, l1[-1][-1], l2[1], named, t_false if op == "Ne" else t_true,
                                      t_true if op == "Ne" else t_false, l1[1]))
        rfb = ctx.rf(b)
        for site in b.calls():
            tgt = prog.local_target(site)
            if tgt is None:
                continue
            for (kind, x, y) in guard_summary(ctx, tgt):
                if kind != "pc" or x[0] - 1 >= len(site.term["args"]):
                    continue
                lx = sl.leaves_of_operand(site.term["args"][x[0] - 1], x[1])
                if len(lx) == 1 and list(lx)[0][0] == "call" and list(lx)[0][-1]:
                    oks = rfb.ok_edges_of(site.bb)
                    errs = rfb.err_edges_of(site.bb)
                    if len(oks) == 1 and len(errs) == 1 and oks[0][0] == errs[0][0]:
                        named = [p for p, cst in prog.consts.items() if cst.get("v") == y and "VERSION" in p.upper()]
                        gates.append((oks[0][0], x[1][-1], y, named, oks[0][1], errs[0][1], list(lx)[0][1]))
        r.check(len(gates) >= 1, "version-compare", b0,
                "the loader compares %s" % "; ".join("parsed.%s with %s (= %s)" % (g[1], g[2], ",".join(g[3]) or "literal")
                                                     for g in gates),
                "the settings loader does not compare a parsed field with the version constant")
        for g in gates:
            r.check(bool(g[3]), "version-constant", b0, "the constant is %s" % ",".join(g[3]),
                    "the version is compared with the literal %s that is not a named *VERSION* constant" % g[2])
        # every Ok(Some(..)) return is dominated by the equal edge of a gate
        rf = ctx.rf(b)
        n = 0
        for bb in b.normal_blocks():
            for s in b.stmts(bb):
                if s["k"] == "assign" and s["lhs"]["l"] == 0 and not s["lhs"]["p"] and s["rv"]["k"] == "agg" \
                        and s["rv"].get("vn") == "Ok":
                    lv = sl.leaves_of_operand(s["rv"]["ops"][0]) if s["rv"]["ops"] else set()
                    is_some = any(l[0] == "call" for l in lv) or any(l[0] == "agg" and "Some" in str(l[1]) for l in lv)
                    # Ok(None) has only the `None` aggregate
                    if not lv or all(l[0] == "agg" and str(l[1]).endswith("::None") for l in lv):
                        continue
                    n += 1
                    ok = any(cfgutil.edge_dominates(b, (g[0], g[4]), bb) for g in gates)
                    r.check(ok, "ok-some-gated", b0,
                            "the Ok(Some(settings)) return at %s:%d is behind the version check" % (b.file, s.get("line", 0)),
                            "Ok(Some(settings)) at %s:%d can be returned without the version having been compared" % (
                                b.file, s.get("line", 0)), "%s:%d" % (b.file, s.get("line", 0)))
        # `validated.map(Some)`: the settings are handed out when the mapped Result is Ok - every `Ok(..)` it can be
        # built from lies behind the version check
        for s_ in b.calls():
            if term_path(s_.term) != "std::result::Result::map" or s_.term["dest"]["p"] or len(s_.term["args"]) < 2:
                continue
            fn_ = s_.term["args"][1].get("const", {})
            if "Some" not in str(fn_.get("fn", fn_.get("v", fn_.get("named", "")))):
                continue
            retl = {0}
            ch = True
            while ch:
                ch = False
                for l2 in list(retl):
                    for (dbb, j2, rv2) in b.assignments().get(l2, []):
                        if j2 != "term" and rv2["k"] == "use" and place_of(rv2["op"]) is not None and \
                                not place_of(rv2["op"])["p"] and place_of(rv2["op"])["l"] not in retl:
                            retl.add(place_of(rv2["op"])["l"])
                            ch = True
            if s_.term["dest"]["l"] not in retl:
                continue

            def ok_defs(l, depth=0, seen=None):
                seen = seen if seen is not None else set()
                if l in seen or depth > 8:
                    return [None]
                seen.add(l)
                out_ = []
                for (dbb, j2, rv2) in b.assignments().get(l, []):
                    if j2 == "term":
                        out_.append(None if not (term_path(rv2) or "").endswith("from_residual") else ("err", dbb))
                    elif rv2["k"] == "agg" and rv2.get("def") == "std::result::Result":
                        out_.append(("ok" if rv2.get("vn") == "Ok" else "err", dbb))
                    elif rv2["k"] == "use" and place_of(rv2["op"]) is not None and not place_of(rv2["op"])["p"]:
                        out_ += ok_defs(place_of(rv2["op"])["l"], depth + 1, seen)
                    else:
                        out_.append(None)
                return out_ or [None]
            pl_ = place_of(s_.term["args"][0])
            ds = ok_defs(pl_["l"]) if pl_ is not None and not pl_["p"] else [None]
            n += 1
            okm = all(d is not None for d in ds) and any(d[0] == "ok" for d in ds) and all(
                d[0] != "ok" or any(cfgutil.edge_dominates(b, (g[0], g[4]), d[1]) for g in gates) for d in ds)
            r.check(okm, "ok-some-gated", b0,
                    "the settings handed out through map(Some) at %s are Ok only behind the version check" % site_where(s_),
                    "Ok(Some(settings)) via map(Some) at %s can be returned without the version having been compared" %
                    site_where(s_), site_where(s_))
        r.check(n >= 1, "ok-some-exists", b0, "%d Ok(Some) return(s)" % n, "no Ok(Some(settings)) return found in the loader")
        # "no settings stored" (Ok(None): the caller creates a fresh database) only when the file is absent: the return
        # lies behind the Err edge of the read and behind the equal edge of a test of the error's kind
        errs = rf.err_edges_of(esite.bb)
        kind_edges = []
        for bb in b.normal_blocks():
            c = cfgutil.eq_edges(b, bb)
            if c is None:
                continue
            x, y, t_eq, t_ne = c
            lv = sl.leaves_of_operand(x) | sl.leaves_of_operand(y)
            if any(l[0] == "call" and (l[1] or "").endswith("io::Error::kind") for l in lv) and t_eq is not None:
                kind_edges.append((bb, t_eq))
        for bb in b.normal_blocks():
            for st in b.stmts(bb):
                if st["k"] == "assign" and st["lhs"]["l"] == 0 and not st["lhs"]["p"] and st["rv"]["k"] == "agg" \
                        and st["rv"].get("vn") == "Ok" and st["rv"]["ops"]:
                    lv = sl.leaves_of_operand(st["rv"]["ops"][0])
                    if not lv or not all(l[0] == "agg" and str(l[1]).endswith("::None") for l in lv):
                        continue
                    ok = bool(errs) and cfgutil.edges_dominate(b, errs, bb) and bool(kind_edges) and \
                        cfgutil.edges_dominate(b, kind_edges, bb)
                    r.check(ok, "none-only-if-absent", b0,
                            "Ok(None) at %s:%d only when reading the settings file failed with the tested error kind (file "
                            "absent)" % (b.file, st.get("line", 0)),
                            "the loader can answer Ok(None) ('no settings stored: create a fresh database') at %s:%d although "
                            "the settings file exists and was read: stored settings and version are bypassed" % (
                                b.file, st.get("line", 0)), "%s:%d" % (b.file, st.get("line", 0)))


def stored_flag_wins(ctx, r, loaders, sstructs):
    """The bool handed to the constructor of the blob manager (the struct that performs BLOB_PUBLISH)."""
    prog = ctx.prog
    if not loaders:
        return
    loader_body = loaders[0].site.body.path
    pubs = ctx.fx.of_kind("FS_RENAME")
    mgr = None
    for e in pubs:
        if e.classes2 and e.classes2 <= {"CAS_BLOB"}:
            self_ty = e.site.body.locals[1] if e.site.body.argc >= 1 else None
            if self_ty is not None:
                mgr, _ = prog.adt_of(self_ty)
    if mgr is None or mgr not in prog.adts:
        r.bad("blob-manager", None, "cannot find the struct that publishes blobs")
        return
    flags = [f["name"] for f in prog.adts[mgr]["variants"][0]["fields"] if prog.ty_str(f["ty"]) == "bool"]
    from ..prov import expand_down
    for b in prog.bodies.values():
        sl = Slicer(ctx.world, b)
        for site in b.calls():
            tgt = prog.local_target(site)
            if tgt is None or prog.adt_of(tgt.locals[0])[0] != mgr or tgt.is_closure:
                continue
            for i, a in enumerate(site.term["args"]):
                if prog.ty_str(b.locals[place_of(a)["l"]]) != "bool" if place_of(a) else True:
                    continue
                # the flag may be computed by a helper (load-or-create settings): follow it into the helper's return
                lv = expand_down(ctx.world, b, sl.leaves_of_operand(a), stop=(loader_body,))
                from_stored = []
                for l in lv:
                    if l[0] == "call" and l[3]:
                        lb = sl.body_at(l[2])
                        bb = l[2][1] if isinstance(l[2], tuple) else l[2]
                        tg2 = prog.local_target(Site(lb, bb, lb.blocks[bb]["term"]))
                        if tg2 is not None and tg2.path == loader_body:
                            from_stored.append(l)
                from_cfg = [l for l in lv if l[0] == "param" and l[2]]
                other = [l for l in lv if l not in from_stored and l not in from_cfg]
                r.check(bool(from_stored) and not other, "flag-from-stored", b,
                        "layout flag passed at %s comes from the stored settings (%s)%s" % (
                            site_where(site), ",".join(fmt_leaf(l) for l in from_stored),
                            " or, for a new database, from %s" % ",".join(fmt_leaf(l) for l in from_cfg) if from_cfg else ""),
                        "layout flag passed at %s has origins %s" % (site_where(site), sorted(fmt_leaf(l) for l in lv)),
                        site_where(site))
                # the configured value is used only on the branch that also saved it
                if from_cfg:
                    saved = False
                    for s2 in b.calls():
                        evs = ctx.may.site_events(s2)
                        if "SNAP_PUBLISH:SETTINGS" in sem_set(e2 for e2 in evs if ctx._concrete(e2)):
                            for a2 in s2.term["args"]:
                                l2 = sl.leaves_of_operand(a2)
                                # the saved struct is built from the same configured fields
                                agg = [l for l in l2 if l[0] == "agg" or l[0] == "param"]
                                if l2:
                                    saved = True
                    r.check(saved, "flag-new-db-saved", b,
                            "for a new database the flag used is the one just stored",
                            "for a new database the configured flag is used without being stored")
