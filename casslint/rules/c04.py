"""C04 No dangling reference under any interleaving: conformance to the intents protocol."""
from .. import cfgutil, effects
from ..core import Site, FN_TRAIT_CALLS, term_path
from ..ctx import sem, sem_set, ANCHOR_FIELDS
from ..prov import Slicer, fmt_leaf
from ..vfg import place_of
from .base import Rule, site_construct, site_where, stable_path
from .c13 import intent_guard_drops

PROP = "C04"


def site_sem(ctx, site):
    return sem_set(e for e in ctx.may.site_events(site) if ctx._concrete(e))


def intents_reads_under(ctx, body):
    """INTENTS-role containers read (non-mutably) in `body` or anything it calls."""
    out = set()
    for e in ctx.may.all_events(body.path):
        if e[0] == "CONT" and ANCHOR_FIELDS.get(e[1]) == "INTENTS" and not e[3]:
            out.add(e[1])
    return out


def filter_containers(ctx):
    """The intents container(s) by role: containers (behind a Mutex of the owner struct) that are read
    by the predicates deciding whether a blob may be unlinked: (transitively) inside closures handed
    to `Vec::retain`, and in the bodies that unlink directly."""
    out = {}
    prog = ctx.prog
    for b in prog.bodies.values():
        for s in b.calls():
            if s.path != "std::vec::Vec::retain":
                continue
            for t, how in prog.call_targets(s):
                if how == "extern-cb":
                    for f in intents_reads_under(ctx, t):
                        out.setdefault(f, []).append(("retain predicate at %s" % s.loc(), "filter"))
    for site in ctx.sem_sites("BLOB_UNLINK"):
        b = site.body
        if b.is_closure:
            continue
        for f in intents_reads_under(ctx, b):
            out.setdefault(f, []).append(("re-validation in %s" % b.path, "revalidate"))
    return out


def protocol_lock(ctx):
    """Lock classes must-held at every INTENT_ADD site."""
    L = ctx.locks
    P = None
    sites = []
    for cu in ctx.world.container_uses:
        if "INTENT_ADD" in sem(("CONT", cu.field, cu.method, cu.mutable)):
            h = L.must_held_at(cu.site)
            if h is None:
                continue
            sites.append(cu)
            cs = set(c for c, m in h)
            P = cs if P is None else (P & cs)
    return (P or set()), sites


def deref_unlink_sites(ctx):
    prog = ctx.prog
    roots = [prog.bodies[c] for c in prog.dyn_fn_closures() if c in prog.bodies]
    reach = prog.reachable_bodies(roots)
    return [s for s in ctx.sem_sites("BLOB_UNLINK") if s.body.path in reach], reach


def rules(ctx, tier):
    out = []
    L = ctx.locks
    prog = ctx.prog
    P, add_sites = protocol_lock(ctx)
    fcont = filter_containers(ctx)
    cb_unlinks, cb_reach = deref_unlink_sites(ctx)
    all_unlinks = ctx.sem_sites("BLOB_UNLINK")
    direct_unlinks = [s for s in all_unlinks if s.body.path not in cb_reach]

    # ------------------------------------------------------------------ R1
    r = Rule("R1", "one protocol lock: held at every intent add/remove, at every filter read and at every blob unlink",
             "a blob is unlinked while a commit that needs it registers its intent concurrently: the check and the "
             "unlink are not atomic with respect to registration")
    r.check(bool(P), "protocol-lock", None, "protocol lock (must-held at all %d intent additions): %s" % (
        len(add_sites), sorted(P)), "no single lock is held at every intent registration site")
    for cu in ctx.world.container_uses:
        roles = sem(("CONT", cu.field, cu.method, cu.mutable))
        if not (roles & {"INTENT_DEL", "INTENT_READ", "INTENT_ADD"}):
            continue
        h = L.must_held_at(cu.site)
        if h is None:
            continue
        cs = set(c for c, m in h) | set(c for c, m in ctx.world.through_guard(cu.site.body, cu.site.term["args"][0]))
        r.check(bool(P) and P <= cs, "%s:%s.%s" % ("/".join(sorted(roles - {"INTENT_MUT"})), cu.field[2], cu.method),
                cu.site.body, "%s under %s" % (cu.describe(), sorted(cs)),
                "%s happens without the protocol lock %s (held: %s)" % (cu.describe(), sorted(P), sorted(cs)),
                site_where(cu.site))
    for site in all_unlinks:
        h = L.must_held_at(site)
        if h is None:
            continue
        cs = set(c for c, m in h)
        r.check(bool(P) and P <= cs, "unlink:%s" % site_construct(site), site.body,
                "blob unlink at %s under %s" % (site_where(site), sorted(cs)),
                "blob unlink at %s happens without the protocol lock %s (held: %s)" % (
                    site_where(site), sorted(P), sorted(cs)), site_where(site),
                witness={"must_held": sorted(cs)})
    # role minimum rather than today's count (11 accesses + 4 unlinks): helpers shared by two call sites lower the
    # number of access sites without removing a role
    seen_roles = set()
    for cu in ctx.world.container_uses:
        seen_roles |= sem(("CONT", cu.field, cu.method, cu.mutable)) & {"INTENT_DEL", "INTENT_READ", "INTENT_ADD"}
    r.check(seen_roles == {"INTENT_DEL", "INTENT_READ", "INTENT_ADD"}, "intent-roles", None,
            "intents are added, removed and read (%s)" % sorted(seen_roles),
            "the intents container is not added to, removed from and read (found only %s)" % sorted(seen_roles))
    r.check(len(all_unlinks) >= 2, "unlink-sites", None, "%d blob unlink site(s)" % len(all_unlinks),
            "expected the callback unlink and the orphan clean-up unlinks, found %d unlink site(s)" % len(all_unlinks))
    r.need(9, "protocol lock + intents accesses (add, remove, read) + unlink sites")
    out.append(r.finish())

    # ------------------------------------------------------------------ R2
    r = Rule("R2", "only checked hashes are unlinked: the list handed to the delete callback went through the "
                   "intents filter; direct unlinks are guarded by 'not referenced and no intent' for the same hash",
             "a blob that a key references, or that an in-flight commit is about to reference, is deleted")
    n_cb = 0
    sections = delete_sections(ctx)
    for (V, owner, dels, applies) in sections:
        for site in dels:
            n_cb += 1
            check_callback_list(ctx, r, V, site, fcont, owner)
    # direct unlinks (not behind the delete callback): judged at the syscall itself, in the flat view of the function
    # that supplies the path when the syscall sits in a private helper
    builders = tuple(sorted(p_ for p_, bd in prog.bodies.items() if not bd.is_closure and
                            prog.adt_of(bd.locals[0])[0] in ("std::path::PathBuf", "std::path::Path")))
    for (vb, vsite, kb) in ctx.concrete_occurrences("BLOB_UNLINK", stop=builders):
        if kb.path in cb_reach or vsite.body.origin_key(vsite.bb)[0] in cb_reach:
            continue
        check_direct_unlink(ctx, r, vsite, fcont, kb=kb)
    r.check(n_cb >= 1, "callback-sites", None, "%d delete-callback call site(s)" % n_cb,
            "expected at least 1 delete-callback call site, found %d" % n_cb)
    r.need(9, "2 callback sites x3 + 3 direct unlinks x2")
    out.append(r.finish())

    # ------------------------------------------------------------------ R3
    r = Rule("R3", "intent before publish, alive until apply",
             "the blob is renamed into cas/ before its intent exists (or the intent is dropped before the index "
             "references the blob): a concurrent remove of the same content deletes it in the window")
    must = ctx.must(None)
    ENTRY = must.entry_sets(ctx.live_roots())
    n = 0
    done = set()
    for chain in ctx.sem_chains("BLOB_PUBLISH"):
        site = chain[0]
        sets = ctx.must_before(must, ENTRY, site, "BLOB_PUBLISH")
        if sets is None:
            continue
        # the frame that owns the intent guard: the innermost one whose body makes the registering call
        ow = intent_owner(ctx, chain)
        frame = ow[2] if ow is not None else chain[0]
        if frame.key() in done:
            continue
        done.add(frame.key())
        n += 1
        names = set.intersection(*[sem_set(S) for S in sets])
        r.check("INTENT_ADD" in names, "INTENT_ADD@BLOB_PUBLISH", frame.body,
                "an intent is registered before the publish at %s" % site_where(frame),
                "the blob is published at %s before any intent is registered" % site_where(frame), site_where(frame))
        guard_alive(ctx, r, chain)
    r.need(3, "publish site: intent first, guard live, guard consumed by the apply call")
    out.append(r.finish())

    # ------------------------------------------------------------------ R4
    r = Rule("R4", "one continuous hold of the protocol lock from apply to delete",
             "between apply and delete the lock is dropped: a commit registers, publishes and applies the same "
             "content in the gap, then the stale delete list removes its blob")
    from .. import locks as locksmod
    for (V, owner, dels, applies) in sections:
        b = V
        bl = locksmod.BodyLocks(ctx.world, V)
        acq = [(bb, cs) for (bb, cs, blocking, path) in bl.acquired_here if path in effects.LOCK_ACQ
               and any(c in P for c, _ in cs)]
        for a in applies:
            for d in dels:
                doms = [bb for bb, cs in acq if b.dominates(bb, a.bb) and b.dominates(bb, d.bb)]
                r.check(len(doms) == 1, "single-acquire", owner,
                        "%s: the protocol lock is acquired once before apply and delete" % owner.path,
                        "%s: %d acquisitions of the protocol lock dominate apply (%s) and delete (%s)" % (
                            owner.path, len(doms), site_where(a), site_where(d)))
                ha = L.must_held_at(V.orig_site(a))
                hd = L.must_held_at(V.orig_site(d))
                r.check(ha is not None and P <= set(c for c, _ in ha), "held-at-apply", owner,
                        "protocol lock held at the apply call %s" % site_where(a),
                        "protocol lock not held at the apply call %s" % site_where(a), site_where(a))
                r.check(hd is not None and P <= set(c for c, _ in hd), "held-at-delete", owner,
                        "protocol lock held at the delete call %s" % site_where(d),
                        "protocol lock not held at the delete call %s" % site_where(d), site_where(d))
                # no release of a protocol-lock guard and no second acquisition between the two
                between = cfgutil.reach(b, a.bb) & _can_reach(b, d.bb)
                rel = []
                for x in between:
                    t = b.blocks[x]["term"]
                    if x in (a.bb,):
                        continue
                    if t["k"] == "drop" and t["place"]["l"] in bl.guard_locals and \
                            any(c in P for c, _ in bl.guard_locals[t["place"]["l"]]):
                        rel.append(x)
                    if t["k"] == "call" and term_path(t) == "std::mem::drop":
                        pl = place_of(t["args"][0])
                        if pl and pl["l"] in bl.guard_locals and any(c in P for c, _ in bl.guard_locals[pl["l"]]):
                            rel.append(x)
                    if any(x == bb for bb, cs in acq):
                        rel.append(x)
                r.check(not rel, "no-release-between", owner,
                        "no release or re-acquisition of the protocol lock between apply and delete in %s" % owner.path,
                        "the protocol lock is released or re-acquired between apply (%s) and delete (%s) in %s" % (
                            site_where(a), site_where(d), owner.path))
    r.need(4, "at least one apply+delete body x4 (today: 2 bodies)")
    out.append(r.finish())

    # ------------------------------------------------------------------ R5
    r = Rule("R5", "an intent protects its hash for the whole life of its guard (container discipline)",
             "two commits on one key: the second overwrites the first's entry while the first sits between publish "
             "and apply; a concurrent remove of another key holding the same content sees no intent, unlinks the "
             "blob, the first commit applies: the key references a missing blob")
    container_discipline(ctx, r, fcont, P)
    r.need(2, "intents container: add and delete discipline")
    out.append(r.finish())

    # ------------------------------------------------------------------ R6
    r = Rule("R6", "closed world: intents are only touched by crate-internal code",
             "code outside the crate registers or removes intents, or unlinks blobs, outside the protocol")
    for cu in ctx.world.container_uses:
        if ANCHOR_FIELDS.get(cu.field) != "INTENTS" or not cu.mutable:
            continue
        b = cu.site.body
        root = prog.bodies.get(b.root) if b.is_closure else b
        vis = root.reachable if root is not None else False
        is_drop = b.raw.get("impl_trait") == "std::ops::Drop"
        r.check((not vis) or is_drop, "internal:%s" % cu.method, b,
                "%s is not externally callable" % b.path, "%s mutates the intents and is externally reachable" % b.path)
    # the owner's fields are not public API
    owner = ctx.anchors.get("OWNER")
    if owner:
        r.check(not ctx.prog.adts[owner]["reachable"], "owner-private", None,
                "%s is not nameable from outside the crate" % owner,
                "%s (which holds the intents and the locks) is reachable from outside the crate" % owner)
    r.need(4, "intent mutators + owner visibility")
    out.append(r.finish())
    return out


def _can_reach(body, target):
    seen = set()
    work = [target]
    while work:
        x = work.pop()
        if x in seen:
            continue
        seen.add(x)
        work.extend(body.preds(x))
    return seen


def _reaches_apply(ctx, site):
    """Does this call (directly or transitively) run the apply body? Only *local* calls that are not
    themselves the whole apply+delete function."""
    roles = ctx.role_bodies()
    for tgt, how in ctx.prog.call_targets(site):
        if how == "extern-cb":
            continue
        reach = ctx.prog.reachable_bodies([tgt], include_drops=False)
        if any(p in roles for p in reach):
            # exclude calls that also reach the delete callback (they are outer wrappers)
            if "BLOB_UNLINK" in sem_set(e for e in ctx.may.all_events(tgt.path) if ctx._concrete(e)):
                continue
            return True
    return False


def delete_sections(ctx):
    """(flat view, owner body, delete-callback sites in the view, apply sites in the view) for every function that
    applies an operation and hands the dereferenced blobs to the delete callback.  Helpers between the two steps
    (a private 'purge' function, say) are part of the view."""
    prog = ctx.prog
    out = []
    for b in prog.bodies.values():
        if b.is_closure:
            continue
        own_apply = [s for s in b.calls() if _reaches_apply(ctx, s)]
        if not own_apply:
            continue
        V = ctx.flat(b, stop=tuple(ctx.apply_roots()))
        dels = [s for s in V.sites(("call",)) if s.path in FN_TRAIT_CALLS and (s.callee or {}).get("rk") == "virtual"
                and "BLOB_UNLINK" in site_sem(ctx, V.orig_site(s))]
        if not dels:
            continue
        applies = [s for s in V.sites(("call",)) if _reaches_apply(ctx, s)]
        out.append((V, b, dels, applies))
    return out


def _filter_chain(ctx, b, sl, op, extra=(), trail=None):
    """Walks the iterator pipeline that produced a list: returns (closures of the `filter` steps, operand the
    pipeline started from)."""
    filters = []
    cur = op
    for _ in range(8):
        # (what an inlined helper forwards on its error path never reaches the pipeline's consumer)
        lv = set(x for x in sl.leaves_of_operand(cur)
                 if not (x[0] == "call" and (x[1] or "").endswith("FromResidual::from_residual")))
        if len(lv) != 1:
            break
        l = list(lv)[0]
        if l[0] != "call":
            break
        last = (l[1] or "").split("::")[-1]
        if last not in ("collect", "from_iter", "filter", "into_iter", "iter", "copied", "cloned", "by_ref", "rev",
                        "drain", "inspect", "into_keys", "keys", "peekable") + tuple(extra):
            break
        t = b.blocks[l[2]]["term"]
        if trail is not None:
            trail.append(l)
        if last == "filter":
            site2 = Site(b, l[2], t)
            filters += [tg for tg, how in ctx.prog.call_targets(site2) if how == "extern-cb"]
        if not t["args"]:
            break
        cur = t["args"][0]
    return filters, cur


def check_callback_list(ctx, r, b, site, fcont, kb=None):
    """site: `delete_fn(&list)`. The list local went through `retain(|h| !intents...)` and comes from the
    apply call; nothing else adds to it."""
    prog = ctx.prog
    kb = kb or b
    args = site.term["args"]
    ops = ctx.world.vfg._tuple_ops(b, place_of(args[1])["l"]) if len(args) > 1 and place_of(args[1]) else None
    if not ops:
        r.bad("callback-arg", kb, "cannot see the argument tuple of the callback at %s" % site_where(site))
        return
    V = ctx.world.borrowed_local(b, ops[0])
    if V is None:
        r.bad("callback-list", kb, "the callback argument at %s is not a local list" % site_where(site))
        return
    # provenance of V: either the apply result itself, or a filter pipeline over it
    sl = Slicer(ctx.world, b, skip_err=True)
    pipe_filters, start = _filter_chain(ctx, b, sl, {"copy": {"l": V, "p": []}})
    # (values of the error paths of inlined helpers never reach the list)
    lv = set(l for l in sl.leaves_of_operand(start)
             if not (l[0] == "call" and (l[1] or "").endswith("FromResidual::from_residual")))
    calls = [l for l in lv if l[0] == "call"]
    ok_src = len(lv) >= 1 and all(l[0] == "call" and _reaches_apply(ctx, Site(b, l[2], b.blocks[l[2]]["term"])) for l in lv)
    # out-parameter form: the list starts empty and the apply step's result is appended to it (`out.extend(apply(..))`)
    fills = []
    if not ok_src and lv and all(l[0] == "call" and l[1] in ("std::vec::Vec::new", "std::vec::Vec::with_capacity",
                                                             "std::default::Default::default") for l in lv):
        for s2 in b.calls():
            if (s2.path or "") not in ("std::iter::Extend::extend", "std::vec::Vec::append", "std::vec::Vec::extend_from_slice") \
                    or len(s2.term["args"]) < 2 or ctx.world.borrowed_local(b, s2.term["args"][0]) != V:
                continue
            src = set(l for l in sl.leaves_of_operand(s2.term["args"][1])
                      if not (l[0] == "call" and (l[1] or "").endswith("FromResidual::from_residual")))
            if src and all(l[0] == "call" and not isinstance(l[2], tuple) and
                           _reaches_apply(ctx, Site(b, l[2], b.blocks[l[2]]["term"])) for l in src) and \
                    b.dominates(s2.bb, site.bb):
                fills.append(s2)
        # callback form: the apply step reports each freed hash through a closure that pushes it (`apply_with(op, |h|
        # freed.push(h))`): a closure that captures the list mutably, does nothing but push its argument, and is handed to
        # the apply call, is the apply step's result
        cb_fill = None
        if not fills:
            for s3 in b.calls():
                if not _reaches_apply(ctx, b.orig_site(s3) if getattr(b, "is_flat", False) else s3):
                    continue
                for a in s3.term["args"]:
                    pl = place_of(a)
                    cd = prog.closure_def_of_type(b.locals[pl["l"]]) if pl is not None and not pl["p"] else None
                    cb = prog.bodies.get(cd) if cd else None
                    if cb is None:
                        continue
                    caps = [rv for (dbb, j, rv) in b.assignments().get(pl["l"], []) if j != "term" and rv["k"] == "agg"
                            and rv.get("ak") == "closure"]
                    # (the list the closure fills: the delete-site list itself, or the local it was moved out of)
                    born = set([V] + [b.blocks[l[2]]["term"]["dest"]["l"] for l in lv
                                      if l[0] == "call" and not isinstance(l[2], tuple)])
                    if len(caps) != 1 or not any(ctx.world.borrowed_local(b, o) in born for o in caps[0]["ops"]):
                        continue
                    calls = [c for c in cb.calls()]
                    csl = Slicer(ctx.world, cb)
                    if calls and all((c.path or "") == "std::vec::Vec::push" and len(c.term["args"]) == 2 and
                                     all(l[0] == "param" and l[1] >= 2 for l in csl.leaves_of_operand(c.term["args"][1]))
                                     for c in calls) and b.dominates(s3.bb, site.bb):
                        cb_fill = s3
        if cb_fill is not None:
            ok_src = True
            lv = {("call", cb_fill.path, cb_fill.bb, ())}
        if fills:
            ok_src = True
            lv = set(l for s2 in fills for l in sl.leaves_of_operand(s2.term["args"][1]))
    r.check(ok_src, "list-source", kb,
            "the list deleted at %s is the result of the apply call (%s)" % (site_where(site),
                                                                            ", ".join(fmt_leaf(l) for l in lv)),
            "the list deleted at %s has origins %s (expected: only the result of the apply call)" % (
                site_where(site), sorted(fmt_leaf(l) for l in lv)), site_where(site))
    # uses of V
    retains = []
    good = []
    # a crate-local helper that is handed `&mut list` and filters it against the live intents
    for s2 in b.calls():
        tgt = prog.local_target(s2)
        if tgt is None or not b.dominates(s2.bb, site.bb):
            continue
        takes = False
        for a in s2.term["args"]:
            pl = place_of(a)
            if pl is None or pl["p"]:
                continue
            t0 = prog.types[b.locals[pl["l"]]]
            if t0.get("k") == "ref" and t0.get("mut") and ctx.world.borrowed_local(b, a) == V:
                takes = True
        if not takes:
            continue
        sub = prog.reachable_bodies([tgt])
        has_retain = any((x.path or "") == "std::vec::Vec::retain" for q in sub for x in prog.bodies[q].calls())
        adds = any((x.path or "").split("::")[-1] in ("push", "extend", "extend_from_slice", "insert", "append")
                   and (x.path or "").startswith("std::vec::Vec") for q in sub for x in prog.bodies[q].calls())
        if has_retain and not adds and (intents_reads_under(ctx, tgt) & set(fcont)):
            good.append(s2)
    others = []
    for s2 in b.calls():
        if not s2.term["args"]:
            continue
        if ctx.world.borrowed_local(b, s2.term["args"][0]) != V:
            continue
        m = (s2.path or "").split("::")[-1]
        if s2.path == "std::vec::Vec::retain":
            retains.append(s2)
        elif m in ("is_empty", "deref", "len", "as_slice", "iter", "as_ref", "clone", "drop", "call") or s2 in good:
            pass
        else:
            pl0 = place_of(s2.term["args"][0])
            t0 = prog.types[b.locals[pl0["l"]]] if pl0 and not pl0["p"] else {}
            if t0.get("k") == "ref" and t0.get("mut") and s2.bb not in [f_.bb for f_ in fills]:
                others.append(s2)
    for s2 in retains:
        cls = [t for t, how in prog.call_targets(s2) if how == "extern-cb"]
        reads = False
        for c in cls:
            if intents_reads_under(ctx, c) & set(fcont):
                reads = True
        if reads and b.dominates(s2.bb, site.bb):
            good.append(s2)
    piped = [c for c in pipe_filters if intents_reads_under(ctx, c) & set(fcont)]
    r.check(len(good) >= 1 or bool(piped), "filtered", kb,
            "the list deleted at %s is filtered against the live intents (%s)" % (
                site_where(site), ", ".join(site_where(s) for s in good) or "filter step of the pipeline that builds it"),
            "the list deleted at %s does not pass through a retain()/filter() whose predicate reads the intents on every path"
            % site_where(site), site_where(site))
    r.check(not others, "nothing-added", kb, "nothing is added to the list after the apply call",
            "the delete list is modified by %s" % ", ".join("%s at %s" % (s.path, site_where(s)) for s in others))


def check_direct_unlink(ctx, r, site, fcont, kb=None):
    """An unlink in a body that is not behind the delete callback: it must be dominated by the false
    edges of a refcount test and of an intents test on the same hash that names the unlinked path.
    `site` may be a site of a flat view (the tests may sit in the caller of a helper that only unlinks)."""
    b = site.body
    kb = kb or (b.origin_body(site.bb) if getattr(b, "is_flat", False) else b)
    is_flat = getattr(b, "is_flat", False)
    sl = Slicer(ctx.world, b)
    # hash behind the unlinked path
    path_leaves = sl.leaves_of_operand(site.term["args"][0])
    hash_leaves = set()
    for l in path_leaves:
        if l[0] == "call":
            t = b.blocks[l[2]]["term"]
            for a in t["args"][1:]:
                hash_leaves |= sl.leaves_of_operand(a)
    ref_guard = False
    int_guard = False
    for bb in b.normal_blocks():
        t = b.blocks[bb]["term"]
        if t["k"] != "switch":
            continue
        c = cfgutil.switch_condition(b, bb)
        if not c:
            continue
        tt, ff = cfgutil.true_false_edges(b, bb)
        if ff is None or not cfgutil.edge_dominates(b, (bb, ff), site.bb):
            continue
        # what does the tested bool derive from?
        if c[0] == "bool" or c[0] == "call":
            op = c[1] if c[0] == "bool" else None
            leaves = sl.leaves_of_operand(op) if op is not None else {("call", c[1], c[4], ())}
        else:
            continue
        for l in leaves:
            if l[0] != "call":
                continue
            s2 = Site(b, l[2], b.blocks[l[2]]["term"])
            names = site_sem(ctx, b.orig_site(s2) if is_flat else s2)
            same = _same_hash(ctx, sl, s2, hash_leaves)
            if "REFCNT_READ" in names and same:
                ref_guard = True
            if ("INTENT_READ" in names or _iter_over_intents(ctx, b, sl, s2, fcont)) and same:
                int_guard = True
    r.check(ref_guard, "guard:not-referenced:%s" % site_construct(site), kb,
            "unlink at %s only if the index does not reference the hash" % site_where(site),
            "unlink at %s is not guarded by a 'still referenced' test of the same hash" % site_where(site),
            site_where(site))
    r.check(int_guard, "guard:no-intent:%s" % site_construct(site), kb,
            "unlink at %s only if no live intent holds the hash" % site_where(site),
            "unlink at %s is not guarded by a live-intent test of the same hash" % site_where(site),
            site_where(site))


def _same_hash(ctx, sl, s2, hash_leaves):
    """Does call s2 take (or capture) a value with the same origin as the unlinked hash?"""
    b = s2.body
    for a in s2.term["args"]:
        la = sl.leaves_of_operand(a)
        if la & hash_leaves:
            return True
        # closure argument: captured values
        pl = place_of(a)
        if pl is not None and not pl["p"]:
            cd = ctx.prog.closure_def_of_type(b.locals[pl["l"]])
            if cd:
                for (dbb, j, rv) in b.assignments().get(pl["l"], []):
                    if j != "term" and rv["k"] == "agg" and rv["ak"] == "closure":
                        for op in rv["ops"]:
                            if sl.leaves_of_operand(op) & hash_leaves:
                                return True
    return False


def _iter_over_intents(ctx, b, sl, s2, fcont):
    """`intents.values().any(|h| h == hash)`: an iterator adaptor whose receiver derives from a read of
    the intents container."""
    if (s2.path or "") not in ("std::iter::Iterator::any", "std::iter::Iterator::all", "std::iter::Iterator::find",
                               "std::iter::Iterator::position"):
        return False
    if not s2.term["args"]:
        return False
    for l in sl.leaves_of_operand(s2.term["args"][0]):
        if l[0] == "call":
            s3 = Site(b, l[2], b.blocks[l[2]]["term"])
            for cu in ctx.world.container_uses:
                if cu.site.key() == s3.key() and cu.field in fcont:
                    return True
    return False


def intent_owner(ctx, chain):
    """(frame of the chain, registering call in its body): the outermost frame of a publish chain whose body calls
    something that registers an intent and RETURNS the guard (a value whose Drop touches the intents)."""
    prog = ctx.prog
    gdrops = set(x.path for x in intent_guard_drops(ctx))

    def holds_guard(ty):
        return bool(prog.find_in_type(ty, lambda x: x.get("k") == "adt" and x.get("def") in prog.adts and
                                      prog.adts[x["def"]].get("drop_fn") in gdrops))
    for fs in chain:
        b0 = fs.body
        for c in b0.calls():
            if "INTENT_ADD" in sem_set(ctx.may.site_events(c)) and not c.term["dest"]["p"] and \
                    holds_guard(b0.locals[c.term["dest"]["l"]]):
                return (b0, c, fs)
    return None


def guard_alive(ctx, r, chain):
    """On the flat view of the function that obtains the intent guard (the value returned by the registering call, a type
    whose Drop touches the intents): between registration and the publish the guard is neither dropped nor handed to code
    outside the view, and after the publish it is moved into the call that logs and applies.  The publish and the apply
    may sit in helpers that receive the guard as a parameter - they are part of the view."""
    prog = ctx.prog
    gdrops = set(x.path for x in intent_guard_drops(ctx))

    def holds_guard(ty):
        return bool(prog.find_in_type(ty, lambda x: x.get("k") == "adt" and x.get("def") in prog.adts and
                                      prog.adts[x["def"]].get("drop_fn") in gdrops))
    owner = intent_owner(ctx, chain)
    kb = chain[0].body
    r.check(owner is not None, "guard-local", kb, "intent guard produced in %s" % (owner[0].path if owner else "?"),
            "cannot find the value that keeps the intent alive on the way to the publish at %s" % site_where(chain[0]))
    if owner is None:
        return
    b0, reg0, _fs = owner
    reg_tgt = prog.local_target(reg0)
    V = ctx.flat(b0, stop=(reg_tgt.path,) if reg_tgt is not None else ())
    regs = ctx.flat_sites_of(V, reg0)
    chain_keys = set(fs.key() for fs in chain)
    pubs = [s for s in V.sites(("call",)) if s.key() in chain_keys and not V.blocks[s.bb].get("cleanup")]
    if not regs or not pubs:
        r.bad("guard-live-at-publish", b0, "cannot see registration and publish together in the view of %s" % b0.path)
        return
    gl = set(l for l, t in enumerate(V.locals) if holds_guard(t))
    for pub in pubs:
        for reg in regs:
            region = cfgutil.reach(V, reg.bb) & _can_reach(V, pub.bb)
            early = []
            for x in region:
                t = V.blocks[x]["term"]
                if x in (pub.bb, reg.bb):
                    continue
                if t["k"] == "drop" and t["place"]["l"] in gl:
                    early.append(x)
                if t["k"] == "call":
                    for a in t["args"]:
                        pl = a.get("move")
                        if pl is not None and not pl["p"] and pl["l"] in gl and holds_guard(V.locals[pl["l"]]) and \
                                not (term_path(t) or "").endswith(("Try::branch", "map_err", "from_residual")):
                            early.append(x)
            r.check(V.dominates(reg.bb, pub.bb) and not early, "guard-live-at-publish", b0,
                    "the intent guard is alive from registration to the publish at %s" % site_where(pub),
                    "the intent guard is dropped or given away before the publish at %s (%s)" % (
                        site_where(pub), ", ".join(sorted("%s:%d" % (V.blocks[x]["span"].get("file", ""), V.blocks[x]["span"]["line"])
                                                          for x in early))), site_where(pub))
        consumed = False
        for s2 in V.calls():
            if s2.bb == pub.bb or s2.bb not in cfgutil.reach(V, pub.bb):
                continue        # (publish-before-apply on every path is C03-R1; here: the guard survives the way there)
            if "INDEX_MUTATE" not in sem_set(ctx.may.site_events(V.orig_site(s2))):
                continue
            # the guard is handed to the applying call, or (the call being part of the view) simply still alive there
            moved = any(a.get("move") is not None and not a["move"]["p"] and a["move"]["l"] in gl for a in s2.term["args"])
            region2 = (cfgutil.reach(V, pub.bb) & _can_reach(V, s2.bb)) - {pub.bb, s2.bb}
            dropped = [x for x in region2 if V.blocks[x]["term"]["k"] == "drop" and V.blocks[x]["term"]["place"]["l"] in gl
                       and not V.blocks[x]["term"]["place"]["p"]]
            if moved or not dropped:
                consumed = True
        # the apply step lies behind the publish: in the innermost function of the publish chain that also makes the
        # applying call, the publish step dominates it (a 'content already stored' shortcut around the publish leaves
        # the index pointing at a file this commit never put there - and nobody's intent protects)
        for fs in reversed(chain):
            fb = fs.body
            applies_ = [a for a in fb.calls() if a.bb != fs.bb and "INDEX_MUTATE" in sem_set(ctx.may.site_events(a))
                        and prog.local_target(a) is not None]
            if not applies_:
                continue
            behind = all(ctx.dominates_threaded(fb, fs.bb, a.bb) for a in applies_ if a.bb in cfgutil.reach(fb, 0))
            r.check(behind, "apply-behind-publish", fb,
                    "in %s the applying call lies behind the publish step (%s)" % (fb.path, site_where(fs)),
                    "in %s the index can be updated on a path that did not go through the publish at %s" % (
                        fb.path, site_where(fs)), site_where(fs))
            break
        r.check(consumed, "guard-consumed-by-apply", b0,
                "after the publish the guard is handed to the call that logs and applies",
                "after the publish the intent guard is not handed to the applying call (it may die before apply)")


def container_discipline(ctx, r, fcont, P):
    prog = ctx.prog
    hash_ty = ctx.anchors.get("HASH")
    if not fcont:
        r.bad("filter-container", None, "no container is read by the unlink filters")
        return
    # is there an exclusion that keeps two guards on one key apart between add and apply?
    L = ctx.locks
    excl = None
    for site in ctx.sem_sites("BLOB_PUBLISH"):
        h = L.must_held_at(site)
        cs = set(c for c, _ in (h or ()))
        excl = cs if excl is None else excl & cs
    excl = excl or set()
    for field, uses in sorted(fcont.items()):
        fty = ctx.world._field_ty(field)
        cty = ctx.world._strip_wrappers(fty)
        t = prog.types[cty]
        args = [a for a in t.get("args", []) if isinstance(a, int)]
        cdef = t.get("def")
        key_is_hash = bool(args) and prog.adt_of(args[0])[0] == hash_ty
        val = args[1] if len(args) > 1 and cdef in ("std::collections::HashMap", "std::collections::BTreeMap") else None
        val_is_count_or_list = False
        if val is not None:
            vt = prog.types[val]
            val_is_count_or_list = vt.get("k") == "prim" or (vt.get("k") == "adt" and vt["def"] in (
                "std::vec::Vec", "std::collections::HashSet", "std::collections::BTreeSet",
                "std::collections::HashMap", "std::collections::BTreeMap"))
        multiset = (cdef in ("std::vec::Vec", "std::collections::VecDeque")) or \
                   (key_is_hash and (val is None or val_is_count_or_list)) or \
                   (not key_is_hash and val is not None and val_is_count_or_list and prog.types[val].get("k") != "prim")
        r.note("filter container %s.%s : %s ; read by %d filter(s)" % (field[1].split("::")[-1], field[2],
                                                                        prog.ty_str(cty), len(uses)))
        adds = [cu for cu in ctx.world.container_uses if cu.field == field and
                "INTENT_ADD" in sem(("CONT", cu.field, cu.method, cu.mutable))]
        dels = [cu for cu in ctx.world.container_uses if cu.field == field and
                "INTENT_DEL" in sem(("CONT", cu.field, cu.method, cu.mutable))]
        r.check(bool(adds), "has-add:%s" % field[2], None, "%d add site(s)" % len(adds),
                "the container read by the filters (%s.%s) is never added to" % (field[1], field[2]))
        for cu in adds:
            ok = multiset or bool(excl)
            if cu.method in ("entry", "or_default", "or_insert", "get_mut", "push", "extend"):
                ok = ok or True if multiset else ok
            r.check(ok, "add:%s" % (cu.site.path or cu.method), cu.site.body,
                    "%s cannot destroy another guard's contribution (%s)" % (
                        cu.describe(), "multiset of hashes" if multiset else "exclusion by %s" % sorted(excl)),
                    "%s: the container maps a key to a single hash, so this insert overwrites the entry of "
                    "another in-flight commit on the same key, and nothing excludes two such commits between "
                    "registration and apply (locks held at publish: %s)" % (cu.describe(), sorted(excl) or "none"),
                    site_where(cu.site))
        for cu in dels:
            if cu.method == "get_mut":
                continue
            ok = multiset or bool(excl)
            # delete-by-key guarded by an equality test on the stored hash is "own contribution"
            if not ok and cu.method == "remove":
                ok = _guarded_by_own_hash_test(ctx, cu)
            r.check(ok, "del:%s" % (cu.site.path or cu.method), cu.site.body,
                    "%s removes at most the caller's own contribution" % cu.describe(),
                    "%s deletes by key whatever hash is stored there: it can remove the intent of another "
                    "in-flight commit on the same key" % cu.describe(), site_where(cu.site))


def _guarded_by_own_hash_test(ctx, cu):
    """Is the remove dominated by the true edge of `stored == own hash` (or the false edge of !=)?"""
    b = cu.site.body
    sl = Slicer(ctx.world, b)
    hash_ty = ctx.anchors.get("HASH")
    for bb in b.normal_blocks():
        c = cfgutil.cmp_true_edge(b, bb)
        if c is None:
            continue
        op, a, bop, t_true, t_false = c
        if op not in ("Eq", "Ne"):
            continue
        eq_edge = t_true if op == "Eq" else t_false
        if eq_edge is None or not cfgutil.edge_dominates(b, (bb, eq_edge), cu.site.bb):
            continue
        la = sl.leaves_of_operand(a)
        lb = sl.leaves_of_operand(bop)
        for (x, y) in ((la, lb), (lb, la)):
            from_cont = any(l[0] == "call" and any(u.site.bb == l[2] and u.field == cu.field
                                                   for u in ctx.world.container_uses if u.site.body.path == b.path)
                            for l in x)
            from_self = any(l[0] == "param" and l[2] for l in y)
            if from_cont and from_self:
                return True
    return False
