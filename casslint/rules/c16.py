"""C16 Codecs round-trip and decoders are total: totality and bounded allocation decided; shape of the round-trip."""
from .. import cfgutil, effects
from ..core import Site, term_path, FN_TRAIT_CALLS
from ..ctx import sem, sem_set
from ..prov import Slicer, fmt_leaf
from ..vfg import place_of
from .base import Rule, site_construct, site_where, stable_path

PROP = "C16"


# ------------------------------------------------------------------------------------------------
# entry points by signature
# ------------------------------------------------------------------------------------------------
def _is_u8_slice_ref(prog, ix):
    t = prog.types[ix]
    if t.get("k") != "ref":
        return False
    inner = prog.types[t["in"]]
    if inner.get("k") == "slice" and prog.ty_str(inner["in"]) == "u8":
        return True
    if inner.get("k") == "ref":       # &mut &[u8]
        return _is_u8_slice_ref(prog, t["in"])
    return False


def byte_decoders(ctx):
    """Non-closure bodies whose first parameter is &[u8] / &mut &[u8] and that return Result/Option."""
    prog = ctx.prog
    out = []
    for b in prog.bodies.values():
        if b.is_closure or b.argc < 1:
            continue
        if not _is_u8_slice_ref(prog, b.locals[1]):
            continue
        rt = prog.types[b.locals[0]]
        if rt.get("k") == "adt" and rt["def"] in ("std::result::Result", "std::option::Option"):
            # a function that turns bytes into index state (fills the key map / reference counts) is a loader built on
            # a decoder, not a codec function: its totality is not "decoding arbitrary bytes"
            names = sem_set(ctx.may.all_events(b.path))
            if names & {"INDEX_MUTATE", "REFCNT_MUTATE"}:
                continue
            out.append(b)
    return out


def top_level_decoders(ctx):
    """Byte decoders that are not merely helpers of other byte decoders (called from outside the family)."""
    decs = byte_decoders(ctx)
    fam = set(b.path for b in decs)
    out = []
    for b in decs:
        callers = [cs.body.path for (cs, how) in ctx.prog.callers_index().get(b.path, [])]
        if not callers or any(c not in fam for c in callers) or b.raw.get("impl_trait"):
            out.append(b)
    return out


def parsers(ctx):
    """Functions that parse a &str / &Path into the hash type."""
    prog = ctx.prog
    hash_ty = ctx.anchors.get("HASH")
    out = []
    for b in prog.bodies.values():
        if b.is_closure or b.argc != 1:
            continue
        t = prog.types[b.locals[1]]
        if t.get("k") != "ref":
            continue
        inner = prog.types[t["in"]]
        if not (inner.get("k") == "str" or inner.get("def") == "std::path::Path"):
            continue
        rt = prog.types[b.locals[0]]
        if rt.get("k") == "adt" and rt["def"] in ("std::result::Result", "std::option::Option"):
            # the value produced on success is (or contains) the hash type - an error type that merely mentions a
            # hash does not make a function a parser
            payload = [a for a in rt.get("args", []) if isinstance(a, int)][:1]
            if payload and any(prog.types[i].get("def") == hash_ty for i in
                               [payload[0]] + list(prog.find_in_type(payload[0], lambda x: x.get("k") == "adt"))):
                out.append(b)
    return out


def raw_converters(ctx):
    """from_raw-like: functions taking the raw op enum by value and returning Result<typed op>."""
    prog = ctx.prog
    out = []
    for b in prog.bodies.values():
        if b.is_closure or b.argc != 1:
            continue
        d, _ = prog.adt_of(b.locals[1])
        t = prog.types[b.locals[1]]
        if t.get("k") == "adt" and d in prog.adts and prog.adts[d]["kind"] == "Enum":
            rt = prog.types[b.locals[0]]
            if rt.get("k") == "adt" and rt["def"] == "std::result::Result":
                inner = [a for a in rt["args"] if isinstance(a, int)]
                if inner and prog.types[inner[0]].get("k") == "adt" and prog.types[inner[0]]["def"] in prog.adts \
                        and prog.adts[prog.types[inner[0]]["def"]]["kind"] == "Enum":
                    out.append(b)
    return out


# ------------------------------------------------------------------------------------------------
# panic sources (component G)
# ------------------------------------------------------------------------------------------------
def closure_of(ctx, roots):
    prog = ctx.prog
    seen = {}
    work = list(roots)
    while work:
        b = work.pop()
        if b.path in seen:
            continue
        seen[b.path] = b
        for site in b.calls():
            for tgt, how in prog.call_targets(site):
                work.append(tgt)
    return list(seen.values())


def panic_sources(ctx, roots, follow=True):
    """(site-like, what, discharged, why) for every Assert terminator and MAY_PANIC call in the bodies
    (and, with follow, everything they call)."""
    prog = ctx.prog
    bodies = closure_of(ctx, roots) if follow else list(roots)
    out = []
    for b in bodies:
        for bb in b.normal_blocks():
            t = b.blocks[bb]["term"]
            if t["k"] == "assert":
                site = Site(b, bb, t)
                ok, why = discharge_assert(ctx, b, bb, t)
                out.append((site, "assert:%s" % t["akind"], ok, why))
            elif t["k"] == "call":
                site = Site(b, bb, t)
                p = site.path or ""
                what = effects.MAY_PANIC.get(p)
                if what is None and p.startswith(effects.PANIC_PREFIXES):
                    what = "panic"
                if what is None:
                    continue
                if site.span.get("exp") and "tracing" in (site.span.get("outer") or ""):
                    continue
                ok, why = discharge_call(ctx, b, site, what)
                out.append((site, what, ok, why))
    return out


def _array_len(prog, ix):
    t = prog.types[prog.strip_refs(ix)]
    if t.get("k") == "array":
        return t.get("n", t.get("len"))
    return None


def discharge_call(ctx, b, site, what):
    prog = ctx.prog
    sl = Slicer(ctx.world, b)
    args = site.term["args"]
    if what == "copy_from_slice":
        # dst: array of length L ; src: result of a checked take of the same L
        dst = ctx.world.borrowed_local(b, args[0])
        L = _array_len(prog, b.locals[dst]) if dst is not None else None
        if L is None:
            # dst may be `&mut array` after unsizing: follow the cast
            pl = place_of(args[0])
            for (dbb, j, rv) in b.assignments().get(pl["l"], []) if pl else []:
                if j != "term" and rv["k"] == "cast":
                    L = _array_len(prog, rv["from"])
        src_leaves = sl.leaves_of_operand(args[1])
        for l in src_leaves:
            if l[0] != "call":
                continue
            t = b.blocks[l[2]]["term"]
            tgt = prog.local_target(Site(b, l[2], t))
            # a checked take: callee returns the head of a split at its k-th parameter, and that argument is L
            k = _take_len_param(ctx, tgt) if tgt is not None else None
            for a in ([t["args"][k - 1]] if k is not None and k - 1 < len(t["args"]) else []):
                c = a.get("const")
                if c is None:
                    continue
                v = c.get("v")
                tc = c.get("tyconst") or c.get("named")
                if (v is not None and v == L) or (tc is not None and L is not None and str(tc) in str(L)) \
                        or (tc is not None and str(L).find(str(tc).split("/")[0]) >= 0):
                    if tgt is not None and _is_checked_take(ctx, tgt):
                        return True, "destination [u8; %s] and source = checked take of %s bytes" % (L, v if v is not None else tc)
        return False, "cannot show that source and destination lengths are equal (dst len %s, src %s)" % (
            L, sorted(fmt_leaf(l) for l in src_leaves))
    if what in ("Option::unwrap", "Option::expect"):
        from .c14 import option_unwrap_discharged
        if option_unwrap_discharged(ctx, b, site):
            return True, "the Option is provably Some"
        return False, "Option not provably Some"
    if what in ("Result::unwrap", "Result::expect"):
        pl = place_of(args[0])
        tstr = prog.ty_str(ctx.world._place_ty(b, pl)) if pl else "?"
        from .c14 import UNWRAP_OK_BY_PRODUCER, error_type_is_io_free
        if pl and error_type_is_io_free(prog, ctx.world._place_ty(b, pl)):
            # a logic-error expect is still a panic source for a decoder: not discharged here
            return False, "unwrap/expect on %s (logic error type)" % tstr
        for l in sl.leaves_of_operand(args[0]):
            if l[0] == "call" and l[1] in UNWRAP_OK_BY_PRODUCER:
                return True, "reviewed: " + UNWRAP_OK_BY_PRODUCER[l[1]]
        return False, "unwrap/expect on %s" % tstr
    if what in ("split_at", "split_at_mut"):
        if _len_guard(ctx, b, site, args[0], args[1]):
            return True, "dominated by a comparison that establishes mid <= len"
        return False, "split point not shown to be within the slice"
    if what in ("Index::index", "IndexMut::index_mut"):
        # slicing a fixed-size array with compile-time constant bounds that lie inside it
        pl0 = place_of(args[0])
        n = _array_len(prog, ctx.world._place_ty(b, pl0)) if pl0 is not None else None
        if isinstance(n, int) and len(args) > 1:
            rng = _const_range(b, args[1])
            if rng is not None:
                lo, hi = rng
                lo = 0 if lo is None else lo
                hi = n if hi is None else hi
                if 0 <= lo <= hi <= n:
                    return True, "constant range %d..%d inside an array of length %d" % (lo, hi, n)
                return False, "constant range %d..%d is outside the array of length %d" % (lo, hi, n)
        return False, "indexing can panic"
    if what == "assert_failed" or what == "panic":
        return False, "explicit assertion/panic"
    return False, "may panic"


def _const_value(b, op, depth=0):
    """Compile-time value of an operand: a literal, or +,-,* of such values (through the overflow-check tuple)."""
    if "const" in op:
        v = op["const"].get("v")
        return v if isinstance(v, int) else None
    pl = place_of(op)
    if pl is None or depth > 6:
        return None
    proj = [e for e in pl["p"] if not (isinstance(e, dict) and e.get("f") == 0 and "adt" not in e)]
    if proj:
        return None
    defs = b.assignments().get(pl["l"], [])
    if len(defs) != 1 or defs[0][1] == "term":
        return None
    rv = defs[0][2]
    if rv["k"] in ("use", "cast"):
        return _const_value(b, rv["op"], depth + 1)
    if rv["k"] == "binop":
        x, y = _const_value(b, rv["a"], depth + 1), _const_value(b, rv["b"], depth + 1)
        if x is None or y is None:
            return None
        o = rv["op"]
        if o.startswith("Add"):
            return x + y
        if o.startswith("Sub"):
            return x - y
        if o.startswith("Mul"):
            return x * y
    return None


def _const_range(b, op):
    """(lo, hi) of a Range/RangeTo/RangeFrom/RangeFull aggregate with compile-time bounds (None = open end); a plain
    constant index i is (i, i + 1)."""
    v = _const_value(b, op)
    if v is not None:
        return (v, v + 1)
    pl = place_of(op)
    if pl is None or pl["p"]:
        return None
    defs = b.assignments().get(pl["l"], [])
    if len(defs) != 1 or defs[0][1] == "term" or defs[0][2]["k"] != "agg":
        return None
    rv = defs[0][2]
    d = (rv.get("def") or "").split("::")[-1]
    vals = [_const_value(b, o) for o in rv["ops"]]
    if any(x is None for x in vals):
        return None
    if d == "Range" and len(vals) == 2:
        return (vals[0], vals[1])
    if d == "RangeTo" and len(vals) == 1:
        return (None, vals[0])
    if d == "RangeFrom" and len(vals) == 1:
        return (vals[0], None)
    if d == "RangeFull":
        return (None, None)
    if d == "RangeToInclusive" and len(vals) == 1:
        return (None, vals[0] + 1)
    return None


SPLITS = ("split_at_checked", "split_at", "split_at_unchecked")


def _take_len_param(ctx, tgt):
    """If `tgt` hands back (on its Ok/Some path) the head of a split of a byte slice at one of its own parameters,
    the index of that parameter: the returned slice is then exactly that many bytes long.  (Whether the split itself
    can panic is a separate obligation of the split call.)"""
    from ..prov import TRANSPARENT
    sl = Slicer(ctx.world, tgt, follow_local=False, transparent=TRANSPARENT | {
        effects.norm("std::option::Option::<T>::ok_or"), effects.norm("std::option::Option::<T>::ok_or_else")})
    lv = sl.leaves_of_place({"l": 0, "p": []})
    res = set()
    for l in lv:
        if l[0] == "call" and (l[1] or "").split("::")[-1] in SPLITS and l[3] and l[3][0] == "#0":
            t = tgt.blocks[l[2]]["term"]
            mids = sl.leaves_of_operand(t["args"][1])
            if len(mids) == 1 and list(mids)[0][0] == "param" and not list(mids)[0][2]:
                res.add(list(mids)[0][1])
                continue
            return None
        if l[0] in ("agg", "const"):
            continue        # the error value
        if l[0] == "call" and ctx.prog.local_target(Site(tgt, l[2], tgt.blocks[l[2]]["term"])) is None \
                and (l[1] or "").split("::")[-1] in ("ok_or", "ok_or_else", "from_residual", "branch"):
            continue
        return None
    return list(res)[0] if len(res) == 1 else None


def _is_checked_take(ctx, tgt):
    return _take_len_param(ctx, tgt) is not None


def _len_guard(ctx, b, site, slice_op, mid_op):
    """Is the call at `site` dominated by the edge of a comparison on which `mid <= slice.len()` holds?"""
    sl = Slicer(ctx.world, b)
    want_mid = sl.leaves_of_operand(mid_op)
    want_slice = sl.leaves_of_operand(slice_op)

    def is_len_of_slice(op):
        for l in sl.leaves_of_operand(op):
            if not (l[0] == "call" and (l[1] or "").split("::")[-1] == "len"):
                return False
            t = b.blocks[l[2]]["term"]
            if sl.leaves_of_operand(t["args"][0]) != want_slice:
                return False
        return True
    for sw in b.normal_blocks():
        c = cfgutil.cmp_true_edge(b, sw)
        if c is None:
            continue
        op, x, y, t_true, t_false = c
        good = None
        if is_len_of_slice(x) and sl.leaves_of_operand(y) == want_mid:
            good = {"Lt": t_false, "Ge": t_true, "Gt": t_true, "Le": None, "Eq": t_true}.get(op)
        elif is_len_of_slice(y) and sl.leaves_of_operand(x) == want_mid:
            good = {"Le": t_true, "Lt": t_true, "Gt": t_false, "Ge": None, "Eq": t_true}.get(op)
        if good is not None and cfgutil.edge_dominates(b, (sw, good), site.bb):
            # the slice is not re-assigned between the test and the split
            return True
    return False


def discharge_assert(ctx, b, bb, t):
    kind = t["akind"]
    # arithmetic on two compile-time constants is folded (and rejected by rustc if it overflows)
    pl = place_of(t["cond"])
    if pl is not None:
        for (dbb, j, rv) in b.assignments().get(pl["l"], []):
            if j != "term" and rv["k"] == "binop" and "const" in rv["a"] and "const" in rv["b"]:
                return True, "both operands are compile-time constants"
    if kind.startswith(("DivisionByZero", "RemainderByZero")) and pl is not None:
        # `if n != 0 { x / n }`: a dominating test of the same value against zero
        div = None
        for (dbb, j, rv) in b.assignments().get(pl["l"], []):
            if j != "term" and rv["k"] == "binop" and rv["op"] == "Eq":
                div = rv["a"] if "const" in rv["b"] else (rv["b"] if "const" in rv["a"] else None)
        if div is not None:
            sl = Slicer(ctx.world, b)
            dl = sl.leaves_of_operand(div)
            if dl and all(l[0] == "const" and l[1] not in (0, None) for l in dl):
                return True, "the divisor is a non-zero constant"
            for sw in b.normal_blocks():
                c = cfgutil.cmp_true_edge(b, sw)
                if c is None:
                    continue
                op, x, y, t_true, t_false = c
                lx, ly = sl.leaves_of_operand(x), sl.leaves_of_operand(y)
                for (p_, q_, op_) in ((lx, ly, op), (ly, lx, {"Lt": "Gt", "Gt": "Lt", "Le": "Ge", "Ge": "Le"}.get(op, op))):
                    if p_ != dl or not (q_ and all(l[0] == "const" and l[1] == 0 for l in q_)):
                        continue
                    edge = {"Ne": t_true, "Gt": t_true, "Eq": t_false, "Le": t_false}.get(op_)
                    if edge is not None and cfgutil.edge_dominates(b, (sw, edge), bb):
                        return True, "behind a test of the divisor against zero"
    if kind.startswith("Overflow"):
        # counters that cannot overflow in practice are still listed: discharge only `x + const` on a loop
        # counter bounded by a collection length (enumerate/len) - conservative: not discharged
        return False, t["msg"][:60]
    return False, t["msg"][:60]


# ------------------------------------------------------------------------------------------------
# layout extraction (component J)
# ------------------------------------------------------------------------------------------------
def rpo(body):
    seen = set()
    order = []

    def dfs(x):
        stack = [(x, iter(body.succs(x)))]
        seen.add(x)
        while stack:
            n, it = stack[-1]
            adv = False
            for s in it:
                if s not in seen:
                    seen.add(s)
                    stack.append((s, iter(body.succs(s))))
                    adv = True
                    break
            if not adv:
                order.append(n)
                stack.pop()
    dfs(0)
    return list(reversed(order))


def loops_of(body):
    """header -> loop block set"""
    out = {}
    for b in body.reachable_blocks():
        for s in body.succs(b):
            if body.dominates(s, b):
                out.setdefault(s, set()).update(cfgutil.natural_loop(body, s))
    return out


def _ret_width(prog, tgt):
    """Width token of a primitive reader by its return type: Result<u64,_> -> 8 ..."""
    rt = prog.types[tgt.locals[0]]
    if rt.get("k") != "adt" or rt["def"] != "std::result::Result":
        return None
    a = [x for x in rt["args"] if isinstance(x, int)]
    if not a:
        return None
    s = prog.ty_str(a[0])
    prim = {"u8": "1", "u16": "2", "u32": "4", "u64": "8", "u128": "16", "i8": "1", "i16": "2", "i32": "4", "i64": "8"}
    if s in prim:
        return prim[s]
    t = prog.types[a[0]]
    if t.get("k") == "array":
        return str(t.get("n", "N"))
    return None


def decoder_tokens(ctx, body, fam, depth=0, subst=None):
    """Token list of a decoder body in reverse post-order with loop brackets. Tokens: "8" "4" "1" "32" "B"
    "[" "]" and ("ALT", value) markers."""
    prog = ctx.prog
    order = rpo(body)
    lps = loops_of(body)
    toks = []
    for bb in order:
        t = body.blocks[bb]["term"]
        if t["k"] != "call":
            continue
        site = Site(body, bb, t)
        tgt = prog.local_target(site)
        d = sum(1 for h, blks in lps.items() if bb in blks)
        if tgt is not None and tgt.path in fam:
            w = _ret_width(prog, tgt)
            if w is not None:
                if w == "N":
                    # generic array length: take it from the call's generic args / dest type
                    dt = prog.types[body.locals[t["dest"]["l"]]]
                    a = [x for x in dt.get("args", []) if isinstance(x, int)]
                    w = str(prog.types[a[0]].get("n", "N")) if a else "N"
                toks.append((d, w, bb))
            elif depth < 4:
                for (d2, w2, _) in decoder_tokens(ctx, tgt, fam, depth + 1):
                    toks.append((d + d2, w2, bb))
        elif tgt is None and (site.path or "").split("::")[-1] in ("split_at_checked", "split_at", "split_at_unchecked") \
                and len(t["args"]) == 2 and "const" not in t["args"][1] and _const_value(body, t["args"][1]) is None:
            # the variable-length part: a cut of the input at a length that is not a constant here (a fixed-width
            # reader is accounted for by its return type and never descended into)
            toks.append((d, "B", bb))
        elif tgt is None and depth < 4:
            # `(0..n).map(|_| read_x(..)).collect()`: the closure of an iterator adaptor is a loop body
            for cb, how in prog.call_targets(site):
                if how != "extern-cb":
                    continue
                extra = 1 if (site.path or "").startswith(("std::iter::", "core::iter::")) else 0
                for (d2, w2, _) in decoder_tokens(ctx, cb, fam, depth + 1):
                    toks.append((d + extra + d2, w2, bb))
    return toks


def encoder_tokens(ctx, body, depth=0):
    prog = ctx.prog
    order = rpo(body)
    lps = loops_of(body)
    sl = Slicer(ctx.world, body)
    toks = []
    for bb in order:
        t = body.blocks[bb]["term"]
        if t["k"] != "call":
            continue
        site = Site(body, bb, t)
        p = site.path or ""
        d = sum(1 for h, blks in lps.items() if bb in blks)
        if p in ("std::vec::Vec::extend_from_slice", "std::iter::Extend::extend", "std::vec::Vec::append") and \
                len(t["args"]) >= 2 and depth < 4:
            # `out.extend(encode_list(keys))`: the bytes of a crate-local encoder, appended whole - its tokens, in place
            sub = [l for l in sl.leaves_of_operand(t["args"][1]) if l[0] == "call"]
            st = [prog.local_target(Site(body, l[2], body.blocks[l[2]]["term"])) for l in sub
                  if not isinstance(l[2], tuple)]
            st = [x for x in st if x is not None and "std::vec::Vec<u8>" in prog.ty_str(x.locals[0])]
            if len(sub) == 1 and len(st) == 1:
                for (d2, w2, _) in encoder_tokens(ctx, st[0], depth + 1):
                    toks.append((d + d2, w2, bb))
                continue
        if p == "std::vec::Vec::extend_from_slice":
            src = t["args"][1]
            pl = place_of(src)
            # type of the source before unsizing
            w = None
            lv = sl.leaves_of_operand(src)
            for l in lv:
                if l[0] == "call" and l[1].endswith("to_le_bytes"):
                    w = {"u8": "1", "u16": "2", "u32": "4", "u64": "8", "u128": "16"}.get(
                        l[1].split("impl ")[-1].split(">")[0].strip(), None)
                    if w is None:
                        # width from the callee's impl type, e.g. core::num::to_le_bytes on u32
                        tt = body.blocks[l[2]]["term"]
                        a0 = place_of(tt["args"][0])
                        w = {"u8": "1", "u16": "2", "u32": "4", "u64": "8", "u128": "16"}.get(
                            prog.ty_str(body.locals[a0["l"]]) if a0 else "", "?")
                elif l[0] == "call" and (l[1].endswith("to_be_bytes") or l[1].endswith("to_ne_bytes")):
                    w = "!" + l[1].split("::")[-1]
            if w is None:
                # array reference of known length (hash bytes) or a slice of unknown length
                alen = None
                for (dbb, j, rv) in body.assignments().get(pl["l"], []) if pl and not pl["p"] else []:
                    if j != "term" and rv["k"] == "cast" and "Unsize" in rv["ck"]:
                        alen = _array_len(prog, rv["from"])
                w = str(alen) if alen is not None else "B"
            toks.append((d, w, bb))
        elif p == "std::vec::Vec::push":
            c = t["args"][1].get("const")
            toks.append((d, "1", bb))
        else:
            # a crate-local write helper that is handed the output buffer (`write_bytes_with_len(out, key)`): its
            # tokens, in place
            tgt = prog.local_target(site)
            if tgt is not None and depth < 4 and not tgt.is_closure and any(
                    prog.ty_str(tgt.locals[i]).replace(" ", "") in ("&mutstd::vec::Vec<u8>",)
                    for i in range(1, tgt.argc + 1)):
                for (d2, w2, _) in encoder_tokens(ctx, tgt, depth + 1):
                    toks.append((d + d2, w2, bb))
    return toks


def fmt_tokens(toks):
    out = []
    cur = 0
    for (d, w, _) in toks:
        while cur < d:
            out.append("[")
            cur += 1
        while cur > d:
            out.append("]")
            cur -= 1
        out.append(w)
    while cur > 0:
        out.append("]")
        cur -= 1
    return " ".join(out)


def rules(ctx, tier):
    out = []
    prog = ctx.prog
    decs = byte_decoders(ctx)
    fam = set(b.path for b in decs)
    tops = top_level_decoders(ctx)
    pars = parsers(ctx)
    convs = raw_converters(ctx)
    from .c10 import entry_readers
    readers = [prog.bodies[p] for p in entry_readers(ctx)]

    r = Rule("R1", "decoders are total: no reachable panic source in the byte decoders, the segment reader, the "
                   "path/hex parsers and the raw-op converter",
             "a crafted or damaged input makes open (or a codec call) panic instead of returning an error")
    entry = tops + pars + convs + readers
    r.check(len(tops) >= 6 and len(pars) >= 2 and len(convs) >= 1 and len(readers) >= 1, "entry-points", None,
            "entry points: %d byte decoders (%s ...), %d parsers, %d converter(s), %d reader(s)" % (
                len(tops), ", ".join(sorted(b.path.split("::")[-1] for b in tops)[:4]), len(pars), len(convs), len(readers)),
            "decoder entry points not found (decoders %d, parsers %d, converters %d, readers %d)" % (
                len(tops), len(pars), len(convs), len(readers)))
    pan = panic_sources(ctx, entry)
    for (site, what, ok, why) in pan:
        r.check(ok, "panic:%s" % what, site.body, "%s at %s discharged: %s" % (what, site_where(site), why),
                "%s at %s is reachable from a decoder and not discharged: %s" % (what, site_where(site), why),
                site_where(site))
    bodies = closure_of(ctx, entry)
    r.ok("closure", None, "%d bodies in the decoder closure scanned, %d panic source(s)" % (len(bodies), len(pan)))
    r.need(4, "entry points + the copy_from_slice sites")
    out.append(r.finish())

    r = Rule("R2", "bounded allocation: the byte decoders never pre-allocate from an untrusted length",
             "a 5-byte input announces 2^32 entries and the decoder asks the allocator for 96 GiB")
    dec_closure = closure_of(ctx, [b for b in tops if not b.raw.get("impl_trait")])
    n = 0
    for b in dec_closure:
        for site in b.calls():
            idx = effects.ALLOC_SIZED.get(site.path or "")
            if idx is None:
                continue
            n += 1
            a = site.term["args"][idx] if idx < len(site.term["args"]) else None
            const = a is not None and "const" in a and "v" in a["const"]
            r.check(const, "alloc:%s" % site.path, b,
                    "%s at %s has a constant size" % (site.path, site_where(site)),
                    "%s at %s allocates a size taken from the input" % (site.path, site_where(site)), site_where(site))
    r.ok("scan", None, "%d bodies in the closure of the byte decoders, %d sized allocation(s)" % (len(dec_closure), n))
    for b in readers:
        for site in b.calls():
            if (site.path or "") in effects.ALLOC_SIZED:
                r.note("framing allocation %s at %s (outside this clause by the property's wording)" % (site.path, site_where(site)))
    out.append(r.finish())

    r = Rule("R3", "layout agreement: each encoder writes the fields its decoder reads, in the same order and widths",
             "snapshot or log written by this build cannot be read back by it (or is read back as other values)")
    layout_pairs(ctx, r, fam)
    r.need(3, "snapshot pair + the two op arms")
    out.append(r.finish())

    r = Rule("R4", "tag agreement: the tag pushed for a variant is the tag that decodes to the same variant; unknown tags are errors",
             "a Put is decoded as a Remove")
    tag_agreement(ctx, r, fam)
    r.need(3, "two variants + the error arm")
    out.append(r.finish())

    r = Rule("R5", "KeyBytes impls: to / to_owned / from use one byte order and representation",
             "keys written to the log (to_key_bytes_owned) and to the snapshot (to_key_bytes) decode differently")
    key_bytes_pairing(ctx, r)
    r.need(13, "KeyBytes impls")
    out.append(r.finish())

    r = Rule("R6", "raw <-> typed op: variants and fields correspond",
             "hash and size swap places, or a Put becomes a Remove, when an op is converted for logging")
    raw_typed(ctx, r)
    r.need(4, "two directions x two variants")
    out.append(r.finish())
    r = Rule("R7", "decoders reject only malformed input: an error exit of a byte decoder is caused by running out of "
                   "input, an unknown tag or a failing callee - never by a bound on a decoded value that the encoder "
                   "does not enforce",
             "a value the encoder writes (a long key, a large count) is refused when it is read back: a committed "
             "operation cannot be replayed")
    value_rejections(ctx, r, [b for b in closure_of(ctx, [x for x in tops if not x.raw.get("impl_trait")])])
    r.need(3, "error exits of the byte decoders")
    out.append(r.finish())
    return out


def _input_len_leaf(ctx, b, sl, leaves):
    """All leaves are the length (or emptiness) of a byte slice, not a value decoded from it."""
    if not leaves:
        return False
    for l in leaves:
        if l[0] == "unknown" and l[1] in ("len", "ptr_metadata"):
            continue
        if l[0] == "call" and (l[1] or "").split("::")[-1] in ("len", "is_empty"):
            continue
        if l[0] == "const":
            continue
        return False
    return any(l[0] != "const" for l in leaves)


def value_rejections(ctx, r, bodies):
    prog = ctx.prog
    must = ctx.must(None)
    enc_consts = None
    n_exits = 0
    for b in bodies:
        rt = prog.types[b.locals[0]]
        if not (rt.get("k") == "adt" and rt["def"] == "std::result::Result"):
            continue
        rf = must.rf(b)
        err_blocks = set(x for x, k in rf.forwarded.items() if k == "err")
        ok_blocks = set(x for x, k in rf.forwarded.items() if k != "err")
        if not err_blocks:
            continue
        sl = Slicer(ctx.world, b)
        for sw in b.normal_blocks():
            t = b.blocks[sw]["term"]
            if t["k"] != "switch":
                continue
            edges = cfgutil.switch_edges(b, sw)
            tgts = set(edges.values())
            if len(tgts) < 2:
                continue
            # edges all of whose continuations end in an Err return, while another edge can still succeed
            def fate(x):
                reach = cfgutil.reach(b, x)
                return (bool(reach & err_blocks), bool(reach & ok_blocks))
            fates = {x: fate(x) for x in tgts}
            err_only = [x for x, (e, o) in fates.items() if e and not o]
            can_ok = [x for x, (e, o) in fates.items() if o]
            if not err_only or not can_ok:
                continue
            n_exits += 1
            c = cfgutil.switch_condition(b, sw)
            kind = c[0] if c else "?"
            why = None
            pl = place_of(t["discr"])
            dty = prog.types[b.locals[pl["l"]]] if pl is not None and not pl["p"] else {}
            if kind == "discr":
                why = "tests whether a step produced a value (end of input / failing callee)"
            elif kind == "call" and c[1] in ("std::ops::Try::branch",):
                why = "propagates a callee's error"
            elif kind == "call" and (c[1] or "").split("::")[-1] in ("is_empty", "is_some", "is_none", "is_ok", "is_err"):
                why = "tests emptiness / presence"
            elif kind in ("bool", "const", "other", "call") and dty.get("k") == "prim" and dty.get("s") not in ("bool",):
                # value dispatch on an integer read from the input: the catch-all arm is the unknown-tag error
                listed = [x for v, x in t["targets"]]
                if all(x not in err_only for x in listed):
                    why = "tag dispatch: only the catch-all arm is an error"
            elif kind == "cmp":
                la = sl.leaves_of_operand(c[2])
                lb = sl.leaves_of_operand(c[3])
                pla, plb = place_of(c[2]), place_of(c[3])
                u8cmp = c[1] in ("Eq", "Ne") and any(
                    pl_ is not None and prog.ty_str(ctx.world._place_ty(b, pl_)) == "u8" for pl_ in (pla, plb))
                if u8cmp and (all(l[0] == "const" for l in la) or all(l[0] == "const" for l in lb)):
                    why = "tag test: a byte read from the input is compared with a variant tag"
                elif _input_len_leaf(ctx, b, sl, la) or _input_len_leaf(ctx, b, sl, lb):
                    why = "compares against the amount of input left"
                else:
                    consts = set(l[1] for l in (la | lb) if l[0] == "const")
                    if enc_consts is None:
                        enc_consts = _encoder_bounds(ctx)
                    if consts and consts <= enc_consts:
                        why = "the same bound is enforced by an encoder"
            r.check(why is not None, "err-exit:%s" % (kind,), b,
                    "%s: error exit at %s:%d %s" % (b.path.split("::")[-1], b.file, b.blocks[sw]["span"]["line"], why),
                    "%s rejects its input at %s:%d on a condition (%s) that is neither end-of-input, an unknown tag "
                    "nor a failing callee, and no encoder enforces the same bound: something the encoder writes "
                    "cannot be read back" % (b.path, b.file, b.blocks[sw]["span"]["line"], kind),
                    "%s:%d" % (b.file, b.blocks[sw]["span"]["line"]))
    r.ok("scan", None, "%d bodies, %d error exits decided by a branch" % (len(bodies), n_exits))


def _encoder_bounds(ctx):
    """Constants an encoder compares a length/value against on the way to an Err return."""
    prog = ctx.prog
    must = ctx.must(None)
    out = set()
    for e in _encoders(ctx):
        for b in closure_of(ctx, [e]):
            rt = prog.types[b.locals[0]]
            if not (rt.get("k") == "adt" and rt["def"] == "std::result::Result"):
                continue
            rf = must.rf(b)
            if not any(k == "err" for k in rf.forwarded.values()):
                continue
            sl = Slicer(ctx.world, b)
            for sw in b.normal_blocks():
                c = cfgutil.switch_condition(b, sw)
                if c and c[0] == "cmp":
                    for l in sl.leaves_of_operand(c[2]) | sl.leaves_of_operand(c[3]):
                        if l[0] == "const":
                            out.add(l[1])
    return out


def _encoders(ctx):
    """Non-closure bodies returning Vec<u8> / Result<Vec<u8>> that append with extend_from_slice."""
    prog = ctx.prog
    out = []
    for b in prog.bodies.values():
        if b.is_closure or b.raw.get("impl_trait"):
            continue
        rs = prog.ty_str(b.locals[0])
        if not ("std::vec::Vec<u8>" in rs):
            continue
        if any((s.path or "") == "std::vec::Vec::extend_from_slice" for s in b.calls()) or encoder_tokens(ctx, b):
            # (appends itself, or hands its buffer to a private `write_x(&mut out, ..)` helper that does)
            out.append(b)
    return out


def enc_view(ctx, e):
    """The encoder as judged: itself, or - when it hands its buffer to private `write_x(&mut out, ..)` helpers that do the
    appending - its flat view with those helpers inlined (the tag pushes and the arms they open sit in the helper)."""
    prog = ctx.prog
    for s in e.calls():
        tgt = prog.local_target(s)
        if tgt is not None and not tgt.is_closure and any(
                prog.ty_str(tgt.locals[i]).replace(" ", "") == "&mutstd::vec::Vec<u8>" for i in range(1, tgt.argc + 1)):
            return ctx.flat(e)
    return e


def layout_pairs(ctx, r, fam):
    prog = ctx.prog
    encs = _encoders(ctx)
    decs = [b for b in top_level_decoders(ctx) if not b.raw.get("impl_trait") and _has_loop_or_reads(ctx, b, fam)]
    # pair by the data type: encoder param type <-> decoder Ok type
    pairs = []
    for e in encs:
        for d in decs:
            et = prog.ty_str(prog.strip_refs(e.locals[1]))
            dt = prog.ty_str(d.locals[0])
            e_base = et.split("<")[0]
            # the encoded value is a crate-local type (or a map of them); a function that merely assembles bytes
            # from scalars (record framing) is not a codec of the decoders looked at here
            e_local = prog.adt_of(e.locals[1])[0] in prog.adts
            if (e_local and e_base in dt) or (("BTreeMap" in et) and ("BTreeMap" in dt)):
                pairs.append((e, d))
    r.check(len(pairs) >= 2, "pairs", None, "codec pairs: %s" % ", ".join("%s/%s" % (e.path.split("::")[-1], d.path.split("::")[-1]) for e, d in pairs),
            "expected at least 2 encoder/decoder pairs, found %d" % len(pairs))
    for (e0, d) in pairs:
        e = enc_view(ctx, e0)
        et = encoder_tokens(ctx, e)
        dt = decoder_tokens(ctx, d, fam)
        # arms: split by tag
        e_arms = split_arms(ctx, e, et, encoder=True)
        d_arms = split_arms(ctx, d, dt, encoder=False)
        if len(e_arms) <= 1 and len(d_arms) <= 1:
            se, sd = fmt_tokens(et), fmt_tokens(dt)
            r.check(se == sd, "layout:%s" % e.path.split("::")[-1], e,
                    "%s writes [%s]; %s reads [%s]" % (e.path.split("::")[-1], se, d.path.split("::")[-1], sd),
                    "%s writes [%s] but %s reads [%s]" % (e.path, se, d.path, sd))
        else:
            for tag in sorted(set(e_arms) | set(d_arms), key=str):
                se = fmt_tokens(e_arms.get(tag, []))
                sd = fmt_tokens(d_arms.get(tag, []))
                r.check(se == sd and se != "", "layout:%s:tag%s" % (e.path.split("::")[-1], tag), e,
                        "tag %s: %s writes [%s]; %s reads [%s]" % (tag, e.path.split("::")[-1], se, d.path.split("::")[-1], sd),
                        "tag %s: %s writes [%s] but %s reads [%s]" % (tag, e.path, se, d.path, sd))


def _has_loop_or_reads(ctx, b, fam):
    return any(ctx.prog.local_target(s) is not None and ctx.prog.local_target(s).path in fam for s in b.calls())


def tag_tests(ctx, body):
    """The decoder's tests of the tag byte: ([(value, (switch block, target taken when tag == value))],
    [edges taken when a test fails]) - from a `match` (switchInt on the u8) or from `if tag == C` / `if tag != C`
    chains."""
    prog = ctx.prog
    sl = Slicer(ctx.world, body)
    eq = []
    other = []
    for sw in body.normal_blocks():
        t = body.blocks[sw]["term"]
        if t["k"] != "switch":
            continue
        if prog.ty_str(t["dty"]) == "u8" and len(t["targets"]) >= 1 and not cfgutil.eq_edges(body, sw):
            for v, tgt in t["targets"]:
                eq.append((v, (sw, tgt)))
            other.append((sw, t["otherwise"]))
            continue
        e = cfgutil.eq_edges(body, sw)
        if e is None:
            continue
        a, b_, t_eq, t_ne = e
        for (x, y) in ((a, b_), (b_, a)):
            pl = place_of(x)
            if pl is None or prog.ty_str(ctx.world._place_ty(body, pl)) != "u8":
                continue
            lx = sl.leaves_of_operand(x)
            ly = sl.leaves_of_operand(y)
            if lx and all(l[0] == "call" for l in lx) and ly and all(l[0] == "const" and isinstance(l[1], int) for l in ly) \
                    and len(ly) == 1:
                if t_eq is not None:
                    eq.append((list(ly)[0][1], (sw, t_eq)))
                if t_ne is not None:
                    other.append((sw, t_ne))
                break
    return eq, other


def split_arms(ctx, body, toks, encoder):
    """tag value -> tokens dominated by that arm. Encoder: arm = match arm that pushes const tag;
    decoder: edge of the switch on the tag byte."""
    prog = ctx.prog
    arms = {}
    if encoder:
        # blocks with push(const t)
        tag_blocks = {}
        for s in body.calls():
            if (s.path or "") == "std::vec::Vec::push":
                c = s.term["args"][1].get("const")
                if c is not None and "v" in c:
                    tag_blocks[s.bb] = c["v"]
        if len(tag_blocks) < 2:
            return {}
        for (d, w, bb) in toks:
            for tb, tag in tag_blocks.items():
                if bb != tb and body.dominates(tb, bb):
                    arms.setdefault(tag, []).append((d, w, bb))
        return arms
    # decoder: tests of the tag byte
    eq, _other = tag_tests(ctx, body)
    for v, edge in eq:
        for (d, w, bb) in toks:
            if cfgutil.edge_dominates(body, edge, bb):
                arms.setdefault(v, []).append((d, w, bb))
    return arms if len(arms) >= 2 else {}


def tag_agreement(ctx, r, fam):
    prog = ctx.prog
    encs = [enc_view(ctx, e0) for e0 in _encoders(ctx)]
    for e in encs:
        # variant matched -> tag pushed
        enc_map = {}
        for s in e.calls():
            if (s.path or "") != "std::vec::Vec::push":
                continue
            c = s.term["args"][1].get("const")
            if c is None or "v" not in c:
                continue
            # which variant edge dominates?
            for sw in e.normal_blocks():
                cnd = cfgutil.switch_condition(e, sw)
                if cnd and cnd[0] == "discr":
                    for v, tgt in cfgutil.switch_edges(e, sw).items():
                        if v != "otherwise" and cfgutil.edge_dominates(e, (sw, tgt), s.bb):
                            enc_map[v] = c["v"]
                        elif v == "otherwise" and cfgutil.edge_dominates(e, (sw, tgt), s.bb):
                            # the remaining variant
                            enc_map.setdefault("otherwise", c["v"])
        if len(enc_map) < 2:
            continue
        # resolve 'otherwise' to the missing variant index
        d, _ = prog.adt_of(prog.strip_refs(e.locals[1]))
        nvar = len(prog.adts[d]["variants"]) if d in prog.adts else 0
        if "otherwise" in enc_map:
            missing = [i for i in range(nvar) if i not in enc_map]
            if len(missing) == 1:
                enc_map[missing[0]] = enc_map.pop("otherwise")
        # decoder for the same enum
        for dcd in top_level_decoders(ctx):
            if prog.adt_of(dcd.locals[0])[1] and d in prog.ty_str(dcd.locals[0]):
                dec_map = {}
                eq, other = tag_tests(ctx, dcd)
                for v, edge in eq:
                    # variant built under this edge
                    for bb in dcd.normal_blocks():
                        for s in dcd.stmts(bb):
                            if s["k"] == "assign" and s["rv"]["k"] == "agg" and s["rv"].get("def") == d and \
                                    cfgutil.edge_dominates(dcd, edge, bb):
                                dec_map[v] = s["rv"]["variant"]
                            elif s["k"] == "assign" and s["rv"]["k"] == "agg" and s["rv"].get("ak") == "closure" and \
                                    cfgutil.edge_dominates(dcd, edge, bb):
                                # `.map(|keys| Op::Remove { keys })`: the variant is built by a closure written in this arm
                                cb = prog.bodies.get(s["rv"].get("def"))
                                if cb is not None:
                                    vs = set(s2["rv"]["variant"] for bb2 in cb.normal_blocks() for s2 in cb.stmts(bb2)
                                             if s2["k"] == "assign" and s2["rv"]["k"] == "agg" and s2["rv"].get("def") == d)
                                    if len(vs) == 1:
                                        dec_map.setdefault(v, list(vs)[0])
                # a tag that passes none of the tests ends in an error: follow only the 'different' edges
                rf = ctx.must(None).rf(dcd)
                err_default = False
                if other:
                    eq_edges_set = set(ed for _, ed in eq)
                    last = [ed for ed in other if not any(cfgutil.edge_dominates(dcd, ed, o[0]) for o in other if o != ed)]
                    oth = set()
                    for ed in last:
                        oth |= cfgutil.reach(dcd, ed[1], removed_edges=list(eq_edges_set))
                    err_default = bool(oth) and any(rf.forwarded.get(x) == "err" for x in oth) and not any(
                        rf.forwarded.get(x) == "ok" for x in oth)
                for var, tag in sorted(enc_map.items(), key=str):
                    vn = prog.adts[d]["variants"][var]["name"] if isinstance(var, int) else var
                    r.check(dec_map.get(tag) == var, "tag:%s" % vn, e,
                            "variant %s <-> tag %s in both directions" % (vn, tag),
                            "variant %s is written with tag %s, but tag %s decodes to variant %s" % (
                                vn, tag, tag, dec_map.get(tag)))
                r.check(err_default, "unknown-tag-is-error", dcd, "any other tag is an error in %s" % dcd.path,
                        "an unknown tag does not lead to an error in %s" % dcd.path)


def _keybytes_marks_of(prog, b):
    ms = set()
    for s_ in b.calls():
        last = (s_.path or "").split("::")[-1]
        if last in ("to_le_bytes", "from_le_bytes"):
            ms.add("le")
        elif last in ("to_be_bytes", "from_be_bytes"):
            ms.add("be")
        elif last in ("to_ne_bytes", "from_ne_bytes"):
            ms.add("ne")
    return ms


def key_bytes_pairing(ctx, r):
    prog = ctx.prog
    impls = {}
    for b in prog.bodies.values():
        if b.raw.get("impl_trait", "").endswith("KeyBytes") and not b.is_closure:
            impls.setdefault(b.raw.get("impl_self"), {})[b.path.split("::")[-1]] = b
    for self_ty, meths in sorted(impls.items()):
        marks = {}
        for name, b in meths.items():
            ms = set()
            names = [s.path or "" for s in b.calls()]
            # functions passed as values (`.map(u32::from_le_bytes)`)
            for bb in b.normal_blocks():
                t = b.blocks[bb]["term"]
                ops = list(t.get("args", [])) if t["k"] == "call" else []
                for st in b.stmts(bb):
                    if st["k"] == "assign":
                        rv = st["rv"]
                        ops += [rv[k] for k in ("op", "a", "b") if isinstance(rv.get(k), dict)] + list(rv.get("ops", []))
                for o in ops:
                    c = o.get("const") if isinstance(o, dict) else None
                    if c and "fn" in c:
                        names.append(effects.norm(c["fn"]))
            for p in names:
                last = p.split("::")[-1]
                if last in ("to_le_bytes", "from_le_bytes"):
                    ms.add("le")
                elif last in ("to_be_bytes", "from_be_bytes"):
                    ms.add("be")
                elif last in ("to_ne_bytes", "from_ne_bytes"):
                    ms.add("ne")
                elif last in ("from_utf8", "as_bytes", "from_utf8_lossy", "into_bytes", "from_utf8_unchecked"):
                    ms.add("utf8" if last != "from_utf8_lossy" else "utf8-lossy")
                elif last in ("reverse", "rev", "swap_bytes", "rotate_left", "rotate_right"):
                    ms.add("permute:" + last)
            marks[name] = ms
        # a method that delegates to a sibling (or to the same trait's impl for another type: the integer impls decode
        # through `<[u8; N]>::from_key_bytes`) has the sibling's representation
        delegates = {}
        for name, b in meths.items():
            for s_ in b.calls():
                tg = prog.local_target(s_)
                if tg is not None and tg.raw.get("impl_trait", "").endswith("KeyBytes") and tg.path != b.path:
                    delegates.setdefault(name, []).append(tg)
        for _ in range(3):
            for name, tgs in delegates.items():
                for tg in tgs:
                    other = impls.get(tg.raw.get("impl_self"), {})
                    nm2 = tg.path.split("::")[-1]
                    src = marks.get(nm2) if tg.raw.get("impl_self") == self_ty else None
                    if src is None:
                        src = _keybytes_marks_of(prog, tg)
                    marks[name] = marks[name] | src
        allm = set().union(*marks.values()) if marks else set()
        order = allm & {"le", "be", "ne"}
        bad = len(order) > 1 or any(m.startswith("permute") or m == "utf8-lossy" for m in allm)
        has_from = "from_key_bytes" in meths and "to_key_bytes" in meths
        r.check(has_from and not bad, "keybytes:%s" % self_ty, meths.get("to_key_bytes"),
                "%s: %s" % (self_ty, ", ".join("%s{%s}" % (k, ",".join(sorted(v)) or "raw") for k, v in sorted(marks.items()))),
                "%s: the three methods disagree on representation: %s" % (
                    self_ty, ", ".join("%s{%s}" % (k, ",".join(sorted(v)) or "raw") for k, v in sorted(marks.items()))))
        # to_key_bytes_owned, when overridden, must not differ from to_key_bytes in byte order
        if "to_key_bytes_owned" in meths and "to_key_bytes" in meths:
            a = marks["to_key_bytes_owned"] & {"le", "be", "ne"}
            c = marks["to_key_bytes"] & {"le", "be", "ne"}
            r.check(a == c, "keybytes-owned:%s" % self_ty, meths["to_key_bytes_owned"],
                    "%s: owned and borrowed encoders agree" % self_ty,
                    "%s: to_key_bytes_owned uses %s but to_key_bytes uses %s" % (self_ty, sorted(a), sorted(c)))


def raw_typed(ctx, r):
    prog = ctx.prog
    convs = raw_converters(ctx)
    # to_raw: &typed enum -> raw enum
    to_raws = []
    for b in prog.bodies.values():
        if b.is_closure or b.argc != 1:
            continue
        d1, _ = prog.adt_of(b.locals[1])
        t0 = prog.types[b.locals[0]]
        if d1 in prog.adts and prog.adts[d1]["kind"] == "Enum" and t0.get("k") == "adt" and t0["def"] in prog.adts \
                and prog.adts[t0["def"]]["kind"] == "Enum" and prog.types[b.locals[1]].get("k") == "ref" \
                and t0["def"] != d1 and not b.raw.get("impl_trait"):
            to_raws.append(b)
    for b in convs + to_raws:
        sl = Slicer(ctx.world, b)
        src_def, _ = prog.adt_of(b.locals[1])
        # result enum
        rt = prog.types[b.locals[0]]
        if rt["def"] == "std::result::Result":
            dst_def = prog.types[[a for a in rt["args"] if isinstance(a, int)][0]]["def"]
        else:
            dst_def = rt["def"]
        for sw in b.normal_blocks():
            c = cfgutil.switch_condition(b, sw)
            if not c or c[0] != "discr":
                continue
            lv = sl.leaves_of_place(c[1])
            if not any(l[0] == "param" and l[1] == 1 for l in lv):
                continue
            edges = cfgutil.switch_edges(b, sw)
            nvar = len(prog.adts[src_def]["variants"])
            for v in range(nvar):
                tgt = edges.get(v)
                if tgt is None:
                    if len([k for k in edges if k != "otherwise"]) == nvar - 1:
                        tgt = edges["otherwise"]
                    else:
                        continue
                built = []
                for bb in b.normal_blocks():
                    for s in b.stmts(bb):
                        if s["k"] == "assign" and s["rv"]["k"] == "agg" and s["rv"].get("def") == dst_def and \
                                cfgutil.edge_dominates(b, (sw, tgt), bb):
                            built.append(s["rv"])
                vn = prog.adts[src_def]["variants"][v]["name"]
                ok = bool(built) and all(x["vn"] == vn for x in built)
                r.check(ok, "variant:%s:%s" % (b.path.split("::")[-1], vn), b,
                        "%s maps %s to %s" % (b.path, vn, vn),
                        "%s maps %s to %s" % (b.path, vn, sorted(set(x["vn"] for x in built)) or "nothing"))
                # field correspondence for same-named scalar fields (hash, size)
                for x in built:
                    for fname, op in zip(x["fields"], x["ops"]):
                        lv2 = sl.leaves_of_operand(op)
                        srcs = set(l[-1][-1] for l in lv2 if l[-1])
                        srcs |= set(l[2][-1] for l in lv2 if l[0] == "param" and l[2])
                        if fname in ("hash", "size"):
                            r.check(srcs == {fname}, "field:%s:%s.%s" % (b.path.split("::")[-1], vn, fname), b,
                                    "%s.%s comes from the source's %s" % (vn, fname, fname),
                                    "%s.%s of the converted op comes from %s" % (vn, fname, sorted(srcs) or sorted(fmt_leaf(l) for l in lv2)))
            break
