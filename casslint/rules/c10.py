"""C10 A damaged log is never silently accepted: verify-before-accept; errors stop the open."""
from .. import cfgutil, effects
from ..core import Site, term_path, FN_TRAIT_CALLS
from ..ctx import sem, sem_set
from ..prov import Slicer, fmt_leaf
from ..vfg import place_of
from .base import Rule, site_construct, site_where, stable_path
from . import c14, c16

PROP = "C10"


def entry_readers(ctx):
    """The record reader(s): for every body that reads a WAL handle (FS_READ on class WAL), the outermost inherent
    method of the same type that (alone) calls it - `read_header` / `read_payload` helpers belong to the reader that
    calls them.  Returns {reader path: [read sites]} (sites of the original program)."""
    prog = ctx.prog
    out = {}
    for e in ctx.fx.of_kind("FS_READ"):
        if "WAL" not in e.classes:
            continue
        cur = e.site.body
        for _ in range(4):
            callers = prog.callers_index().get(cur.path, [])
            if len(callers) != 1 or callers[0][1] != "direct":
                break
            cb = callers[0][0].body
            if cb.raw.get("impl_trait") or cb.is_closure or cur.argc < 1 or cb.argc < 1 or \
                    prog.adt_of(cb.locals[1])[0] != prog.adt_of(cur.locals[1])[0]:
                break
            cur = cb
        out.setdefault(cur.path, []).append(e.site)
    return out


def record_aggs(ctx, b, op, depth=4):
    """The record(s) an Ok exit carries: aggregates of crate types (looked for through wrapping enum variants such as
    `Step::Entry(rec)` / `Some(rec)`) that hold a byte buffer.  `Step::End(reason)` carries none.
    Returns [(adt path, bb, rvalue)]."""
    prog = ctx.prog
    out = []
    pl = place_of(op)
    if pl is None or depth < 0:
        return out
    l = pl["l"]
    for _ in range(6):
        defs = b.assignments().get(l, [])
        aggs = [(dbb, rv) for (dbb, j, rv) in defs if j != "term" and rv["k"] == "agg"]
        if aggs:
            for (dbb, rv) in aggs:
                if rv.get("def") in prog.adts and any(
                        place_of(o) is not None and prog.adt_of(b.locals[place_of(o)["l"]])[0] == "std::vec::Vec"
                        and not place_of(o)["p"] for o in rv["ops"]):
                    out.append((rv["def"], dbb, rv))
                else:
                    for o in rv["ops"]:
                        out.extend(record_aggs(ctx, b, o, depth - 1))
            return out
        uses = [rv for (dbb, j, rv) in defs if j != "term" and rv["k"] == "use" and place_of(rv["op"]) is not None
                and not place_of(rv["op"])["p"]]
        if len(defs) == 1 and uses:
            l = place_of(uses[0]["op"])["l"]
            continue
        return out
    return out


def reader_view(ctx, path):
    """Flat view of a record reader (its private helpers inlined)."""
    return ctx.flat(ctx.prog.bodies[path])


def hash_fns(ctx):
    """Local or extern functions that compute the content hash of a byte slice."""
    out = {"blake3::hash"}
    for b in ctx.prog.bodies.values():
        if b.is_closure or b.argc != 1:
            continue
        if any(s.path == "blake3::hash" for s in b.calls()) and ctx.prog.adt_of(b.locals[0])[0] == ctx.anchors.get("HASH"):
            out.add(b.path)
    return out


def rules(ctx, tier):
    out = []
    prog = ctx.prog
    must = ctx.must(None)
    readers = entry_readers(ctx)
    hfns = hash_fns(ctx)

    r = Rule("R1", "a record is accepted only after its checksum was recomputed over the very bytes that are handed on, "
                   "and found equal to the stored one",
             "a record whose payload was altered on disk is decoded and applied")
    r2 = Rule("R2", "a short payload is an error (only a short header may end the log)",
              "a record cut in the middle of its payload is treated as the clean end of the log: the operations "
              "after the cut are silently lost while the open succeeds")
    for p, sites0 in sorted(readers.items()):
        kb = prog.bodies[p]
        b = reader_view(ctx, p)
        sites = [fs for s0 in sites0 for fs in ctx.flat_sites_of(b, s0)]
        sl = Slicer(ctx.world, b)
        rf = ctx.rf(b)
        # Ok(Some(entry)) returns
        accepts = []
        for bb in b.normal_blocks():
            for s in b.stmts(bb):
                if s["k"] == "assign" and s["lhs"]["l"] == 0 and not s["lhs"]["p"] and s["rv"]["k"] == "agg" \
                        and s["rv"].get("vn") == "Ok" and s["rv"]["ops"]:
                    aggs = record_aggs(ctx, b, s["rv"]["ops"][0])
                    if aggs:
                        accepts.append((bb, s, aggs))
        r.check(len(accepts) >= 1, "accept-sites", b, "%d accepting return(s) in %s" % (len(accepts), p),
                "no Ok(Some(entry)) return found in the reader %s" % p)
        for (bb, s, aggs) in accepts:
            for a in aggs:
                # payload buffer moved into the entry
                t_agg = a[2]
                if t_agg is None:
                    r.bad("entry-agg", b, "cannot find the entry aggregate")
                    continue
                bufs = set()
                for op in t_agg["ops"]:
                    pl = place_of(op)
                    if pl is not None and prog.adt_of(b.locals[pl["l"]])[0] == "std::vec::Vec":
                        bufs.add(_origin_local(b, pl["l"]))
                # a comparison switch whose equal edge dominates the accept and whose operands are hash(buffer) and header data
                gate = None
                for sw in b.normal_blocks():
                    c = cfgutil.cmp_true_edge(b, sw)
                    if c is None or c[0] not in ("Eq", "Ne"):
                        continue
                    op_, x, y, t_true, t_false = c
                    eq_edge = t_true if op_ == "Eq" else t_false
                    if eq_edge is None or not cfgutil.edge_dominates(b, (sw, eq_edge), bb):
                        continue
                    lx = sl.leaves_of_operand(x)
                    ly = sl.leaves_of_operand(y)
                    for (h, e) in ((lx, ly), (ly, lx)):
                        hcalls = [l for l in h if l[0] == "call" and l[1] in hfns]
                        if not hcalls:
                            continue
                        hashed = set()
                        for l in hcalls:
                            t = b.blocks[l[2]]["term"]
                            v = ctx.world.borrowed_local(b, t["args"][0])
                            if v is not None:
                                hashed.add(_origin_local(b, v))
                        from_header = any(l[0] == "call" or l[0] == "unknown" or l[0] == "const" for l in e) and \
                            not any(l[0] == "call" and l[1] in hfns for l in e)
                        if hashed & bufs and from_header:
                            gate = (sw, eq_edge)
                r.check(gate is not None, "checksum-gate", b,
                        "the entry returned at %s:%d is behind `hash(payload buffer) == stored hash`" % (b.file, s.get("line", 0)),
                        "the entry returned at %s:%d is not dominated by the equal edge of a checksum comparison over the "
                        "buffer it carries" % (b.file, s.get("line", 0)), "%s:%d" % (b.file, s.get("line", 0)))
                # R2: the read that fills that buffer
                for rs in sites:
                    if len(rs.term["args"]) < 2:
                        continue
                    tgt_buf = ctx.world.borrowed_local(b, rs.term["args"][1])
                    if tgt_buf is None or _origin_local(b, tgt_buf) not in bufs:
                        continue
                    errs = rf.err_edges_of(rs.bb)
                    r2.check(bool(errs), "payload-read-tested", b,
                             "the payload read at %s is tested" % site_where(rs),
                             "the result of the payload read at %s is not branched on" % site_where(rs), site_where(rs))
                    for (sb, tb) in errs:
                        blocks = cfgutil.reach(b, tb)
                        oks = [x for x in blocks if rf.forwarded.get(x) == "ok" or isinstance(rf.forwarded.get(x), tuple)]
                        r2.check(not oks, "short-payload-is-error", b,
                                 "a failed/short payload read at %s can only end in an Err return" % site_where(rs),
                                 "after a failed/short payload read at %s the reader can still return Ok (%s)" % (
                                     site_where(rs), ", ".join("%s:%d" % (b.file, b.blocks[x]["span"]["line"]) for x in oks)),
                                 site_where(rs))
    r.need(2, "accepting return + checksum gate")
    r2.need(2, "payload read: tested, error-only")
    out.append(r.finish())
    out.append(r2.finish())

    r = Rule("R3", "errors stop the open: the iterator adaptor keeps errors as errors, and nobody on the way up drops them",
             "a corrupted record ends the iteration as if it were the end of the log")
    for p in readers:
        for (csite, how) in prog.callers_index().get(p, []):
            b = csite.body
            if not (b.raw.get("impl_trait") == "std::iter::Iterator"):
                continue
            rf = must.rf(b)
            sl = Slicer(ctx.world, b)
            # `self.read_next().transpose()`: Ok(None) -> None, Ok(Some(v)) -> Some(Ok(v)), Err(e) -> Some(Err(e))
            ret = sl.leaves_of_place({"l": 0, "p": []})
            if ret and all(l[0] == "call" and (l[1] or "").endswith("Result::transpose") for l in ret):
                inner = set()
                for l in ret:
                    inner |= sl.leaves_of_operand(b.blocks[l[2]]["term"]["args"][0])
                if inner and all(x[0] == "call" and x[2] == csite.bb for x in inner):
                    r.ok("adaptor-tests", b, "%s hands the reader's result on with Result::transpose (errors stay errors)" % b.path)
                    r.ok("adaptor-keeps-error", b, "on a reader error %s yields Some(Err(e)) (transpose)" % b.path)
                    continue
            errs = rf.err_edges_of(csite.bb)
            r.check(bool(errs), "adaptor-tests", b, "%s branches on the reader's result" % b.path,
                    "%s does not branch on the reader's result" % b.path)
            for (sb, tb) in errs:
                blocks = cfgutil.reach(b, tb)
                good = False
                none = False
                if not any(s["k"] == "assign" and s["lhs"]["l"] == 0 for x in blocks for s in b.stmts(x)):
                    continue        # a later re-test of the same result (drop elaboration): the value is already built
                for x in blocks:
                    for s in b.stmts(x):
                        if s["k"] == "assign" and s["lhs"]["l"] == 0 and s["rv"]["k"] == "agg":
                            if s["rv"].get("vn") == "Some":
                                lv = sl.leaves_of_operand(s["rv"]["ops"][0])
                                inner = [d for d in b.assignments().get(place_of(s["rv"]["ops"][0])["l"], [])
                                         if d[1] != "term" and d[2]["k"] == "agg"] if place_of(s["rv"]["ops"][0]) else []
                                if any(d[2].get("vn") == "Err" for d in inner):
                                    good = True
                            elif s["rv"].get("vn") == "None" and cfgutil.edge_dominates(b, (sb, tb), x):
                                none = True
                r.check(good and not none, "adaptor-keeps-error", b,
                        "on a reader error %s yields Some(Err(e))" % b.path,
                        "on a reader error %s yields %s" % (b.path, "None (end of iteration)" if none else "something other than Some(Err)"))
    # no discard on the way up: C14-R1's judgement restricted to the open path
    reach = prog.reachable_bodies(ctx.open_roots())
    n = 0
    for p in sorted(reach):
        b = prog.bodies[p]
        for site in b.calls():
            if site.term["dest"]["p"] or not c14.is_result_ty(prog, b.locals[site.term["dest"]["l"]]):
                continue
            tgt = prog.local_target(site)
            if tgt is None:
                continue
            tr = prog.reachable_bodies([tgt])
            if not any(q in tr for q in readers):
                continue
            n += 1
            disc = c14.is_discarded(prog, b, site.term["dest"]["l"])
            r.check(not disc, "propagates:%s" % tgt.path.split("::")[-1], b,
                    "%s inspects the result of %s" % (b.path, tgt.path), "%s drops the result of %s (which reads the log)" % (b.path, tgt.path),
                    site_where(site))
    # the for-loop over the reader: the Result inside each item must be propagated (`entry?`)
    adaptors = set()
    for p in readers:
        for (cs, how) in prog.callers_index().get(p, []):
            if cs.body.raw.get("impl_trait") == "std::iter::Iterator":
                adaptors.add(cs.body.path)
    item_views = []
    for b0 in prog.bodies.values():
        if any(prog.local_target(s) is not None and prog.local_target(s).path in adaptors for s in b0.calls()):
            item_views.append(b0)
        elif not b0.is_closure and any(how == "extern-iter" and tg.path in adaptors
                                       for s in b0.calls() for tg, how in prog.call_targets(s)):
            # `reader.try_fold(.., |acc, entry| ..)`: judged in the flat view, where the adaptor is the loop it means
            item_views.append(ctx.flat(b0))
    for b in item_views:
        nexts = [s for s in b.calls() if prog.local_target(s) is not None and prog.local_target(s).path in adaptors]
        if not nexts:
            continue
        from ..prov import TRANSPARENT
        sl = Slicer(ctx.world, b, transparent=TRANSPARENT - {"std::iter::Iterator::next"})
        rf = ctx.rf(b)
        for nx in nexts:
            found = False
            for sw in b.normal_blocks():
                c = cfgutil.switch_condition(b, sw)
                if not c or c[0] != "discr":
                    continue
                ty = prog.types[ctx.world._place_ty(b, c[1])]
                src = sl.leaves_of_place(c[1])
                via_branch = False
                if ty.get("def") == "std::ops::ControlFlow":
                    via_branch = True
                elif ty.get("def") != "std::result::Result":
                    continue
                if not any(l[0] == "call" and l[2] == nx.bb for l in src):
                    continue
                e = cfgutil.switch_edges(b, sw)
                err_t = e.get(1, e["otherwise"] if 0 in e else None)
                if err_t is None:
                    continue
                found = True
                blocks = cfgutil.reach(b, err_t)
                back = nx.bb in cfgutil.reach(b, err_t, removed_blocks=[x for x in blocks if rf.forwarded.get(x) == "err"])
                ends_err = any(rf.forwarded.get(x) == "err" for x in blocks)
                r.check(ends_err and not back, "item-error-propagates", b,
                        "an Err item of the segment iterator makes %s return Err (%s:%d)" % (
                            b.path, b.file, b.blocks[sw]["span"]["line"]),
                        "%s can swallow an Err item of the segment iterator and carry on (%s:%d)" % (
                            b.path, b.file, b.blocks[sw]["span"]["line"]), "%s:%d" % (b.file, b.blocks[sw]["span"]["line"]))
            r.check(found, "item-result-tested", b, "%s tests the Result inside each item" % b.path,
                    "%s never tests the Result inside the items of the segment iterator" % b.path)
    r.need(7, "adaptor + propagating callers + item propagation")
    out.append(r.finish())

    r = Rule("R4", "no partial application: the record is fully decoded (and its keys converted) before the apply "
                   "callback is invoked",
             "half of a multi-key remove is applied before a decode error is noticed")
    for b in prog.bodies.values():
        cbsites = [s for s in b.calls() if s.path in FN_TRAIT_CALLS and s.callee.get("rk") != "virtual"
                   and any(how == "param" for _, how in prog.call_targets(s))
                   and "INDEX_MUTATE" in sem_set(ctx.may.site_events(s))]
        if not cbsites:
            continue
        sl = Slicer(ctx.world, b)
        rf = must.rf(b)
        for c in cbsites:
            ops = ctx.world.vfg._tuple_ops(b, place_of(c.term["args"][1])["l"]) if len(c.term["args"]) > 1 else None
            lv = set()
            for op in (ops or []):
                lv |= sl.leaves_of_operand(op)
            decs = [l for l in lv if l[0] == "call"]
            r.check(bool(decs), "callback-arg", b, "the callback at %s gets %s" % (site_where(c), ", ".join(fmt_leaf(l) for l in decs)),
                    "cannot see where the callback argument at %s comes from" % site_where(c))
            chain = list(decs)
            seen = set()
            while chain:
                l = chain.pop()
                if l[2] in seen:
                    continue
                seen.add(l[2])
                t = b.blocks[l[2]]["term"]
                s2 = Site(b, l[2], t)
                if prog.local_target(s2) is None:
                    continue
                if c14.is_result_ty(prog, b.locals[t["dest"]["l"]]):
                    oks = rf.ok_edges_of(l[2])
                    r.check(bool(oks) and cfgutil.edges_dominate(b, oks, c.bb), "decoded-before-apply:%s" % l[1].split("::")[-1], b,
                            "%s succeeded before the callback at %s" % (l[1], site_where(c)),
                            "the callback at %s can run although %s failed" % (site_where(c), l[1]), site_where(c))
                for a in t["args"]:
                    for l2 in sl.leaves_of_operand(a):
                        if l2[0] == "call":
                            chain.append(l2)
    r.need(3, "callback argument, key conversion, decode")
    out.append(r.finish())

    r = Rule("R5", "no panic on the replay path before the checksum cut; decoders behind it are panic-free",
             "a damaged record makes open panic instead of returning an error")
    # panic sources in the reader / iterator / replay bodies
    pan = c16.panic_sources(ctx, [prog.bodies[p] for p in readers] +
                            [cs.body for p in readers for (cs, how) in prog.callers_index().get(p, [])])
    for (site, what, discharged, why) in pan:
        r.check(discharged, "panic:%s" % what, site.body,
                "%s at %s: %s" % (what, site_where(site), why),
                "%s at %s can panic on a damaged segment (%s)" % (what, site_where(site), why), site_where(site))
    r.ok("scan", None, "reader and iterator bodies scanned for panic sources (%d found)" % len(pan))
    out.append(r.finish())

    out.append(end_of_log_rule(ctx, "R6"))

    # a rejected log stays rejected: the open that reports the damage leaves the damaged segment where it is
    from . import c03
    from .base import share_rule
    x = share_rule(ctx, tier, c03, "R5", "R7",
                   "the open path does not move, truncate or remove a log segment except by pruning behind a published "
                   "snapshot (shared with C03-R5)",
                   "the open that rejects a damaged segment renames it aside; the next open no longer sees it, succeeds, "
                   "and silently serves a state that lacks even the undamaged records of that segment")
    if x is not None:
        out.append(x)
    out.append(open_path_total(ctx, "R8"))
    return out


def open_path_total(ctx, rid):
    """"Never panics": the code that runs only while opening (discovery, replay, loaders - not the replay callback,
    which is the live apply step) has no reachable panic source other than a counter overflow: no division or remainder
    by a value not shown non-zero, no unchecked index, no unwrap/expect (reviewed producers excepted).  The byte
    decoders and the segment reader themselves are C16-R1's."""
    from . import c02
    prog = ctx.prog
    r = Rule(rid, "the open path cannot panic on what it finds on disk: no division, index or unwrap on a value derived "
                  "from the log or its size outside the decoders (those are C16-R1's)",
             "a log cut inside the first header of a segment yields a non-empty segment with zero records; the per-segment "
             "statistics line divides by the record count and `open` panics instead of returning the prefix state")
    openr = prog.reachable_bodies(ctx.open_roots())
    live = prog.reachable_bodies(ctx.live_roots())
    cbreach = prog.reachable_bodies(c02.replay_callbacks(ctx))
    bodies = [prog.bodies[p] for p in sorted(openr) if p not in live and p not in cbreach]
    n = 0
    for (site, what, ok, why) in c16.panic_sources(ctx, bodies, follow=False):
        if what.startswith("assert:Overflow"):
            continue        # (a 64-bit counter advanced once per record)
        n += 1
        r.check(ok, "panic:%s" % what, site.body, "%s at %s discharged: %s" % (what, site_where(site), why),
                "%s at %s can panic while the database is being opened: %s" % (what, site_where(site), why),
                site_where(site))
    r.ok("scan", None, "%d bodies run only while opening; %d panic source(s) looked at" % (len(bodies), n))
    r.need(2, "open-only bodies scanned")
    return r.finish()


def end_of_log_rule(ctx, rid):
    """The record reader may declare "no more records" only where the writer can have stopped: at end of file on a
    header boundary, or at a header field that is zero (sentinel / never written).  Any other value test that ends
    the log swallows records the writer is allowed to produce - unless the writer refuses the same values."""
    prog = ctx.prog
    must = ctx.must(None)
    r = Rule(rid, "the reader ends the log only where the writer can have ended it: end of file at a header boundary or a "
                  "zero header field; no other test on a decoded value makes it report 'no more records'",
             "a record the writer may legitimately produce (a large one, say) is taken for the end of the log: it and "
             "everything after it in the segment silently disappear at the next open")
    readers = entry_readers(ctx)
    wbounds = None
    for p in sorted(readers):
        b = reader_view(ctx, p)
        sl = Slicer(ctx.world, b)
        rf = ctx.rf(b)
        # Ok exits that carry no record: `_0 = Ok(<no aggregate of a crate type>)`
        ends = []
        for bb in b.normal_blocks():
            for st in b.stmts(bb):
                # (any local: an inlined helper builds its own `Ok(None)` before the reader hands it on)
                if st["k"] == "assign" and not st["lhs"]["p"] and st["rv"]["k"] == "agg" \
                        and st["rv"].get("def") == "std::result::Result" and st["rv"].get("vn") == "Ok" and st["rv"]["ops"]:
                    lv = sl.leaves_of_operand(st["rv"]["ops"][0])
                    if st["lhs"]["l"] != 0 and not (lv and all(l[0] == "agg" and str(l[1]).endswith("Option::None") for l in lv)):
                        continue
                    if not record_aggs(ctx, b, st["rv"]["ops"][0]) and not any(
                            l[0] == "agg" and l[1] in prog.adts and prog.adts[l[1]]["kind"] == "Struct" for l in lv):
                        ends.append((bb, st.get("line") or b.blocks[bb]["span"]["line"]))
        r.check(bool(ends), "end-exits", b, "%d 'no more records' exit(s) in %s" % (len(ends), p),
                "cannot find the 'no more records' exits of %s" % p)
        for (x, xline) in ends:
            # walk back to the deciding branches (branches of logging macros are transparent)
            reasons = []
            seen = set()
            work = [x]
            while work:
                y = work.pop()
                for pr in b.preds(y):
                    if (pr, y) in seen:
                        continue
                    seen.add((pr, y))
                    t = b.blocks[pr]["term"]
                    sp = b.blocks[pr]["span"]
                    if t["k"] == "switch" and not (sp.get("exp") and "tracing" in (sp.get("outer") or "")):
                        reasons.append((pr, y))
                    else:
                        work.append(pr)
            where = "%s:%d" % (b.file, xline)
            if not reasons:
                r.bad("end-unconditional", b, "the 'no more records' exit at %s is not decided by any test" % where, where)
            for (sw, tgt) in reasons:
                c = cfgutil.switch_condition(b, sw)
                kind = c[0] if c else "?"
                why = None
                if kind == "cmp":
                    la, lb = sl.leaves_of_operand(c[2]), sl.leaves_of_operand(c[3])
                    consts = [l[1] for l in (la | lb) if l[0] == "const"]
                    io_kind = any(l[0] == "call" and (l[1] or "").endswith("io::Error::kind") for l in la | lb)
                    if io_kind and c[1] in ("Eq", "Ne"):
                        why = "end of file while reading the header"
                    elif c[1] in ("Eq", "Ne") and consts and all(v == 0 for v in consts):
                        why = "a header field is zero"
                    else:
                        if wbounds is None:
                            wbounds = _writer_bounds(ctx)
                        if consts and set(consts) <= wbounds:
                            why = "the writer refuses the same values"
                elif kind in ("bool", "const", "other", "call", "discr"):
                    t = b.blocks[sw]["term"]
                    pl = place_of(t["discr"])
                    dty = prog.types[b.locals[pl["l"]]] if pl is not None and not pl["p"] else {}
                    if kind == "discr":
                        dl = sl.leaves_of_place(c[1])
                        if dl and any(l[0] == "agg" and str(l[1]).endswith("Option::None") for l in dl):
                            why = "hands on the verdict of an inlined helper (whose own exits are judged above/below)"
                        else:
                            why = "the header read reported an error that is then identified as end of file"
                    elif dty.get("k") == "prim" and dty.get("s") != "bool":
                        # switchInt(value) [0: ...]: a comparison with the listed constants
                        vals = [v for v, tg in t["targets"] if tg == tgt]
                        if vals and all(v == 0 for v in vals):
                            why = "a header field is zero"
                    elif kind == "call" and (c[1] or "").split("::")[-1] in ("is_empty",):
                        why = "nothing left to read"
                r.check(why is not None, "end-of-log:%s" % kind, b,
                        "'no more records' at %s: %s" % (where, why),
                        "%s reports 'no more records' at %s because of a test (%s at %s:%d) that is neither end-of-file "
                        "nor a zero header field, and the writer accepts such records: a valid record ends the log" % (
                            p, where, kind, b.file, b.blocks[sw]["span"]["line"]), where)
    r.need(3, "end-of-log exits of the record reader")
    return r.finish()


def _writer_bounds(ctx):
    """Constants the record writer compares against on the way to an Err return."""
    prog = ctx.prog
    must = ctx.must(None)
    out = set()
    for b in prog.bodies.values():
        evs = sem_set(e for e in ctx.may.all_events(b.path) if ctx._concrete(e))
        if "WAL_WRITE" not in evs:
            continue
        rf = must.rf(b)
        if not any(k == "err" for k in rf.forwarded.values()):
            continue
        sl = Slicer(ctx.world, b)
        for sw in b.normal_blocks():
            c = cfgutil.switch_condition(b, sw)
            if c and c[0] == "cmp" and c[1] not in ("Eq", "Ne"):
                for l in sl.leaves_of_operand(c[2]) | sl.leaves_of_operand(c[3]):
                    if l[0] == "const":
                        out.add(l[1])
    return out


def _origin_local(b, l):
    """Follow `_a = move _b` backwards to the first local of the chain."""
    for _ in range(8):
        defs = b.assignments().get(l, [])
        if len(defs) == 1 and defs[0][1] != "term" and defs[0][2]["k"] == "use":
            pl = place_of(defs[0][2]["op"])
            if pl is not None and not pl["p"]:
                l = pl["l"]
                continue
        break
    return l
