"""C12 Reference counts, sizes and statistics are exact: confinement + balance."""
from .. import cfgutil, effects, balance
from ..core import Site, term_path
from ..ctx import sem, sem_set, ANCHOR_FIELDS
from ..prov import Slicer, fmt_leaf
from ..vfg import place_of
from . import c01, c02, c07, c18
from .base import Rule, site_construct, site_where, stable_path
from .c13 import txn_type, txn_methods

PROP = "C12"


def _in_mods(m, allowed):
    """In one of the modules, or in a private submodule of one (`state::refcount` belongs to `state`)."""
    return any(m == a or (m or "").startswith(a + "::") for a in allowed if a)


def rules(ctx, tier):
    out = []
    prog = ctx.prog
    A = ctx.anchors
    must = ctx.must(None)
    state_mod = None
    for b in prog.bodies.values():
        if b.path in ctx.apply_roots():
            state_mod = b.module
    loaders = c02.snapshot_loader(ctx)
    loader_mods = set(b.module for b in loaders)
    allowed_mods = set([state_mod]) | loader_mods

    r = Rule("R1", "confinement: reference counts and the blob statistics are changed only by the state module (and "
                   "rebuilt by the snapshot loader)",
             "some other code path bumps a counter without the matching key-map change")
    r.check(state_mod is not None, "state-module", None, "state module: %s; loader module(s): %s" % (state_mod, sorted(loader_mods)),
            "cannot find the module of the apply body")
    # counters written in the apply body
    counter_fields = set()
    fam = ctx.apply_family()
    for w in ctx.world.field_writes:
        if w.body.path in fam:
            counter_fields.add(w.field)
    for cu in ctx.world.container_uses:
        if ANCHOR_FIELDS.get(cu.field) == "REFCNT" and cu.mutable:
            r.check(_in_mods(cu.site.body.module, allowed_mods), "refcount-mutator:%s" % cu.site.body.path.split("::")[-1], cu.site.body,
                    "%s (module %s)" % (cu.describe(), cu.site.body.module),
                    "%s: the refcount map is mutated outside %s" % (cu.describe(), sorted(allowed_mods)), site_where(cu.site))
    for w in ctx.world.field_writes:
        if w.field in counter_fields:
            r.check(w.body.module == state_mod, "counter-writer:%s.%s" % (w.field[1].split("::")[-1], w.field[2]), w.body,
                    "%s (module %s)" % (w.describe(), w.body.module),
                    "%s: a blob statistic is written outside the state module %s" % (w.describe(), state_mod),
                    "%s:%d" % (w.body.file, w.line))
    # callers of the primitives
    for b in prog.bodies.values():
        if b.is_closure:
            continue
        direct = [cu for cu in ctx.world.container_uses if cu.site.body.path == b.path and
                  ANCHOR_FIELDS.get(cu.field) == "REFCNT" and cu.mutable and cu.method not in ("clear",)]
        if not direct or b.path in ctx.apply_roots() or b in loaders:
            continue
        for (cs, how) in prog.callers_index().get(b.path, []):
            r.check(_in_mods(cs.body.module, allowed_mods), "primitive-caller:%s" % b.path.split("::")[-1], cs.body,
                    "%s is called from %s" % (b.path.split("::")[-1], cs.body.path),
                    "%s is called from %s, outside %s" % (b.path, cs.body.path, sorted(allowed_mods)), site_where(cs))
    r.need(8, "refcount mutators, counter writes, primitive callers")
    out.append(r.finish())

    r = Rule("R2", "statistics balance on every path of the apply step: distinct-blob counter = first references - "
                   "counts that reached zero; byte counter moves by the size that belongs to the same hash",
             "unique_blobs / total_bytes drift away from the truth (e.g. the new size is subtracted when the old blob dies)")
    c07.run_balance(ctx, r, tier, what=("stat-unique", "stat-bytes", "stat-unit"))
    r.need(6, "paths with statistic updates")
    out.append(r.finish())

    r = Rule("R3", "derived state is rebuilt on load (refcounts per key, statistics recomputed before replay)",
             "counts and statistics differ before and after a reopen")
    c02.load_rebuilds(ctx, r, loaders, c02.replay_callbacks(ctx))
    recompute_shape(ctx, r)
    r.need(4, "refcount per insert, recompute call, order, recompute shape")
    out.append(r.finish())

    r = Rule("R4", "size provenance: the stored size is the transaction's byte counter, which counts the bytes that are "
                   "hashed and written",
             "get_size differs from the length of the content")
    c01.txn_flow(ctx, r)
    txns = txn_type(ctx)
    if len(txns) == 1:
        borrow, consume, ctor = txn_methods(ctx, txns[0])
        wkeys = set(e.site.key() for e in ctx.fx.effects if e.kind == "FS_WRITE")
        for b in borrow:
            if any(s.key() in wkeys for s in ctx.flat(b).sites(("call",))):
                c18.one_datum(ctx, r, must, b, txns[0])
    r.need(5, "flow of size/hash/key + one datum")
    out.append(r.finish())

    r = Rule("R5", "no second copy: the read view reports the confined fields themselves",
             "known_blobs / stats are served from a cache that can be stale")
    c01.view_methods(ctx, r)
    stats_provenance(ctx, r)
    r.need(7, "read-view accessors + the statistics accessors of the API")
    out.append(r.finish())
    from .base import share_rule
    x = share_rule(ctx, tier, c18, "R2", "R6",
                   "the recorded size is the length of the file at path(hash): the file is put there by an atomic replace "
                   "with this transaction's staging file, and the size registered is this transaction's byte counter "
                   "(shared with C18-R2)",
                   "the blob is published with link(2): a torn file left at that path by an earlier crash stays, and the key "
                   "is recorded with the new length over the old bytes")
    if x is not None:
        out.append(x)
    return out


def recompute_shape(ctx, r):
    """The recomputation sets the counters from a pass over the key map (number of distinct hashes, sum of their sizes) -
    by assigning the counter fields, or by building the counter struct as a whole."""
    prog = ctx.prog
    A = ctx.anchors
    counter_structs, stat_fields, stat_structs = ctx.stat_model()
    fam = ctx.apply_family()
    int_fields = {}
    for cs in counter_structs:
        int_fields[cs] = [f["name"] for f in prog.adts[cs]["variants"][0]["fields"]
                          if prog.ty_str(f["ty"]) in ("u64", "usize", "u32", "i64")]
    cands = []      # (body, counter struct, {field: leaves}, slicer)
    for b in prog.bodies.values():
        if b.path in fam or b.raw.get("impl_trait") in ("std::default::Default", "std::clone::Clone"):
            continue
        sl = None
        by_struct = {}
        for w in ctx.world.field_writes:
            if w.body.path == b.path and w.field[1] in counter_structs and w.rv["k"] in ("use", "cast") and \
                    w.field[2] in int_fields[w.field[1]] and not c02.is_incremental_update(ctx, w):
                sl = sl or Slicer(ctx.world, b)
                by_struct.setdefault(w.field[1], {})[w.field[2]] = sl.leaves_of_operand(w.rv["op"])
        for bb in b.normal_blocks():
            for st in b.stmts(bb):
                if st["k"] == "assign" and st["rv"]["k"] == "agg" and st["rv"].get("def") in counter_structs:
                    sl = sl or Slicer(ctx.world, b)
                    rv = st["rv"]
                    vals = dict((fn, sl.leaves_of_operand(op)) for fn, op in zip(rv.get("fields") or [], rv["ops"])
                                if fn in int_fields[rv["def"]])
                    if vals and not all(all(l[0] == "const" for l in lv) for lv in vals.values()):
                        by_struct.setdefault(rv["def"], {}).update(vals)
        for cs, srcs in by_struct.items():
            cands.append((b, cs, srcs, sl))
    for (b, cs, srcs, sl) in cands:
        p = b.path
        readers = [p] + [c.body.path for (c, how) in prog.callers_index().get(p, []) if how == "direct"]
        reads_keymap = any(ANCHOR_FIELDS.get(cu.field) == "KEYMAP" and not cu.mutable and cu.site.body.path in readers
                           for cu in ctx.world.container_uses)
        is_len = lambda lv: any(l[0] == "call" and (l[1].endswith("::len") or l[1].endswith("::count")) for l in lv)
        # a sum: `iter.sum()`, or a local running total (starts at a constant, grows by `+=` in the loop)
        is_sum = lambda lv: any(l[0] == "call" and l[1].endswith("::sum") for l in lv) or (
            any(l[0] == "binop" and l[1].startswith("Add") for l in lv) and any(l[0] == "const" for l in lv))
        uniq = [k for k in srcs if is_len(srcs[k])]
        byts = [k for k in srcs if is_sum(srcs[k]) and k not in uniq]
        ok = reads_keymap and len(uniq) >= 1 and len(byts) >= 1 and set(int_fields[cs]) <= set(srcs)
        if ok:
            # distinct blobs are told apart by their hash: the container whose size is the distinct count is keyed by
            # the hash type, or a list sorted and de-duplicated by the same hash component
            why = _distinct_by_hash(ctx, b, sl, srcs[uniq[0]])
            r.check(why is not None, "recompute-distinct", b,
                    "%s counts distinct blobs by hash (%s)" % (p, why),
                    "%s does not establish distinctness by hash: the value whose length is the distinct-blob count is "
                    "neither a map/set keyed by the hash type nor a list sorted and de-duplicated on the same hash "
                    "component - a blob can be counted twice (or two blobs once)" % p)
        r.check(ok, "recompute-shape", b,
                "%s derives the counters from one pass over the key map (distinct count, sum of sizes)" % p,
                "%s does not derive both counters from the key map (%s)" % (
                    p, {k: sorted(fmt_leaf(l) for l in v) for k, v in srcs.items()}))
    if not cands:
        r.bad("recompute-shape", None, "no function sets the blob statistics from scratch (only increments exist)")


def _distinct_by_hash(ctx, b, sl, leaves):
    prog = ctx.prog
    hash_ty = ctx.anchors.get("HASH")
    from ..core import Site
    for l in leaves:
        if not (l[0] == "call" and (l[1].endswith("::len") or l[1].endswith("::count"))):
            continue
        t = b.blocks[l[2]]["term"]
        pl = place_of(t["args"][0])
        if pl is None:
            continue
        cont = ctx.world.borrowed_local(b, t["args"][0])
        cty = prog.types[prog.strip_refs(b.locals[cont])] if cont is not None else prog.types[
            prog.strip_refs(ctx.world._place_ty(b, pl))]
        d = cty.get("def")
        args = [a for a in cty.get("args", []) if isinstance(a, int)]
        if d in ("std::collections::HashMap", "std::collections::HashSet", "std::collections::BTreeMap",
                 "std::collections::BTreeSet") and args and prog.adt_of(args[0])[0] == hash_ty:
            return "size of a %s keyed by the hash" % d.split("::")[-1]
        if d == "std::vec::Vec" and cont is not None:
            # sort_*_by_key(k1) ... dedup_by_key(k2) on this very vector, k1 and k2 projecting the same hash component
            comps = {}
            for s in b.calls():
                nm = (s.path or "").split("::")[-1]
                if nm not in ("sort_by_key", "sort_unstable_by_key", "sort_by_cached_key", "dedup_by_key"):
                    continue
                if ctx.world.borrowed_local(b, s.term["args"][0]) != cont:
                    continue
                for tgt, how in prog.call_targets(s):
                    if how != "extern-cb":
                        continue
                    csl = Slicer(ctx.world, tgt)
                    rl = csl.leaves_of_place({"l": 0, "p": []})
                    if len(rl) == 1 and list(rl)[0][0] == "param":
                        comp = tuple(x for x in list(rl)[0][2] if x.startswith("#"))
                        is_hash = prog.adt_of(tgt.locals[0])[0] == hash_ty
                        comps.setdefault("dedup" if nm == "dedup_by_key" else "sort", set()).add((comp, is_hash))
            if comps.get("sort") and comps.get("dedup") and comps["sort"] == comps["dedup"] and \
                    all(h for (_, h) in comps["sort"]):
                return "list sorted and de-duplicated on the same hash component"
    return None


def stats_provenance(ctx, r):
    """Every API function that returns the statistics struct returns the `stats` field of the guarded state itself, read
    through an acquisition of the state lock (or through a guard / state reference it was handed) - not a copy kept
    elsewhere."""
    from ..prov import expand_down
    prog = ctx.prog
    A = ctx.anchors
    state = A.get("STATE")
    if state not in prog.adts:
        r.bad("stats-accessors", None, "state struct not found")
        return
    n = 0
    # the statistics struct: the type of the state field that (transitively) holds the counters the apply step updates
    fam = ctx.apply_family()
    counter_structs = set(w.field[1] for w in ctx.world.field_writes if w.body.path in fam
                          and prog.ty_str(ctx.world._field_ty(w.field)) in ("u64", "usize", "u32", "i64"))
    counter_structs.discard(state)
    stat_fields = {}
    for f in prog.adts[state]["variants"][0]["fields"]:
        d = prog.adt_of(f["ty"])[0]
        if d in prog.adts and (d in counter_structs or prog.find_in_type(
                f["ty"], lambda t: t.get("k") == "adt" and t.get("def") in counter_structs)):
            stat_fields[f["name"]] = d
    for b in ctx.api_roots():
        if b.is_closure or b.raw.get("impl_trait"):
            continue
        rt = prog.adt_of(b.locals[0])[0]
        sf = [nm for nm, d in stat_fields.items() if d == rt and rt is not None]
        if not sf or prog.types[prog.strip_refs(b.locals[0])].get("k") != "adt" or b.argc < 1:
            continue
        if prog.types[b.locals[0]].get("k") == "ref":
            continue
        sl = Slicer(ctx.world, b)
        lv = expand_down(ctx.world, b, sl.leaves_of_place({"l": 0, "p": []}))
        bad = []
        for l in lv:
            path = l[-1] if l[0] == "call" else l[2]
            ends_in_stats = bool(path) and path[-1] in sf
            if l[0] == "call":
                lb = prog.bodies[l[2][0]] if isinstance(l[2], tuple) else b
                bb = l[2][1] if isinstance(l[2], tuple) else l[2]
                t = lb.blocks[bb]["term"]
                nm = (l[1] or "").split("::")[-1]
                recv = prog.ty_str(ctx.world._place_ty(lb, place_of(t["args"][0]))) if t["args"] and place_of(t["args"][0]) else ""
                locks_state = nm in ("read", "write", "try_read", "upgradable_read", "read_recursive") and "RwLock" in (l[1] or "") \
                    and state.split("::")[-1] in recv
                if not (ends_in_stats and locks_state):
                    bad.append(l)
            elif l[0] in ("param", "xparam"):
                from .c06 import leaf_root_adt
                rootty = leaf_root_adt(prog, b, l)
                holds_state = rootty == state or (rootty in prog.adts and any(
                    state.split("::")[-1] in prog.ty_str(f["ty"]) for v in prog.adts[rootty]["variants"] for f in v["fields"]))
                if not (ends_in_stats and holds_state):
                    bad.append(l)
            else:
                bad.append(l)
        n += 1
        r.check(bool(lv) and not bad, "stats-source:%s" % stable_path(b), b,
                "%s returns the guarded state's own %s (%s)" % (b.path, "/".join(sf), ", ".join(sorted(fmt_leaf(l) for l in lv))),
                "%s returns statistics with origins %s: not (only) the `%s` field of the state read under the state lock - a "
                "copy kept elsewhere goes stale while operations complete" % (
                    b.path, sorted(fmt_leaf(l) for l in bad), "/".join(sf)))
    r.check(n >= 1, "stats-accessors", None, "%d statistics accessor(s) judged" % n, "no API function returns the statistics struct")
