"""Helpers for ordering rules ("X before Y", "no X after Y")."""
from ..ctx import sem, sem_set
from .base import site_construct, site_where


def live_roots(ctx):
    """API roots, without the open path (whose mutations replay data that *comes from* the log)."""
    return ctx.api_roots()


def require_before(ctx, rule, must, ENTRY, target, required, only_bodies=None, tag=""):
    """At every site carrying semantic event `target` that is reachable from the roots of ENTRY, every
    name in `required` is in the must-happened set."""
    n = 0
    for site in ctx.sem_sites(target):
        if only_bodies is not None and site.body.path not in only_bodies:
            continue
        sets = ctx.must_before(must, ENTRY, site, target)
        if sets is None:
            continue
        per = [sem_set(S) for S in sets]
        names = set.intersection(*per)
        n += 1
        for req in required:
            rule.check(req in names, "%s@%s%s" % (req, target, tag), site.body,
                       "%s before %s at %s" % (req, target, site_where(site)),
                       "%s is not guaranteed to have happened (successfully) before %s at %s [%s]" % (
                           req, target, site_where(site), site_construct(site)),
                       site_where(site),
                       witness={"site": repr(site), "must_set": sorted(names)})
    return n


def require_not_before(ctx, rule, ENTRY_may, target, forbidden, tag=""):
    """At every site carrying `target`: none of `forbidden` may have happened earlier in the call."""
    n = 0
    for site in ctx.sem_sites(target):
        sets = ctx.may_before(ENTRY_may, site, target)
        if sets is None:
            continue
        names = set()
        for S in sets:
            names |= sem_set(S)
        n += 1
        for f in forbidden:
            rule.check(f not in names, "no-%s-before-%s%s" % (f, target, tag), site.body,
                       "no %s can precede %s at %s" % (f, target, site_where(site)),
                       "%s may happen before %s at %s" % (f, target, site_where(site)),
                       site_where(site), witness={"site": repr(site)})
    return n
