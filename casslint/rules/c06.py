"""C06 CAS files are immutable and never partially visible: effect ownership over cas/."""
from ..ctx import sem, sem_set
from ..events import is_cas_class
from ..prov import Slicer, fmt_leaf
from . import order
from .base import Rule, site_construct, site_where

PROP = "C06"

WRITE_KINDS = {"FS_WRITE", "FS_WRITEFILE", "FS_TRUNCATE", "FS_COPY", "FS_LINK", "FS_WRITE_AT", "FS_CHMOD",
               "FS_SEEK", "TEMP_ESCAPE", "FS_RMDIR", "FS_RMDIR_ALL", "BUF_DISCARD"}
ALLOWED_ON_CAS = {"FS_MKDIR", "FS_STAT", "FS_OPEN", "FS_READFILE", "FS_READ", "FS_CLOSE", "FS_UNLINK",
                  "FS_RENAME"}


def cas_effects(ctx):
    out = []
    for e in ctx.fx.effects:
        if any(is_cas_class(c) for c in e.classes) or any(is_cas_class(c) for c in e.classes2):
            out.append(e)
    return out


def rules(ctx, tier):
    out = []
    ces = cas_effects(ctx)

    r = Rule("R1", "nobody writes under cas/: every effect on a CAS path is read-only, mkdir, unlink or the publish rename",
             "a blob is created empty / written / truncated in place: a reader sees bytes that do not hash "
             "to the path, or a half-written blob survives a crash under its final name")
    for e in ces:
        on1 = any(is_cas_class(c) for c in e.classes)
        if e.kind == "FS_OPEN" and on1:
            mode = e.mode or set()
            r.check(mode == {"read"}, "open-mode:%s" % site_construct(e.site), e.site.body,
                    "open of a CAS path at %s is read-only" % site_where(e.site),
                    "a path under cas/ is opened with mode {%s} at %s (only {read} is allowed)" % (
                        ",".join(sorted(mode)), site_where(e.site)), site_where(e.site))
        elif e.kind in WRITE_KINDS and on1:
            r.bad("%s:%s" % (e.kind, site_construct(e.site)), e.site.body,
                  "%s on a CAS path (%s) at %s" % (e.kind, ",".join(sorted(e.classes)), site_where(e.site)),
                  site_where(e.site))
        elif e.kind == "FS_RENAME" and any(is_cas_class(c) for c in e.classes2):
            r.check(e.classes <= {"STAGING_FILE"} and len(e.classes) == 1,
                    "publish-src:%s" % site_construct(e.site), e.site.body,
                    "the only rename into cas/ (at %s) takes a staging file" % site_where(e.site),
                    "rename into cas/ at %s takes its source from {%s}, not from staging" % (
                        site_where(e.site), ",".join(sorted(e.classes)) or "?"), site_where(e.site))
        elif e.kind == "FS_RENAME" and on1:
            r.check(not any(is_cas_class(c) for c in e.classes2) and len(e.classes2) > 0,
                    "rename-out:%s" % site_construct(e.site), e.site.body,
                    "rename out of cas/ at %s goes to a caller supplied directory" % site_where(e.site),
                    "a blob is renamed within cas/ at %s" % site_where(e.site), site_where(e.site))
        else:
            r.ok("%s:%s" % (e.kind, site_construct(e.site)), e.site.body,
                 "%s(%s) at %s" % (e.kind, ",".join(sorted(e.classes)), site_where(e.site)))
    r.need(12, "effect sites on CAS paths")
    out.append(r.finish())

    r = Rule("R2", "closed list of effect kinds on CAS paths",
             "an effect kind nobody reviewed touches a blob")
    kinds = {}
    for e in ces:
        kinds.setdefault(e.kind, []).append(e)
    for k, lst in sorted(kinds.items()):
        r.check(k in ALLOWED_ON_CAS, "kind:%s" % k, lst[0].site.body,
                "%s on CAS paths: %d site(s)" % (k, len(lst)),
                "effect kind %s on a CAS path at %s is not in the reviewed list" % (k, site_where(lst[0].site)),
                site_where(lst[0].site))
    # every effect anywhere has a class (otherwise a CAS write could hide behind an unknown path)
    for e in ctx.fx.effects:
        if e.kind in WRITE_KINDS | {"FS_OPEN", "FS_RENAME", "FS_UNLINK"} and not e.classes and e.site.kind == "call":
            if e.kind == "FS_OPEN" and e.mode and "temp" in e.mode and not e.classes:
                pass
            r.bad("unclassified:%s:%s" % (e.kind, site_construct(e.site)), e.site.body,
                  "%s at %s acts on a path whose class cannot be established" % (e.kind, site_where(e.site)),
                  site_where(e.site))
    r.need(5, "effect kinds seen on CAS paths")
    out.append(r.finish())

    r = Rule("R3", "complete before visible: the staged file is flushed before the rename, never written after",
             "the blob becomes visible under its final name while bytes are still in the writer's buffer")
    must = ctx.must(None)
    roots = ctx.live_roots()
    ENTRY = must.entry_sets(roots)
    ENTRY_may = ctx.may.entry_sets(roots)
    order.require_before(ctx, r, must, ENTRY, "BLOB_PUBLISH", ["STAGE_FLUSH"])
    order.require_not_before(ctx, r, ENTRY_may, "STAGE_WRITE", ["BLOB_PUBLISH"])
    r.need(2, "publish site, staging write site")
    out.append(r.finish())

    r = Rule("R4", "the published file is this transaction's staging file, under this transaction's hash",
             "another file, or this file under another hash, is moved into cas/: path and content disagree")
    publish_provenance(ctx, r)
    r.need(4, "rename operands and the two arguments of the publishing call")
    out.append(r.finish())
    return out


def publish_provenance(ctx, r):
    """In the body holding the publish rename: src is a parameter, dst is cas-path(hash parameter).
    At every call of that body: src derives from the temp file owned by the caller's `self`, the
    hash from finalize() of the hasher owned by the same `self`."""
    prog = ctx.prog
    for e in ctx.fx.of_kind("FS_RENAME"):
        if not (e.classes2 and e.classes2 <= {"CAS_BLOB"}):
            continue
        site = e.site
        body = site.body
        sl = Slicer(ctx.world, body)
        src = sl.leaves_of_operand(site.term["args"][0])
        dst = sl.leaves_of_operand(site.term["args"][1])
        src_params = set(l[1] for l in src if l[0] == "param")
        r.check(len(src) == 1 and len(src_params) == 1, "rename-src", body,
                "rename source is parameter #%s of %s" % (sorted(src_params), body.path),
                "rename source at %s has origins %s (expected one parameter)" % (
                    site_where(site), sorted(fmt_leaf(l) for l in src)), site_where(site))
        # dst: result of a call whose callee builds CAS_BLOB paths from a hash parameter
        dst_calls = [l for l in dst if l[0] == "call"]
        hash_params = set()
        okd = len(dst) == 1 and len(dst_calls) == 1
        if okd:
            t = sl.call_at(dst_calls[0][2])
            hash_ty = ctx.anchors.get("HASH")
            for a in t["args"]:
                for l in sl.leaves_of_operand(a):
                    if l[0] == "param" and prog.adt_of(body.locals[l[1]])[0] == hash_ty:
                        hash_params.add(l[1])
            okd = len(hash_params) == 1
        r.check(okd, "rename-dst", body,
                "rename destination is the CAS path of hash parameter #%s" % sorted(hash_params),
                "rename destination at %s has origins %s (expected cas-path(hash parameter))" % (
                    site_where(site), sorted(fmt_leaf(l) for l in dst)), site_where(site))
        if len(src_params) != 1 or len(hash_params) != 1:
            continue
        sp = list(src_params)[0]
        hp = list(hash_params)[0]
        for (csite, how) in prog.callers_index().get(body.path, []):
            cb = csite.body
            csl = Slicer(ctx.world, cb)
            a_src = csl.leaves_of_operand(csite.term["args"][sp - 1])
            a_hash = csl.leaves_of_operand(csite.term["args"][hp - 1])
            # src: NamedTempFile::path(self.<field>)
            ok1 = False
            for l in a_src:
                if l[0] == "call" and l[1] == "tempfile::NamedTempFile::path":
                    t = csl.call_at(l[2])
                    inner = csl.leaves_of_operand(t["args"][0])
                    ok1 = all(x[0] == "param" and x[1] == 1 and len(x[2]) == 1 for x in inner) and len(inner) == 1
            ok1 = ok1 and len(a_src) == 1
            r.check(ok1, "publish-arg:staging", cb,
                    "staging path passed at %s is the path of the transaction's own temp file" % site_where(csite),
                    "staging path passed to %s at %s has origins %s" % (body.path, site_where(csite),
                                                                        sorted(fmt_leaf(l) for l in a_src)),
                    site_where(csite))
            ok2 = False
            for l in a_hash:
                if l[0] == "call" and l[1] == "blake3::Hasher::finalize":
                    t = csl.call_at(l[2])
                    inner = csl.leaves_of_operand(t["args"][0])
                    ok2 = all(x[0] == "param" and x[1] == 1 and len(x[2]) == 1 for x in inner) and len(inner) == 1
            ok2 = ok2 and len(a_hash) == 1
            r.check(ok2, "publish-arg:hash", cb,
                    "hash passed at %s is finalize() of the transaction's own hasher" % site_where(csite),
                    "hash passed to %s at %s has origins %s" % (body.path, site_where(csite),
                                                                sorted(fmt_leaf(l) for l in a_hash)),
                    site_where(csite))
