"""C06 CAS files are immutable and never partially visible: effect ownership over cas/."""
from ..ctx import sem, sem_set
from ..events import is_cas_class
from ..effects import norm
from ..prov import Slicer, fmt_leaf
from ..vfg import place_of
from . import order
from .base import Rule, site_construct, site_where

PROP = "C06"

WRITE_KINDS = {"FS_WRITE", "FS_WRITEFILE", "FS_TRUNCATE", "FS_COPY", "FS_LINK", "FS_WRITE_AT", "FS_CHMOD",
               "FS_SEEK", "TEMP_ESCAPE", "FS_RMDIR", "FS_RMDIR_ALL", "BUF_DISCARD"}
ALLOWED_ON_CAS = {"FS_MKDIR", "FS_STAT", "FS_OPEN", "FS_READFILE", "FS_READ", "FS_CLOSE", "FS_UNLINK",
                  "FS_RENAME"}


def cas_effects(ctx):
    out = []
    for e in ctx.fx.effects:
        if any(is_cas_class(c) for c in e.classes) or any(is_cas_class(c) for c in e.classes2):
            out.append(e)
    return out


def rules(ctx, tier):
    out = []
    ces = cas_effects(ctx)

    r = Rule("R1", "nobody writes under cas/: every effect on a CAS path is read-only, mkdir, unlink or the publish rename",
             "a blob is created empty / written / truncated in place: a reader sees bytes that do not hash "
             "to the path, or a half-written blob survives a crash under its final name")
    for e in ces:
        on1 = any(is_cas_class(c) for c in e.classes)
        if e.kind == "FS_OPEN" and on1:
            mode = e.mode or set()
            r.check(mode == {"read"}, "open-mode:%s" % site_construct(e.site), e.site.body,
                    "open of a CAS path at %s is read-only" % site_where(e.site),
                    "a path under cas/ is opened with mode {%s} at %s (only {read} is allowed)" % (
                        ",".join(sorted(mode)), site_where(e.site)), site_where(e.site))
        elif e.kind in WRITE_KINDS and on1:
            r.bad("%s:%s" % (e.kind, site_construct(e.site)), e.site.body,
                  "%s on a CAS path (%s) at %s" % (e.kind, ",".join(sorted(e.classes)), site_where(e.site)),
                  site_where(e.site))
        elif e.kind == "FS_RENAME" and any(is_cas_class(c) for c in e.classes2):
            r.check(e.classes <= {"STAGING_FILE"} and len(e.classes) == 1,
                    "publish-src:%s" % site_construct(e.site), e.site.body,
                    "the only rename into cas/ (at %s) takes a staging file" % site_where(e.site),
                    "rename into cas/ at %s takes its source from {%s}, not from staging" % (
                        site_where(e.site), ",".join(sorted(e.classes)) or "?"), site_where(e.site))
        elif e.kind == "FS_RENAME" and on1:
            r.check(not any(is_cas_class(c) for c in e.classes2) and len(e.classes2) > 0,
                    "rename-out:%s" % site_construct(e.site), e.site.body,
                    "rename out of cas/ at %s goes to a caller supplied directory" % site_where(e.site),
                    "a blob is renamed within cas/ at %s" % site_where(e.site), site_where(e.site))
        else:
            r.ok("%s:%s" % (e.kind, site_construct(e.site)), e.site.body,
                 "%s(%s) at %s" % (e.kind, ",".join(sorted(e.classes)), site_where(e.site)))
    r.need(12, "effect sites on CAS paths")
    out.append(r.finish())

    r = Rule("R2", "closed list of effect kinds on CAS paths",
             "an effect kind nobody reviewed touches a blob")
    kinds = {}
    for e in ces:
        kinds.setdefault(e.kind, []).append(e)
    for k, lst in sorted(kinds.items()):
        r.check(k in ALLOWED_ON_CAS, "kind:%s" % k, lst[0].site.body,
                "%s on CAS paths: %d site(s)" % (k, len(lst)),
                "effect kind %s on a CAS path at %s is not in the reviewed list" % (k, site_where(lst[0].site)),
                site_where(lst[0].site))
    # every effect anywhere has a class (otherwise a CAS write could hide behind an unknown path)
    for e in ctx.fx.effects:
        if e.kind in WRITE_KINDS | {"FS_OPEN", "FS_RENAME", "FS_UNLINK"} and not e.classes and e.site.kind == "call":
            if e.kind == "FS_OPEN" and e.mode and "temp" in e.mode and not e.classes:
                pass
            r.bad("unclassified:%s:%s" % (e.kind, site_construct(e.site)), e.site.body,
                  "%s at %s acts on a path whose class cannot be established" % (e.kind, site_where(e.site)),
                  site_where(e.site))
    r.need(5, "effect kinds seen on CAS paths")
    out.append(r.finish())

    r = Rule("R3", "complete before visible: the staged file is flushed before the rename, never written after",
             "the blob becomes visible under its final name while bytes are still in the writer's buffer")
    must = ctx.must(None)
    roots = ctx.live_roots()
    ENTRY = must.entry_sets(roots)
    ENTRY_may = ctx.may.entry_sets(roots)
    order.require_before(ctx, r, must, ENTRY, "BLOB_PUBLISH", ["STAGE_FLUSH"])
    order.require_not_before(ctx, r, ENTRY_may, "STAGE_WRITE", ["BLOB_PUBLISH"])
    r.need(2, "publish site, staging write site")
    out.append(r.finish())

    r = Rule("R4", "the published file is this transaction's staging file, under this transaction's hash",
             "another file, or this file under another hash, is moved into cas/: path and content disagree")
    publish_provenance(ctx, r)
    r.need(4, "rename operands and the two arguments of the publishing call")
    out.append(r.finish())
    from . import c18
    from .base import share_rule
    x = share_rule(ctx, tier, c18, "R1", "R5",
                   "the file that is published holds exactly the bytes that were hashed, in that order: every write call "
                   "feeds the hasher and the one buffered writer the same data, once (shared with C18-R1)",
                   "large chunks are hashed in order but written around the buffer: the file moved to path(hash) does not "
                   "hash to its name")
    if x is not None:
        out.append(x)
    return out


def leaf_root_adt(prog, body, l):
    """ADT (through references) of the parameter a param/xparam leaf is rooted at."""
    if l[0] == "param":
        return prog.adt_of(body.locals[l[1]])[0]
    if l[0] == "xparam":
        return prog.adt_of(prog.bodies[l[1][0]].locals[l[1][1]])[0]
    return None


def rooted_in_txn_field(ctx, sl, leaves, txn, field_def):
    """All leaves are `<transaction value>.<field>` where the field's type is `field_def` (the transaction may have
    been taken apart into an internal struct or passed to a private helper field by field)."""
    prog = ctx.prog
    if not leaves:
        return False
    from .c13 import _owned_structs
    inner = _owned_structs(prog, txn)
    for x in leaves:
        if x[0] not in ("param", "xparam") or len(x[2]) < 1:
            return False
        # the value may be reached from the transaction itself or from a private struct the transaction holds by value
        # (a helper method of that struct sees only `self`)
        cur = leaf_root_adt(prog, sl.body, x)
        if cur != txn and cur not in inner:
            return False
        t = None
        for nm in x[2]:
            if nm.startswith("#") or cur not in prog.adts:
                return False
            fld = [f for f in prog.adts[cur]["variants"][0]["fields"] if f["name"] == nm]
            if not fld:
                return False
            t = prog.types[fld[0]["ty"]]
            cur = t.get("def") if t.get("k") == "adt" else None
        if not (t is not None and t.get("k") == "adt" and norm(t["def"]) == field_def):
            return False
    return True


def publish_provenance(ctx, r):
    """At the publish rename: src is the path() of the transaction's own NamedTempFile, dst is cas-path(h) where h is
    finalize() of the same transaction's hasher - through however many private helpers the values are handed."""
    from .c13 import txn_type
    prog = ctx.prog
    txns = txn_type(ctx)
    r.check(len(txns) == 1, "txn-type", None, "transaction type %s" % txns, "cannot find the transaction type: %s" % txns)
    if len(txns) != 1:
        return
    txn = txns[0]
    for e in ctx.fx.of_kind("FS_RENAME"):
        if not (e.classes2 and e.classes2 <= {"CAS_BLOB"}):
            continue
        site = e.site
        body = site.body
        sl = Slicer(ctx.world, body)
        src = sl.leaves_up(site.term["args"][0], depth=5)
        ok1 = bool(src)
        for l in src:
            if l[0] == "call" and l[1] == "tempfile::NamedTempFile::path":
                t = sl.call_at(l[2])
                inner = sl.at(l[2]).leaves_up(t["args"][0], depth=5)
                ok1 = ok1 and rooted_in_txn_field(ctx, sl.at(l[2]), inner, txn, "tempfile::NamedTempFile")
            else:
                ok1 = False
        r.check(ok1, "publish-arg:staging", body,
                "the file renamed into cas/ at %s is the path of the transaction's own temp file" % site_where(site),
                "the rename source at %s has origins %s (expected NamedTempFile::path of the transaction's temp file)"
                % (site_where(site), sorted(fmt_leaf(l) for l in src)), site_where(site))
        # dst: result of a call whose callee builds CAS_BLOB paths from a hash
        dst = sl.leaves_up(site.term["args"][1], depth=5)
        dst_calls = [l for l in dst if l[0] == "call"]
        hash_ty = ctx.anchors.get("HASH")
        okd = len(dst) == 1 and len(dst_calls) == 1
        hleaves = set()
        hsl = sl
        if okd:
            t = sl.call_at(dst_calls[0][2])
            hsl = sl.at(dst_calls[0][2])
            okd = False
            for a in t["args"]:
                pl = place_of(a)
                if pl is None or prog.adt_of(hsl.body.locals[pl["l"]])[0] != hash_ty or pl["p"] not in ([], ["deref"]):
                    continue
                okd = True
                hleaves |= hsl.leaves_up(a, depth=5)
        r.check(okd, "rename-dst", body,
                "rename destination at %s is the CAS path of a hash value" % site_where(site),
                "rename destination at %s has origins %s (expected cas-path(hash))" % (
                    site_where(site), sorted(fmt_leaf(l) for l in dst)), site_where(site))
        if not okd:
            continue
        from ..prov import expand_down
        hleaves = expand_down(ctx.world, hsl.body, hleaves)
        ok2 = bool(hleaves)
        for l in hleaves:
            if l[0] == "call" and l[1] == "blake3::Hasher::finalize":
                t = hsl.call_at(l[2])
                inner = hsl.at(l[2]).leaves_up(t["args"][0], depth=5)
                ok2 = ok2 and rooted_in_txn_field(ctx, hsl.at(l[2]), inner, txn, "blake3::Hasher")
            else:
                ok2 = False
        r.check(ok2, "publish-arg:hash", body,
                "the hash naming the published file at %s is finalize() of the transaction's own hasher" %
                site_where(site),
                "the hash naming the published file at %s has origins %s (expected finalize() of the transaction's "
                "hasher)" % (site_where(site), sorted(fmt_leaf(l) for l in hleaves)), site_where(site))
