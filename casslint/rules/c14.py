"""C14 A failed I/O call is contained: error discipline and the error-path typestate of the log writer."""
from .. import cfgutil, effects
from ..core import Site, term_path, FN_TRAIT_CALLS
from ..ctx import sem, sem_set, ANCHOR_FIELDS
from ..prov import Slicer, fmt_leaf
from ..vfg import place_of
from .base import Rule, site_construct, site_where, stable_path

PROP = "C14"

# reviewed exceptions to "no Result of an effectful call is discarded": (caller, callee) -> reason
# reviewed discards, by what the discarded call does (not by its name): a call whose only effect is pruning log segments
DISCARD_OK_EFFECTS = {
    frozenset(["WAL_PRUNE"]):
        "best-effort prune of log segments: a stale segment that survives is skipped by version at replay",
}

# reviewed unwrap/expect sites on extern error types, keyed by the call that produced the Result (not by the
# name of the enclosing function): producing callee -> reason
UNWRAP_OK_BY_PRODUCER = {
    "serde_json::to_string": "serde_json::to_string of a plain struct of integers/bools cannot fail (no I/O involved)",
}
UNWRAP_OK = {}


def error_type_is_io_free(prog, ty_ix):
    """Is the E of Result<T, E> a crate-local type that (transitively) holds no io::Error / boxed dyn Error?"""
    t = prog.types[ty_ix]
    if t.get("k") != "adt" or t["def"] != "std::result::Result":
        return False
    a = [x for x in t["args"] if isinstance(x, int)]
    if len(a) < 2:
        return False
    e = a[1]
    et = prog.types[e]
    if et.get("k") != "adt" or et["def"] not in prog.adts:
        return False
    bad = prog.find_in_type(e, lambda x: (x.get("k") == "adt" and x["def"] in ("std::io::Error",)) or x.get("k") == "dyn"
                            or (x.get("k") == "adt" and not x.get("local") and x["def"].endswith("Error")
                                and x["def"] not in ("hex::FromHexError", "std::num::ParseIntError", "std::str::Utf8Error")))
    return not bad

IO_ERROR_MARKERS = ("std::io::Error", "WalError", "IoError", "LibError", "CasManagerError", "PersisterError",
                    "IndexError", "TransactionError", "SettingsError")


def is_result_ty(prog, ix):
    t = prog.types[ix]
    return t.get("k") == "adt" and t["def"] == "std::result::Result"


def uses_of_local(body, l):
    """(kind, bb, detail) for every use of local l (whole or projected)."""
    out = []
    for bb in body.normal_blocks():
        for s in body.stmts(bb):
            if s["k"] != "assign":
                continue
            rv = s["rv"]
            ops = []
            if rv["k"] in ("use", "cast", "repeat"):
                ops = [rv["op"]]
            elif rv["k"] == "binop":
                ops = [rv["a"], rv["b"]]
            elif rv["k"] == "unop":
                ops = [rv["a"]]
            elif rv["k"] == "agg":
                ops = rv["ops"]
            for o in ops:
                pl = place_of(o)
                if pl is not None and pl["l"] == l:
                    out.append(("move" if "move" in o and not pl["p"] else "read", bb, s))
            if rv["k"] in ("ref", "rawptr", "discr") and rv["place"]["l"] == l:
                out.append(("discr" if rv["k"] == "discr" else "ref", bb, s))
        t = body.blocks[bb]["term"]
        if t["k"] == "call":
            for a in t["args"]:
                pl = place_of(a)
                if pl is not None and pl["l"] == l:
                    out.append(("arg", bb, t))
        elif t["k"] == "drop" and t["place"]["l"] == l:
            out.append(("drop", bb, t))
        elif t["k"] == "switch":
            pl = place_of(t["discr"])
            if pl is not None and pl["l"] == l:
                out.append(("switch", bb, t))
    return out


PASS_THROUGH = {"std::result::Result::map_err", "std::result::Result::map", "std::result::Result::ok",
                "std::result::Result::err", "std::result::Result::inspect_err", "std::ops::Try::branch",
                "std::result::Result::as_ref", "std::result::Result::or", "std::result::Result::and"}


def is_discarded(prog, body, l, depth=0, seen=None):
    """True if the value in local l is never inspected: only dropped, or moved into values that are."""
    if seen is None:
        seen = set()
    if l in seen or depth > 8:
        return True
    seen.add(l)
    if l == 0:
        return False
    uses = uses_of_local(body, l)
    for kind, bb, d in uses:
        if kind == "drop":
            continue
        if kind in ("discr", "switch", "read", "ref"):
            return False
        if kind == "move":
            dst = d["lhs"]
            if dst["p"]:
                return False
            if not is_discarded(prog, body, dst["l"], depth + 1, seen):
                return False
            continue
        if kind == "arg":
            p = term_path(d)
            if p in PASS_THROUGH and not d["dest"]["p"]:
                if not is_discarded(prog, body, d["dest"]["l"], depth + 1, seen):
                    return False
                continue
            if p == "std::mem::drop":
                continue
            return False
    return True


def rules(ctx, tier):
    out = []
    prog = ctx.prog
    must = ctx.must(None)

    r = Rule("R1", "no result of an effectful call is discarded (except the reviewed table)",
             "a failed filesystem call is swallowed: the operation reports success although part of it did not happen")
    n = 0
    for b in prog.bodies.values():
        for site in b.calls():
            if site.term["dest"]["p"] or not is_result_ty(prog, b.locals[site.term["dest"]["l"]]):
                continue
            if site.path in PASS_THROUGH or (site.path or "").startswith(("std::fmt::", "core::fmt::")):
                continue
            evs = ctx.may.site_events(site)
            acq = False
            for tgt, how in prog.call_targets(site):
                if ctx.locks.acquires(tgt.path):
                    acq = True
            effectful = bool([e for e in evs if e[0] != "CONT" or e[3]]) or acq
            if not effectful:
                continue
            if site.span.get("exp") and "tracing" in (site.span.get("outer") or ""):
                continue
            n += 1
            disc = is_discarded(prog, b, site.term["dest"]["l"])
            tgt = prog.local_target(site)
            callee = tgt.path if tgt is not None else site.path
            key = (stable_path(b), callee)
            does = frozenset(sem_set(e for e in ctx.may.site_events(site) if ctx._concrete(e))) if disc else None
            if disc and does in DISCARD_OK_EFFECTS:
                r.note("reviewed discard %s -> %s: %s" % (key[0], key[1], DISCARD_OK_EFFECTS[does]))
                r.ok("reviewed-discard:%s" % "+".join(sorted(does)), b, "reviewed: %s" % DISCARD_OK_EFFECTS[does])
                continue
            r.check(not disc, "discard:%s" % callee, b,
                    "result of %s at %s is inspected" % (callee, site_where(site)),
                    "the Result of %s at %s is never inspected (only dropped)" % (callee, site_where(site)),
                    site_where(site))
    r.need(60, "effectful Result-returning call sites")
    out.append(r.finish())

    r = Rule("R2", "no unwrap/expect on a value that can carry an I/O error",
             "a failed filesystem call panics the caller's thread instead of returning an error")
    reach = prog.reachable_bodies(ctx.api_roots() + [cl for (_, cl) in prog.spawned_closures()])
    for p in sorted(reach):
        b = prog.bodies[p]
        for site in b.calls():
            what = effects.MAY_PANIC.get(site.path or "")
            if what is None or not what.split("::")[-1] in ("unwrap", "expect", "unwrap_err", "expect_err"):
                continue
            pl = place_of(site.term["args"][0]) if site.term["args"] else None
            if pl is None:
                continue
            tstr = prog.ty_str(ctx.world._place_ty(b, pl))
            carries_io = tstr.startswith("std::result::Result<") and any(m in tstr for m in IO_ERROR_MARKERS)
            key = (stable_path(b), site.path, tstr)
            if carries_io:
                r.bad("unwrap-io:%s" % site.path, b,
                      "%s on %s at %s: an I/O failure becomes a panic" % (what, tstr, site_where(site)), site_where(site))
            elif tstr.startswith("std::option::Option<"):
                ok = option_unwrap_discharged(ctx, b, site)
                r.check(ok, "unwrap-option:%s" % stable_path(b).split("::")[-1], b,
                        "%s at %s: the Option was just filled on every path" % (what, site_where(site)),
                        "%s on an Option at %s that is not provably Some" % (what, site_where(site)), site_where(site))
            else:
                why = None
                if error_type_is_io_free(prog, ctx.world._place_ty(b, pl)):
                    why = "the error type is a crate-local logic error that carries no I/O error"
                else:
                    sl2 = Slicer(ctx.world, b, follow_local=False)
                    for l in sl2.leaves_of_operand(site.term["args"][0]):
                        if l[0] == "call" and l[1] in UNWRAP_OK_BY_PRODUCER:
                            why = UNWRAP_OK_BY_PRODUCER[l[1]]
                r.check(why is not None, "unwrap-other:%s" % tstr.split(",")[-1].strip(" >")[-40:], b,
                        "%s on %s at %s: %s" % (what, tstr, site_where(site), why),
                        "%s on %s at %s: cannot show that no I/O failure can reach it" % (what, tstr, site_where(site)),
                        site_where(site))
    r.need(4, "unwrap/expect sites reachable from the API")
    out.append(r.finish())

    r = Rule("R3", "append before apply: the index is changed only on the success edge of the append",
             "memory shows an operation the disk never got: after a restart it is gone, and the blobs it "
             "dereferenced were already deleted")
    roles = set(ctx.role_bodies().keys())
    n = 0
    for b in prog.bodies.values():
        appends = [s for s in b.calls() if prog.local_target(s) is not None and
                   "WAL_WRITE" in sem_set(e for e in ctx.may.site_events(s) if ctx._concrete(e)) and
                   "INDEX_MUTATE" not in sem_set(ctx.may.site_events(s))]
        # the apply step: a call that changes the key map and writes no log (whatever functions it is split into)
        applies = [s for s in b.calls() if prog.local_target(s) is not None and
                   "INDEX_MUTATE" in sem_set(ctx.may.site_events(s)) and
                   "WAL_WRITE" not in sem_set(e for e in ctx.may.site_events(s) if ctx._concrete(e))]
        if not appends or not applies:
            continue
        rf = must.rf(b)
        for c in applies:
            for a in appends:
                oks = rf.ok_edges_of(a.bb)
                n += 1
                r.check(bool(oks) and cfgutil.edges_dominate(b, oks, c.bb), "apply-after-append-ok", b,
                        "the apply at %s is reachable only through the Ok edge of the append at %s" % (site_where(c), site_where(a)),
                        "the apply at %s can run although the append at %s failed or was not attempted" % (
                            site_where(c), site_where(a)), site_where(c))
    r.need(1, "the append+apply body")
    out.append(r.finish())

    r = Rule("R4", "no guard or RAII cleanup object is leaked", "an error exit leaves a lock held or an intent registered")
    for e in ctx.fx.of_kind("LEAK"):
        r.bad("leak:%s" % site_construct(e.site), e.site.body, "%s at %s" % (site_construct(e.site), site_where(e.site)),
              site_where(e.site))
    r.ok("scan", None, "no mem::forget / ManuallyDrop / leak call in the crate")
    out.append(r.finish())

    r = Rule("R5", "a log writer that reported a failure is not reused",
             "the bytes of an operation that returned Err stay in the writer's buffer (or in the file after a failed "
             "sync) and are made durable by the next successful append; after reopen the failed operation is applied, "
             "and if its blob has meanwhile been reclaimed the key references a missing blob")
    failed_writer_typestate(ctx, r, must)
    r.need(1, "fallible writes through the manager's writer field")
    out.append(r.finish())

    r = Rule("R6", "the version counter never goes back: a failed append leaves a gap, not a reuse",
             "a version is handed out twice: replay sees two records with one version and drops one")
    version_counter(ctx, r)
    r.need(2, "writes of the version counter")
    out.append(r.finish())

    r = Rule("R7", "a failed snapshot write is contained: log segments are pruned, and a blob is unlinked, only behind the "
                   "successful step that makes them redundant in the same call (snapshot published / record logged)",
             "the index write fails (or is skipped) and the segments that still hold the only copy of acknowledged "
             "operations are pruned anyway: the operations are gone at the next open")
    from . import order
    ENTRY_all = must.entry_sets(ctx.api_roots())
    order.require_before(ctx, r, must, ENTRY_all, "WAL_PRUNE", ["SNAP_PUBLISH:INDEX"])
    # the bodies behind the delete callback (whatever they are called): everything reachable from the closures bound to
    # a `dyn Fn` call site that unlinks blobs
    from ..core import FN_TRAIT_CALLS, Site
    behind_cb = set()
    for b0 in ctx.prog.bodies.values():
        for s0 in b0.calls():
            if s0.path in FN_TRAIT_CALLS and (s0.callee or {}).get("rk") == "virtual" and \
                    "BLOB_UNLINK" in sem_set(ctx.may.site_events(s0)):
                behind_cb |= set(ctx.prog.reachable_bodies([t for t, how in ctx.prog.call_targets(s0)]))
    order.require_before(ctx, r, must, must.entry_sets(ctx.live_roots()), "BLOB_UNLINK", ["WAL_WRITE"],
                         only_bodies=set(b.path for b in ctx.prog.bodies.values()
                                         if "INDEX_MUTATE" in sem_set(ctx.may.all_events(b.path)) or
                                         b.path in behind_cb))
    r.need(1, "prune site")
    out.append(r.finish())
    out.append(replay_accepts_gaps(ctx, "R8"))
    return out


def replay_accepts_gaps(ctx, rid):
    """A failed append consumes a version number and writes nothing, so the log of a database that went on working after
    an I/O failure has gaps in its versions.  The replayer must take such a log: it may give up on a record because
    reading or decoding failed, never because of how the record's version compares with anything."""
    from . import c02
    prog = ctx.prog
    r = Rule(rid, "reopening after a contained failure succeeds: the replayer gives up only on a failing read / decode, "
                  "never on a comparison of record versions (a failed append leaves a gap in the versions)",
             "an append fails before its record reaches the file, later operations succeed; a 'versions must be "
             "contiguous' check added to replay then makes every later open fail")
    n = 0
    owners = []
    from ..prov import _closure_sites
    for bx in prog.bodies.values():
        if not c02._replay_callback_sites(ctx, bx):
            continue
        # (the per-record work may sit in a closure handed to `try_fold`: the function the closure is written in)
        cur = bx
        for _ in range(3):
            if not cur.is_closure:
                break
            cs = _closure_sites(prog, cur.path)
            if not cs:
                break
            cur = cs[0][0]
        if not cur.is_closure and cur not in owners:
            owners.append(cur)
    for b0 in owners:
        rt = prog.types[b0.locals[0]]
        if not (rt.get("k") == "adt" and rt["def"] == "std::result::Result"):
            continue
        b = ctx.flat(b0, stop=tuple(sorted(cb.path for cb in c02.replay_callbacks(ctx))))
        rf = ctx.rf(b)
        err_blocks = set(x for x, k in rf.forwarded.items() if k == "err")
        ok_blocks = set(x for x, k in rf.forwarded.items() if k != "err")
        sl = Slicer(ctx.world, b)
        for sw in b.normal_blocks():
            t = b.blocks[sw]["term"]
            if t["k"] != "switch":
                continue
            tgts = set(cfgutil.switch_edges(b, sw).values())
            if len(tgts) < 2:
                continue
            fates = {}
            for x in tgts:
                reach = cfgutil.reach(b, x)
                fates[x] = (bool(reach & err_blocks), bool(reach & ok_blocks))
            if not [x for x, (e, o) in fates.items() if e and not o] or not [x for x, (e, o) in fates.items() if o]:
                continue
            n += 1
            c = cfgutil.switch_condition(b, sw)
            if not c or c[0] != "cmp":
                r.ok("give-up:%s" % (c[0] if c else "?"), b0,
                     "error exit at %s:%d is decided by whether a step produced a value" % (b.file, b.blocks[sw]["span"]["line"]))
                continue
            lv = sl.leaves_up(c[2], depth=2) | sl.leaves_up(c[3], depth=2)
            vers = [l for l in lv if c02.is_version_leaf(ctx, l)]
            r.check(not vers, "give-up:version-compare", b0,
                    "error exit at %s:%d does not depend on record versions" % (b.file, b.blocks[sw]["span"]["line"]),
                    "the replayer rejects the log at %s:%d because of a comparison of record versions (%s): a log with a "
                    "gap left by a failed append can no longer be opened" % (
                        b.file, b.blocks[sw]["span"]["line"], ", ".join(sorted(fmt_leaf(l) for l in vers))),
                    "%s:%d" % (b.file, b.blocks[sw]["span"]["line"]))
    r.need(1, "error exits of the replayer")
    return r.finish()


def option_unwrap_discharged(ctx, b, site):
    """`x.as_mut().unwrap()` where the Option place was assigned `Some(..)` or tested non-None on every
    path.  Judged on the flat view of the function (the assignment may sit in a helper such as a roll-over step):
    every occurrence of the unwrap in the view must be discharged."""
    if getattr(b, "is_flat", False):
        return _unwrap_discharged_in(ctx, b, site)
    V = ctx.flat(b)
    occ = ctx.flat_sites_of(V, site)
    if not occ:
        return _unwrap_discharged_in(ctx, b, site)
    return all(_unwrap_discharged_in(ctx, V, fs) for fs in occ)


def _derived_from_node(ctx, b, sl, op, node):
    """Is the operand `field.as_ref().map(..)`-like: an Option computed from the Option stored at `node`?"""
    cur = op
    for _ in range(5):
        rp = ctx.world.root_place(b, cur)
        if rp is not None and ctx.world.vfg.node_of_place(b, rp) == node:
            return True
        lv = sl.leaves_of_operand(cur)
        if len(lv) != 1:
            return False
        l = list(lv)[0]
        if l[0] != "call" or (l[1] or "").split("::")[-1] not in ("map", "as_ref", "as_mut", "copied", "cloned",
                                                                  "as_deref", "as_deref_mut"):
            return False
        t = b.blocks[l[2]]["term"]
        if not t["args"]:
            return False
        cur = t["args"][0]
    return False


def _unwrap_discharged_in(ctx, b, site):
    root = ctx.world.root_place(b, site.term["args"][0])
    if root is None:
        return False
    node = ctx.world.vfg.node_of_place(b, root)
    sl0 = Slicer(ctx.world, b)
    # NonZero::new(nonzero literal).unwrap()
    lv0 = sl0.leaves_of_operand(site.term["args"][0])
    if lv0 and all(l[0] == "call" and l[1] == "std::num::NonZero::new" for l in lv0):
        good = True
        for l in lv0:
            t = b.blocks[l[2]]["term"]
            c = t["args"][0].get("const") if t["args"] else None
            if not (c is not None and c.get("v")):
                good = False
        if good:
            return True
    # field writes of Some(..) to that place, found by the original location of each block of the view
    by_origin = {}
    for w in ctx.world.field_writes:
        if w.field == node:
            by_origin.setdefault((w.body.path, w.bb), []).append(w)
    somes = []
    for fb in b.normal_blocks():
        for w in by_origin.get(b.origin_key(fb), ()):
            stmts = b.blocks[fb]["stmts"]
            if w.idx >= len(stmts) or stmts[w.idx]["k"] != "assign":
                continue
            rv = stmts[w.idx]["rv"]
            if rv["k"] == "agg" and rv.get("vn") == "Some":
                somes.append(fb)
            elif rv["k"] == "use":
                pl = place_of(rv["op"])
                defs = b.assignments().get(pl["l"], []) if pl is not None and not pl["p"] else []
                if defs and all(j != "term" and rv2["k"] == "agg" and rv2.get("vn") == "Some" for (_, j, rv2) in defs):
                    somes.append(fb)
    if not somes:
        return False
    # every path to the unwrap either passes a Some-write or takes the "is some" edge of a test on the field
    tests = []
    for bb in b.normal_blocks():
        c = cfgutil.switch_condition(b, bb)
        if not c:
            continue
        if c[0] == "call" and c[1].split("::")[-1] in ("is_none_or", "is_none", "is_some", "is_some_and"):
            rp = ctx.world.root_place(b, c[2]["args"][0])
            if (rp is not None and ctx.world.vfg.node_of_place(b, rp) == node) or \
                    _derived_from_node(ctx, b, sl0, c[2]["args"][0], node):
                tt, ff = cfgutil.true_false_edges(b, bb)
                meth = c[1].split("::")[-1]
                neg = c[3]
                some_edge = ff if meth in ("is_none_or", "is_none") else tt
                if neg:
                    some_edge = tt if some_edge == ff else ff
                tests.append((bb, some_edge))
        elif c[0] == "discr":
            # `match field.as_ref() { Some(w) .. }` (possibly inside an inlined deciding helper)
            dpl = c[1]
            dty = ctx.world._place_ty(b, dpl)
            if dty is not None and ctx.prog.ty_str(ctx.prog.strip_refs(dty)).startswith("std::option::Option<"):
                rp = ctx.world._root_place(b, dpl)
                hit = rp is not None and ctx.world.vfg.node_of_place(b, rp) == node
                if not hit and not [e for e in dpl["p"] if e != "deref"]:
                    hit = _derived_from_node(ctx, b, sl0, {"copy": {"l": dpl["l"], "p": []}}, node)
                if hit:
                    e = cfgutil.switch_edges(b, bb)
                    some_edge = e.get(1) if 1 in e else (e["otherwise"] if 0 in e else None)
                    if some_edge is not None:
                        tests.append((bb, some_edge))
        elif c[0] == "cmp" and c[1] in ("Eq", "Ne"):
            # `field.as_ref().map(f) == Some(x)`: on the equal edge the field is Some
            e = cfgutil.eq_edges(b, bb)
            if e is None:
                continue
            x, y, t_eq, t_ne = e
            for (p_, q_) in ((x, y), (y, x)):
                lq = sl0.leaves_of_operand(q_)
                is_some = bool(lq) and any(l[0] == "agg" and str(l[1]).endswith("Option::Some") for l in lq) or \
                    _is_some_aggregate(b, q_)
                if is_some and _derived_from_node(ctx, b, sl0, p_, node) and t_eq is not None:
                    tests.append((bb, t_eq))
    reachable = cfgutil.reach(b, 0, removed_edges=tests, removed_blocks=somes)
    return site.bb not in reachable


def _is_some_aggregate(b, op):
    """The operand is (a reference to) a local built as `Some(..)`."""
    pl = place_of(op)
    for _ in range(4):
        if pl is None or pl["p"] not in ([], ["deref"]):
            return False
        defs = b.assignments().get(pl["l"], [])
        if len(defs) != 1 or defs[0][1] == "term":
            return False
        rv = defs[0][2]
        if rv["k"] == "agg":
            return rv.get("vn") == "Some"
        if rv["k"] == "ref":
            pl = rv["place"]
        elif rv["k"] == "use":
            pl = place_of(rv["op"])
        else:
            return False
    return False


def owns_bufwriter(prog, ty):
    return bool(prog.find_in_type(ty, lambda t: t.get("k") == "adt" and effects.norm(t["def"]) == "std::io::BufWriter"))


def failed_writer_typestate(ctx, r, must):
    prog = ctx.prog
    A = ctx.anchors
    walmgr = A.get("WALMGR")
    n = 0
    for b in prog.bodies.values():
        if b.argc < 1 or prog.adt_of(b.locals[1])[0] != walmgr:
            continue
        t1 = prog.types[b.locals[1]]
        if not (t1.get("k") == "ref" and t1.get("mut")):
            continue
        rf = must.rf(b)
        for site in b.calls():
            tgt = prog.local_target(site)
            if tgt is None or not site.term["args"]:
                continue
            names = sem_set(e for e in ctx.may.site_events(site) if ctx._concrete(e))
            if not (names & {"WAL_WRITE", "WAL_FLUSH", "WAL_SYNC"}):
                continue
            # the call operates on a buffered writer (its receiver's type owns a BufWriter) that lives in a field of
            # the manager: only that field has state that survives a failure
            pl0 = place_of(site.term["args"][0])
            if pl0 is None:
                continue
            rty = ctx.world._place_ty(b, pl0)
            rd = prog.adt_of(rty)[0]
            if rd == walmgr or rd not in prog.adts or not owns_bufwriter(prog, rty):
                continue
            if prog.types[rty].get("k") != "ref":
                continue      # consumed by value (seal/close): cannot be used again whatever the outcome
            wfields = [("F", walmgr, f["name"]) for f in prog.adts[walmgr]["variants"][0]["fields"]
                       if any(prog.types[i].get("def") == rd for i in prog.find_in_type(
                           f["ty"], lambda t: t.get("k") == "adt"))]
            if len(wfields) != 1:
                continue
            node = wfields[0]
            n += 1
            errs = rf.err_edges_of(site.bb)
            if not errs:
                r.bad("%s:no-err-edge" % tgt.path.split("::")[-1], b,
                      "the result of %s at %s is not branched on" % (tgt.path, site_where(site)), site_where(site))
                continue
            ok = True
            for (sb, tb) in errs:
                blocks = cfgutil.reach(b, tb)
                reset = False
                for x in blocks:
                    for s in b.stmts(x):
                        if s["k"] == "assign" and s["lhs"]["p"]:
                            if ctx.world.vfg.node_of_place(b, s["lhs"]) == node:
                                reset = True
                    t = b.blocks[x]["term"]
                    if t["k"] == "call" and term_path(t) in ("std::option::Option::take", "std::mem::take",
                                                              "std::mem::replace") and t["args"]:
                        rp = ctx.world.root_place(b, t["args"][0])
                        if rp is not None and ctx.world.vfg.node_of_place(b, rp) == node:
                            reset = True
                if not reset:
                    ok = False
            r.check(ok, "%s:Err-edge" % tgt.path.split("::")[-1], b,
                    "after a failed %s at %s the writer in %s.%s is discarded before returning" % (
                        tgt.path.split("::")[-1], site_where(site), node[1].split("::")[-1], node[2]),
                    "after a failed %s at %s the manager returns with the same writer still in %s.%s: its buffered "
                    "(or written but unsynced) bytes are flushed by the next append" % (
                        tgt.path.split("::")[-1], site_where(site), node[1].split("::")[-1], node[2]),
                    site_where(site), witness={"field": list(node), "err_edges": errs})
    return n


def _map_or_increments(ctx, b, sl, leaf):
    """`opt.map_or(default, closure)`: default is a constant, the closure returns saturating_add(its argument, 1),
    opt is the result of a call (the replayed maximum)."""
    prog = ctx.prog
    t = b.blocks[leaf[2]]["term"]
    if len(t["args"]) < 3:
        return False
    opt = sl.leaves_of_operand(t["args"][0])
    dflt = sl.leaves_of_operand(t["args"][1])
    if not opt or not all(x[0] == "call" for x in opt) or not dflt or not all(x[0] == "const" for x in dflt):
        return False
    site = Site(b, leaf[2], t)
    for tg, how in prog.call_targets(site):
        if how != "extern-cb":
            continue
        csl = Slicer(ctx.world, tg)
        rl = csl.leaves_of_place({"l": 0, "p": []})
        if len(rl) != 1:
            return False
        x = list(rl)[0]
        if not (x[0] == "call" and x[1].endswith("saturating_add")):
            return False
        t2 = tg.blocks[x[2]]["term"]
        base = csl.leaves_of_operand(t2["args"][0])
        inc = csl.leaves_of_operand(t2["args"][1])
        return bool(base) and all(y[0] == "param" and y[1] >= 2 for y in base) and \
            bool(inc) and all(y[0] == "const" and y[1] == 1 for y in inc)
    return False


def version_counter(ctx, r):
    """Writes of the WAL manager's version counter field: constructor, allocator (previous + 1, saturating),
    post-replay (maximum seen + 1)."""
    prog = ctx.prog
    A = ctx.anchors
    walmgr = A.get("WALMGR")
    if walmgr not in prog.adts:
        r.bad("walmgr", None, "WAL manager struct not found")
        return
    # the counter: NonZeroU64 field written outside the constructor
    cands = set(w.field for w in ctx.world.field_writes if w.field[1] == walmgr and
                "NonZero" in prog.ty_str(ctx.world._field_ty(w.field)))
    r.check(len(cands) == 1, "counter-field", None, "version counter: %s" % sorted(c[2] for c in cands),
            "expected one NonZero counter field written in %s, found %s" % (walmgr, sorted(c[2] for c in cands)))
    for f in cands:
        for w in ctx.world.field_writes:
            if w.field != f:
                continue
            # judged with effect-free private helpers inlined ("the version after v" may be a small function); whatever
            # has effects of its own (the replayer, the allocator) stays a call
            from .. import flat as flatmod
            pure = lambda tgt: not ctx.may.all_events(tgt.path) and not ctx.locks.acquires(tgt.path)

            def policy(site, tgt, how):
                return how == "direct" and not tgt.reachable and not tgt.is_closure and pure(tgt)
            V = flatmod.flatten(prog, w.body, policy, 2)
            occ = [(vbb, V.blocks[vbb]["stmts"][w.idx]) for vbb in V.normal_blocks()
                   if V.origin_key(vbb) == (w.body.path, w.bb) and w.idx < len(V.blocks[vbb]["stmts"])]
            sl = Slicer(ctx.world, V)
            wrv = occ[0][1]["rv"] if occ and occ[0][1]["k"] == "assign" else w.rv
            if not occ:
                V = w.body
                sl = Slicer(ctx.world, V)
            lv = sl.leaves_of_operand(wrv["op"]) if wrv["k"] == "use" else {("unknown", wrv["k"], ())}
            ok = True
            desc = []
            incremented_in_closure = False
            for l in lv:
                if l[0] == "call" and l[1].endswith("saturating_add"):
                    t = V.blocks[l[2]]["term"]
                    base = sl.leaves_of_operand(t["args"][0])
                    inc = sl.leaves_of_operand(t["args"][1])
                    inc_ok = all(x[0] == "const" and x[1] == 1 for x in inc)
                    base_ok = all((x[0] == "param" and x[2] and x[2][-1] == f[2]) or x[0] == "call" for x in base)
                    desc.append("saturating_add(%s, %s)" % ("/".join(fmt_leaf(x) for x in base), "/".join(fmt_leaf(x) for x in inc)))
                    ok = ok and inc_ok and base_ok
                elif l[0] == "const":
                    desc.append("const %s" % (l[1],))
                elif l[0] == "call" and l[1].endswith("Option::map_or") and _map_or_increments(ctx, V, sl, l):
                    # `highest.map_or(FIRST, |v| v.saturating_add(1))`
                    incremented_in_closure = True
                    desc.append("map_or(first version, |v| saturating_add(v, 1))")
                else:
                    ok = False
                    desc.append(fmt_leaf(l))
            if not any(l[0] == "call" and l[1].endswith("saturating_add") for l in lv) and not incremented_in_closure:
                ok = False
                desc.append("(no increment of a previous/maximum version)")
            r.check(ok, "counter-write:%s" % w.body.path.split("::")[-1], w.body,
                    "%s sets the counter to %s" % (w.body.path, ", ".join(desc)),
                    "%s sets the version counter to %s (expected previous+1 or max-seen+1)" % (w.body.path, ", ".join(desc)),
                    "%s:%d" % (w.body.file, w.line))
