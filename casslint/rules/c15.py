"""C15 Concurrent calls always complete: acyclic lock-order graph over all paths, no blocking waits."""
from .. import cfgutil, effects
from ..core import Site, FN_TRAIT_CALLS
from .base import Rule, site_construct, site_where, stable_path

PROP = "C15"


def sccs(nodes, edges):
    index = {}
    low = {}
    stack = []
    on = set()
    out = []
    counter = [0]
    adj = {n: [] for n in nodes}
    for (a, b) in edges:
        adj.setdefault(a, []).append(b)
        adj.setdefault(b, [])

    def strong(v):
        index[v] = low[v] = counter[0]
        counter[0] += 1
        stack.append(v)
        on.add(v)
        for w in adj[v]:
            if w not in index:
                strong(w)
                low[v] = min(low[v], low[w])
            elif w in on:
                low[v] = min(low[v], index[w])
        if low[v] == index[v]:
            comp = []
            while True:
                w = stack.pop()
                on.discard(w)
                comp.append(w)
                if w == v:
                    break
            out.append(comp)
    for v in list(adj):
        if v not in index:
            strong(v)
    return out


def rules(ctx, tier):
    out = []
    L = ctx.locks
    prog = ctx.prog

    r = Rule("R1", "the lock acquisition order is acyclic (self-edges count: the locks are not re-entrant)",
             "two threads take two locks in opposite orders (or one thread re-takes a lock it holds): deadlock")
    sites = L.acquisition_sites()
    classes = set()
    for (body, bb, cs, blocking, path) in sites:
        for (c, m) in cs:
            classes.add(c)
    edges = {}
    for (a, b), wits in L.edges.items():
        blocking = [w for w in wits if w["blocking"]]
        if blocking:
            edges[(a, b)] = blocking
    comps = sccs(classes, list(edges.keys()))
    cyc_nodes = set()
    for comp in comps:
        if len(comp) > 1:
            cyc_nodes |= set(comp)
    for (a, b), wits in sorted(edges.items()):
        w = wits[0]
        bad = (a == b) or (a in cyc_nodes and b in cyc_nodes)
        body = prog.bodies.get(w["in"])
        r.check(not bad, "edge:%s->%s" % (a, b), body,
                "%s -> %s (%d site(s), e.g. %s in %s)" % (a, b, len(wits), w["acquire"], w["in"]),
                "%s is acquired while %s is held (%s in %s; held from %s) and this closes a cycle in the lock order"
                % (b, a, w["acquire"], w["in"], w["held_from"]),
                w["acquire"].split(" at ")[-1], witness={"edge": [a, b], "witnesses": wits[:5],
                                                         "cycle": sorted(cyc_nodes) if a != b else [a]})
    for (body, bb, cs, blocking, path) in sites:
        r.ok("acq:%s" % ",".join(sorted("%s(%s)" % c for c in cs)), body,
             "%s at %s:%d in %s" % (sorted(cs), body.file, body.blocks[bb]["span"]["line"], body.path))
    r.need(15, "lock acquisition sites + order edges")
    r.note("lock classes: %s; order edges: %s" % (sorted(classes), sorted("%s->%s" % e for e in edges)))
    out.append(r.finish())

    r = Rule("R2", "no API call waits for another thread",
             "a call blocks on a join/recv/bounded send/condvar that nobody completes")
    reach = prog.reachable_bodies(ctx.api_roots())
    for e in ctx.fx.of_kind("BLOCKING_WAIT"):
        if e.site.body.path in reach:
            r.bad("wait:%s" % site_construct(e.site), e.site.body,
                  "%s at %s is reachable from the public API" % (site_construct(e.site), site_where(e.site)),
                  site_where(e.site))
    chans = []
    for b in prog.bodies.values():
        for s in b.calls():
            if s.path in ("std::sync::mpsc::channel", "std::sync::mpsc::sync_channel"):
                chans.append(s)
    for s in chans:
        r.check(s.path == "std::sync::mpsc::channel", "channel:%s" % s.path.split("::")[-1], s.body,
                "unbounded channel at %s (send never blocks)" % site_where(s),
                "bounded channel at %s: send can block the committing thread" % site_where(s), site_where(s))
    # sends with a lock held are fine only on the unbounded channel (listed)
    r.ok("scan", None, "%d bodies reachable from the API scanned for join/recv/sync_channel/condvar/park/sleep" % len(reach))
    # polling: `while other_thread_is_not_done() { yield_now() }` completes only if the other thread can get on - which it
    # cannot while the waiter holds a lock it needs.  A yield / spin hint inside a loop with any lock (may-)held is a wait
    # that nobody may be able to end
    SPIN = ("std::thread::yield_now", "std::hint::spin_loop", "core::hint::spin_loop")
    for b in prog.bodies.values():
        if b.path not in reach:
            continue
        for s in b.calls():
            if (s.path or "") not in SPIN:
                continue
            in_loop = s.bb in cfgutil.reach(b, s.term["t"]) if s.term.get("t") is not None else False
            held = L.may_held_at(s)
            if in_loop and held:
                r.bad("spin-under-lock:%s" % s.path.split("::")[-1], b,
                      "%s polls at %s while %s may be held: whoever has to make the condition true may be waiting for "
                      "that lock" % (b.path, site_where(s), sorted(c_ for c_, _ in held)), site_where(s))
            else:
                r.ok("spin:%s" % s.path.split("::")[-1], b, "%s at %s with no lock held" % (s.path, site_where(s)))
    out.append(r.finish())

    r = Rule("R3", "guards do not escape, except the documented read view",
             "a write guard or the intents/WAL guard is kept alive by a caller: every other call blocks")
    for p, cs in sorted(L.returns_holding().items()):
        b = prog.bodies[p]
        # a crate-private helper may hand guards to its caller (the lockset analysis follows them there); what must not
        # happen is a guard other than the read view leaving the crate
        ok = all(c == "STATE" and m == "r" for (c, m) in cs) or not b.reachable
        r.check(ok, "returns-guard:%s" % p.split("::")[-1], b,
                "%s returns %s" % (p, "the shared read view" if b.reachable else "guards %s to crate-internal callers only" % sorted(cs)),
                "%s returns a guard %s to its caller" % (p, sorted(cs)), "%s:%d" % (b.file, b.line))
    for path, adt in sorted(prog.adts.items()):
        for v in adt["variants"]:
            for f in v["fields"]:
                gs = prog.guards_in_type(f["ty"])
                if not gs:
                    continue
                cs = set((ctx.world.lock_class_of_data(d), "r" if m == "read" else "w") for m, d in gs if d is not None)
                ok = all(c == "STATE" and m == "r" for (c, m) in cs)
                r.check(ok, "guard-field:%s.%s" % (path.split("::")[-1], f["name"]), None,
                        "%s.%s holds the shared read view" % (path, f["name"]),
                        "%s.%s stores a guard %s" % (path, f["name"], sorted(cs)))
    r.need(2, "the read-view constructor(s) and wrapper field")
    out.append(r.finish())

    r = Rule("R4", "every indirect call made under a lock is bound to known closures",
             "an unknown callback runs under a lock and may take locks in any order")
    prog.unresolved[:] = []
    n = 0
    for b in prog.bodies.values():
        for s in b.calls():
            c = s.callee
            indirect = c.get("indirect") or s.path in FN_TRAIT_CALLS
            if not indirect:
                continue
            held = L.may_held_at(s)
            if not held:
                continue
            tg = prog.call_targets(s)
            n += 1
            r.check(bool(tg), "callback:%s" % (s.path or "indirect"), b,
                    "callback at %s under %s is bound to %d closure(s): %s" % (
                        site_where(s), sorted(c_ for c_, _ in held), len(tg),
                        ", ".join(sorted(set(stable_path(t) for t, _ in tg)))),
                    "indirect call at %s under %s cannot be resolved" % (site_where(s), sorted(c_ for c_, _ in held)),
                    site_where(s))
            for t, how in tg:
                acq = L.acquires(t.path)
                if acq:
                    r.note("closure %s acquires %s (part of R1's graph)" % (stable_path(t), sorted(acq)))
    r.need(2, "delete callbacks under the intents lock")
    out.append(r.finish())

    r = Rule("R5", "no guard is leaked", "a leaked guard is never released")
    for e in ctx.fx.of_kind("LEAK"):
        b = e.site.body
        guardish = False
        for a in e.site.term["args"]:
            pl = a.get("move") or a.get("copy")
            if pl is not None and prog.guards_in_type(b.locals[pl["l"]], through_refs=False):
                guardish = True
            if pl is not None:
                d, _ = prog.adt_of(b.locals[pl["l"]])
                if d in prog.adts and prog.adts[d].get("has_drop"):
                    guardish = True
        if guardish:
            r.bad("leak:%s" % site_construct(e.site), b, "%s of a guard at %s" % (site_construct(e.site), site_where(e.site)),
                  site_where(e.site))
    r.ok("scan", None, "%d forget/ManuallyDrop/leak site(s) in the crate, none on a guard" % len(ctx.fx.of_kind("LEAK")))
    out.append(r.finish())
    return out
